// Native replay / translator-validation helper: runs the *real* rrss functions on concrete inputs.
// Protocol: one JSON request per stdin line, one JSON response per stdout line.
mod json;
use json::{J, P};
use rrss::exec::val::{Array, Val, ValError};
use rrss::frontend::ast::{PoeticNumberLiteral, PoeticNumberLiteralElem};
use rrss::frontend::lexer::Lexer;
use std::collections::VecDeque;
use std::io::{BufRead, Write};
use std::panic::{catch_unwind, AssertUnwindSafe};

fn build_val(j: &J) -> Val {
    match j.get("kind").str() {
        "Undefined" => Val::Undefined,
        "Null" => Val::Null,
        "Boolean" => Val::Boolean(j.get("v").bool()),
        "Number" => Val::Number(f64::from_bits(j.get("bits").u64())),
        "String" => Val::from(j.get("v").str()),
        "Array" => {
            let arr: VecDeque<Val> = j.get("arr").arr().iter().map(build_val).collect();
            let mut v: Val = Array::with_arr(arr).into();
            for e in j.get("dict").arr() {
                let kv = e.arr();
                let key = build_val(&kv[0]);
                let slot = v.index_or_insert(&key).expect("dict key");
                *slot = build_val(&kv[1]);
            }
            v
        }
        k => panic!("helper: bad val kind {:?}", k),
    }
}

fn val_json(v: &Val) -> J {
    let mut o = match v {
        Val::Undefined => J::obj(vec![("kind", J::s("Undefined"))]),
        Val::Null => J::obj(vec![("kind", J::s("Null"))]),
        Val::Boolean(b) => J::obj(vec![("kind", J::s("Boolean")), ("v", J::Bool(*b))]),
        Val::Number(n) => J::obj(vec![("kind", J::s("Number")), ("bits", J::U64(n.to_bits())), ("nan", J::Bool(n.is_nan()))]),
        Val::String(s) => J::obj(vec![("kind", J::s("String")), ("v", J::s(s.as_str()))]),
        Val::Array(_) => {
            let n = match v.decay().as_ref() {
                Val::Number(n) => *n as usize,
                _ => 0,
            };
            let mut items = Vec::new();
            for i in 0..n.min(64) {
                items.push(val_json(v.index(&Val::Number(i as f64)).unwrap().as_ref()));
            }
            J::obj(vec![("kind", J::s("Array")), ("arr", J::Arr(items)), ("len", J::U64(n as u64))])
        }
    };
    if let J::Obj(m) = &mut o {
        m.insert("display".into(), J::s(format!("{}", v)));
    }
    o
}

fn err_json(e: &ValError) -> J {
    let d = format!("{:?}", e);
    let name = d.split(|c| c == '(' || c == ' ').next().unwrap_or("").to_string();
    let mut s = String::new();
    let rendered = catch_unwind(AssertUnwindSafe(|| format!("{}", rrss::exec::RuntimeError::from(clone_err(e)))));
    match rendered {
        Ok(r) => s.push_str(&r),
        Err(_) => s.push_str("<<Display panicked>>"),
    }
    J::obj(vec![("err", J::s(name)), ("debug", J::s(d)), ("display", J::s(s))])
}

fn clone_err(e: &ValError) -> ValError {
    use ValError::*;
    match e {
        NotIndexable(a) => NotIndexable(a.clone()),
        InvalidKey(a) => InvalidKey(a.clone()),
        IndexNotAssignable(a, b) => IndexNotAssignable(a.clone(), b.clone()),
        InvalidOperationForType(s, a) => InvalidOperationForType(s, a.clone()),
        InvalidComparison(a, b) => InvalidComparison(a.clone(), b.clone()),
        InvalidSplitDelimiter(a) => InvalidSplitDelimiter(a.clone()),
        InvalidJoinDelimiter(a) => InvalidJoinDelimiter(a.clone()),
        InvalidArrayElementForJoin(a) => InvalidArrayElementForJoin(a.clone()),
        ParsingStringAsNumberFailed(s) => ParsingStringAsNumberFailed(s.clone()),
        InvalidStringToIntegerRadix(a) => InvalidStringToIntegerRadix(a.clone()),
        ConvertingNumberToCharacterFailed(f) => ConvertingNumberToCharacterFailed(*f),
        UnexpectedParameterToNumberToCharacterCast(a) => UnexpectedParameterToNumberToCharacterCast(a.clone()),
    }
}

fn opt_val(j: &J) -> Option<Val> {
    if j.is_null() {
        None
    } else {
        Some(build_val(j))
    }
}

fn unit_res(r: Result<(), ValError>, a: &Val) -> J {
    match r {
        Ok(()) => J::obj(vec![("ok", J::Bool(true)), ("self", val_json(a))]),
        Err(e) => {
            let mut o = err_json(&e);
            if let J::Obj(m) = &mut o {
                m.insert("self".into(), val_json(a));
            }
            o
        }
    }
}

fn op_val(req: &J) -> J {
    let f = req.get("fn").str().to_string();
    let mut a = build_val(req.get("a"));
    let bj = req.get("b");
    match f.as_str() {
        "equals" => J::obj(vec![("bool", J::Bool(a.equals(&build_val(bj))))]),
        "is_truthy" => J::obj(vec![("bool", J::Bool(a.is_truthy()))]),
        "compare" => match a.compare(&build_val(bj)) {
            Ok(o) => J::obj(vec![(
                "ord",
                match o {
                    None => J::Null,
                    Some(o) => J::Num(o as i32 as f64),
                },
            )]),
            Err(e) => err_json(&e),
        },
        "plus" => J::obj(vec![("val", val_json(&a.plus(&build_val(bj))))]),
        "subtract" => J::obj(vec![("val", val_json(&a.subtract(&build_val(bj))))]),
        "multiply" => J::obj(vec![("val", val_json(&a.multiply(&build_val(bj))))]),
        "divide" => J::obj(vec![("val", val_json(&a.divide(&build_val(bj))))]),
        "negate" => match a.negate() {
            Ok(v) => J::obj(vec![("val", val_json(&v))]),
            Err(e) => err_json(&e),
        },
        "decay" => J::obj(vec![("val", val_json(a.decay().as_ref()))]),
        "to_string_for_output" => J::obj(vec![("str", J::s(a.to_string_for_output().into_owned()))]),
        "inc" => {
            let r = a.inc(req.get("n").i64() as isize);
            unit_res(r, &a)
        }
        "inc_dec" => {
            let n = req.get("n").i64() as isize;
            let r = a.inc(n).and_then(|_| a.inc(-n));
            unit_res(r, &a)
        }
        "round_up" => {
            let r = a.round_up();
            unit_res(r, &a)
        }
        "round_down" => {
            let r = a.round_down();
            unit_res(r, &a)
        }
        "round_nearest" => {
            let r = a.round_nearest();
            unit_res(r, &a)
        }
        "split" => {
            let r = a.split(opt_val(bj));
            unit_res(r, &a)
        }
        "join" => {
            let r = a.join(opt_val(bj));
            unit_res(r, &a)
        }
        "cast" => {
            let r = a.cast(opt_val(bj));
            unit_res(r, &a)
        }
        "index" => match a.index(&build_val(bj)) {
            Ok(v) => J::obj(vec![("val", val_json(v.as_ref()))]),
            Err(e) => err_json(&e),
        },
        "index_or_insert" => {
            // clone first: the original must be unaffected by a write through the clone
            let orig = a.clone();
            let key = build_val(bj);
            let w = opt_val(req.get("write"));
            let r = match a.index_or_insert(&key) {
                Ok(slot) => {
                    if let Some(w) = w {
                        *slot = w;
                    }
                    Ok(())
                }
                Err(e) => Err(e),
            };
            let mut o = unit_res(r, &a);
            if let J::Obj(m) = &mut o {
                m.insert("orig".into(), val_json(&orig));
            }
            o
        }
        "push" => {
            let orig = a.clone();
            let vals: Vec<Val> = req.get("vals").arr().iter().map(build_val).collect();
            let r = a.push(vals.into_iter());
            let mut o = unit_res(r, &a);
            if let J::Obj(m) = &mut o {
                m.insert("orig".into(), val_json(&orig));
            }
            o
        }
        "pop" => {
            let orig = a.clone();
            let r = a.pop();
            let mut o = match r {
                Ok(v) => J::obj(vec![("val", val_json(&v)), ("self", val_json(&a))]),
                Err(e) => err_json(&e),
            };
            if let J::Obj(m) = &mut o {
                m.insert("orig".into(), val_json(&orig));
            }
            o
        }
        "array_coerce" => {
            a.array_coerce();
            J::obj(vec![("self", val_json(&a))])
        }
        "build" => J::obj(vec![("val", val_json(&a))]),
        _ => J::obj(vec![("error", J::s(format!("unknown val fn {}", f)))]),
    }
}

fn parse_binop(s: &str) -> rrss::frontend::ast::BinaryOperator {
    use rrss::frontend::ast::BinaryOperator::*;
    match s {
        "Plus" => Plus,
        "Minus" => Minus,
        "Multiply" => Multiply,
        "Divide" => Divide,
        "And" => And,
        "Or" => Or,
        "Nor" => Nor,
        "Eq" => Eq,
        "NotEq" => NotEq,
        "Greater" => Greater,
        "GreaterEq" => GreaterEq,
        "Less" => Less,
        "LessEq" => LessEq,
        o => panic!("helper: bad operator {}", o),
    }
}

// binary_operator_fold on concrete operands; rhs operands are thunks that count their calls;
// an operand {"fail":true} yields a runtime error when (and only when) it is evaluated.
fn op_binop(req: &J) -> J {
    use rrss::exec::produce_val::binary_operator_fold;
    use rrss::exec::RuntimeError;
    let op = parse_binop(req.get("operator").str());
    let a = build_val(req.get("a"));
    let rhs: Vec<Option<Val>> = req
        .get("rhs")
        .arr()
        .iter()
        .map(|j| if j.get("fail").bool() { None } else { Some(build_val(j)) })
        .collect();
    // "shared": the (single) right-hand operand is a clone of `a` (same Rc storage), as after `let y be x`
    let rhs: Vec<Option<Val>> = if req.get("shared").bool() { vec![Some(a.clone())] } else { rhs };
    let calls = std::cell::RefCell::new(Vec::<usize>::new());
    let thunks = rhs.iter().enumerate().map(|(i, v)| {
        let calls = &calls;
        move |_: &mut ()| -> Result<Val, RuntimeError> {
            calls.borrow_mut().push(i);
            match v {
                Some(v) => Ok(v.clone()),
                None => Err(RuntimeError::ValError(ValError::ParsingStringAsNumberFailed("<thunk failure>".into()))),
            }
        }
    });
    let r = binary_operator_fold(op, a, thunks, &mut ());
    let called = J::Arr(calls.borrow().iter().map(|i| J::U64(*i as u64)).collect());
    match r {
        Ok(v) => J::obj(vec![("val", val_json(&v)), ("called", called)]),
        Err(e) => {
            let d = format!("{:?}", e);
            let shown = catch_unwind(AssertUnwindSafe(|| e.to_string())).unwrap_or_else(|_| "<<Display panicked>>".into());
            J::obj(vec![("err", J::s(d.clone())), ("display", J::s(shown)), ("called", called)])
        }
    }
}

// Writer / reader with a fault plan and a shared event log (replay of I/O counterexamples).
// Output: line k (0-based, counted by the line feeds accepted so far) and every later one fails -- mode "error": write returns Err;
// mode "zero": write returns Ok(0).  A write never accepts more than one line (short writes are within the Write contract).
// Input: serves one line per read call; read call k and every later one fails.
struct FaultWriter {
    data: Vec<u8>,
    lines: u64,
    fail_at: Option<u64>,
    zero: bool,
    log: std::rc::Rc<std::cell::RefCell<Vec<&'static str>>>,
    at_line_start: bool,
}

impl std::io::Write for FaultWriter {
    fn write(&mut self, buf: &[u8]) -> std::io::Result<usize> {
        if buf.is_empty() {
            return Ok(0);
        }
        if self.at_line_start {
            self.log.borrow_mut().push("out");
        }
        if let Some(k) = self.fail_at {
            if self.lines >= k {
                return if self.zero { Ok(0) } else { Err(std::io::Error::new(std::io::ErrorKind::Other, "fault")) };
            }
        }
        let n = match buf.iter().position(|b| *b == b'\n') {
            Some(i) => {
                self.lines += 1;
                self.at_line_start = true;
                i + 1
            }
            None => {
                self.at_line_start = false;
                buf.len()
            }
        };
        self.data.extend_from_slice(&buf[..n]);
        Ok(n)
    }
    fn flush(&mut self) -> std::io::Result<()> {
        Ok(())
    }
}

struct FaultReader {
    data: Vec<u8>,
    pos: usize,
    calls: u64,
    fail_at: Option<u64>,
    first_chunk: Option<usize>,
    log: std::rc::Rc<std::cell::RefCell<Vec<&'static str>>>,
}

impl std::io::Read for FaultReader {
    fn read(&mut self, buf: &mut [u8]) -> std::io::Result<usize> {
        self.log.borrow_mut().push("in");
        let k = self.calls;
        self.calls += 1;
        if let Some(f) = self.fail_at {
            if k >= f {
                return Err(std::io::Error::new(std::io::ErrorKind::Other, "fault"));
            }
        }
        let rest = &self.data[self.pos..];
        let mut n = match rest.iter().position(|b| *b == b'\n') {
            Some(i) => i + 1,
            None => rest.len(),
        }
        .min(buf.len());
        // chunk plan: the very first read delivers only a prefix of the first line (a legal short read)
        if let Some(k) = self.first_chunk.take() {
            n = n.min(k);
        }
        buf[..n].copy_from_slice(&rest[..n]);
        self.pos += n;
        Ok(n)
    }
}

fn opt_u64(j: &J) -> Option<u64> {
    match j {
        J::U64(n) => Some(*n),
        J::Num(n) => Some(*n as u64),
        _ => None,
    }
}

fn op_program(req: &J) -> J {
    let src = req.get("src").str().to_string();
    let stdin = req.get("stdin").str().to_string();
    let log = std::rc::Rc::new(std::cell::RefCell::new(Vec::new()));
    let mut out = FaultWriter { data: Vec::new(), lines: 0, fail_at: opt_u64(req.get("out_fail_at")), zero: req.get("out_fail_mode").str() == "zero", log: log.clone(), at_line_start: true };
    let input = FaultReader { data: stdin.into_bytes(), pos: 0, calls: 0, fail_at: opt_u64(req.get("in_fail_at")), first_chunk: opt_u64(req.get("in_first_chunk_bytes")).map(|k| k as usize), log: log.clone() };
    let mut res = Vec::new();
    match rrss::frontend::parser::parse(&src) {
        Err(e) => {
            let shown = catch_unwind(AssertUnwindSafe(|| e.to_string()));
            res.push(("parse", J::s("err")));
            res.push(("parse_error", J::s(shown.unwrap_or_else(|_| "<<Display panicked>>".into()))));
        }
        Ok(program) => {
            res.push(("parse", J::s("ok")));
            let r = rrss::exec::exec_using(input, &mut out, &program);
            match r {
                Ok(()) => res.push(("result", J::s("ok"))),
                Err(e) => {
                    res.push(("result", J::s("err")));
                    res.push(("error_debug", J::s(format!("{:?}", e))));
                    let shown = catch_unwind(AssertUnwindSafe(|| e.to_string()));
                    res.push(("error_display", J::s(shown.unwrap_or_else(|_| "<<Display panicked>>".into()))));
                }
            }
        }
    }
    res.push(("stdout", J::s(String::from_utf8_lossy(&out.data).into_owned())));
    res.push(("events", J::s(log.borrow().iter().map(|e| &e[..1]).collect::<String>())));
    J::obj(res)
}

fn op_lex(req: &J) -> J {
    let src = req.get("src").str().to_string();
    let base = src.as_ptr() as usize;
    let mut toks = Vec::new();
    let limit = req.get("max_tokens").u64().max(1000) as usize;
    for t in Lexer::new(&src) {
        let off = t.spelling.as_ptr() as usize;
        let inside = off >= base && off + t.spelling.len() <= base + src.len();
        toks.push(J::obj(vec![
            ("id", J::s(format!("{:?}", t.id))),
            ("off", if inside { J::U64((off - base) as u64) } else { J::Null }),
            ("len", J::U64(t.spelling.len() as u64)),
            ("spelling", J::s(t.spelling)),
            ("l0", J::U64(t.range.start().line as u64)),
            ("c0", J::U64(t.range.start().column as u64)),
            ("l1", J::U64(t.range.end().line as u64)),
            ("c1", J::U64(t.range.end().column as u64)),
        ]));
        if toks.len() > limit {
            return J::obj(vec![("tokens", J::Arr(toks)), ("runaway", J::Bool(true))]);
        }
    }
    J::obj(vec![("tokens", J::Arr(toks))])
}

fn op_parse(req: &J) -> J {
    let src = req.get("src").str().to_string();
    match rrss::frontend::parser::parse(&src) {
        Ok(p) => J::obj(vec![("ok", J::Bool(true)), ("ast", J::s(format!("{:?}", p)))]),
        Err(e) => {
            let dbg = format!("{:?}", e);
            let shown = catch_unwind(AssertUnwindSafe(|| e.to_string()));
            match shown {
                Ok(s) => J::obj(vec![("ok", J::Bool(false)), ("error", J::s(s)), ("debug", J::s(dbg))]),
                Err(_) => J::obj(vec![("ok", J::Bool(false)), ("panic", J::s("ParseError Display panicked")), ("debug", J::s(dbg))]),
            }
        }
    }
}

fn op_poetic(req: &J) -> J {
    let elems: Vec<PoeticNumberLiteralElem> = req
        .get("elems")
        .arr()
        .iter()
        .map(|e| {
            let a = e.arr();
            match a[0].str() {
                "w" => PoeticNumberLiteralElem::Word(a[1].str().to_string()),
                "s" => PoeticNumberLiteralElem::WordSuffix(a[1].str().to_string()),
                _ => PoeticNumberLiteralElem::Dot,
            }
        })
        .collect();
    let p = PoeticNumberLiteral { elems };
    let v = p.compute_value();
    J::obj(vec![("bits", J::U64(v.to_bits())), ("nan", J::Bool(v.is_nan())), ("display", J::s(format!("{}", v)))])
}

fn op_lint(req: &J) -> J {
    let src = req.get("src").str().to_string();
    match rrss::frontend::parser::parse(&src) {
        Err(e) => J::obj(vec![("parse", J::s("err")), ("debug", J::s(format!("{:?}", e)))]),
        Ok(program) => {
            let before = format!("{:?}", program);
            let r = rrss::linter::standard_linter().run(&program);
            let after = format!("{:?}", program);
            let diags = r
                .diags
                .iter()
                .map(|d| {
                    J::obj(vec![
                        ("issue", J::s(d.issue.as_str())),
                        ("suggestions", J::Arr(d.suggestions.iter().map(|s| J::s(s.as_str())).collect())),
                        ("line", J::U64(d.line as u64)),
                    ])
                })
                .collect();
            J::obj(vec![("parse", J::s("ok")), ("diags", J::Arr(diags)), ("unchanged", J::Bool(before == after))])
        }
    }
}

fn op_chartab(req: &J) -> J {
    let mut m = Vec::new();
    let keys: Vec<String> = req.get("cps").arr().iter().map(|c| c.u64().to_string()).collect();
    for (i, c) in req.get("cps").arr().iter().enumerate() {
        let ch = char::from_u32(c.u64() as u32).unwrap();
        let e = J::obj(vec![
            ("is_alphabetic", J::Bool(ch.is_alphabetic())),
            ("is_numeric", J::Bool(ch.is_numeric())),
            ("is_alphanumeric", J::Bool(ch.is_alphanumeric())),
            ("is_whitespace", J::Bool(ch.is_whitespace())),
            ("is_lowercase", J::Bool(ch.is_lowercase())),
            ("is_uppercase", J::Bool(ch.is_uppercase())),
            ("is_control", J::Bool(ch.is_control())),
            ("lower", J::Arr(ch.to_lowercase().map(|x| J::U64(x as u64)).collect())),
            ("upper", J::Arr(ch.to_uppercase().map(|x| J::U64(x as u64)).collect())),
        ]);
        m.push((keys[i].as_str(), e));
    }
    J::obj(m)
}

fn op_f64(req: &J) -> J {
    // std facts the VM treats as environment: parse / display of f64, from_str_radix
    match req.get("fn").str() {
        "parse" => match req.get("s").str().parse::<f64>() {
            Ok(v) => J::obj(vec![("ok", J::Bool(true)), ("bits", J::U64(v.to_bits())), ("nan", J::Bool(v.is_nan()))]),
            Err(_) => J::obj(vec![("ok", J::Bool(false))]),
        },
        "display" => J::obj(vec![("str", J::s(format!("{}", f64::from_bits(req.get("bits").u64()))))]),
        _ => J::Null,
    }
}

// Conformance vectors for the VM's std models: each entry is computed by the real std here and by the model in Python
// (mirsym/stdcheck.py evaluates the same expressions through the model registry); the two lists must be identical.
fn op_stdcheck(_req: &J) -> J {
    let mut out: Vec<String> = Vec::new();
    let fs = [0.0f64, -0.0, 1.5, -2.5, f64::NAN, f64::INFINITY, f64::NEG_INFINITY, 1e-300, 9.3e18];
    for a in fs {
        for b in fs {
            out.push(format!("total_cmp {:?}", a.total_cmp(&b)));
            out.push(format!("min {:?}", a.min(b).to_bits()));
            out.push(format!("max {:?}", a.max(b).to_bits()));
            out.push(format!("copysign {:?}", a.copysign(b).to_bits()));
        }
        out.push(format!("signum {:?}", a.signum().to_bits()));
        out.push(format!("is_sign_positive {:?}", a.is_sign_positive()));
        out.push(format!("to_bits {:?}", a.to_bits()));
        out.push(if a.sqrt().is_nan() { "sqrt NaN".to_string() } else { format!("sqrt {:?}", a.sqrt().to_bits()) });
        if !a.is_nan() {
            out.push(format!("clamp {:?}", a.clamp(-1.0, 2.0).to_bits()));
        }
    }
    out.push(format!("consts {:?} {:?} {:?} {:?}", f64::EPSILON.to_bits(), f64::MAX.to_bits(), f64::MIN.to_bits(), f64::MIN_POSITIVE.to_bits()));
    let is = [0i64, 1, -1, 7, -7, i64::MAX, i64::MIN];
    for a in is {
        out.push(format!("wrapping_abs {:?}", a.wrapping_abs()));
        out.push(format!("unsigned_abs {:?}", a.unsigned_abs()));
        out.push(format!("checked_abs {:?}", a.checked_abs()));
        out.push(format!("checked_neg {:?}", a.checked_neg()));
        out.push(format!("wrapping_neg {:?}", a.wrapping_neg()));
        out.push(format!("signum {:?}", a.signum()));
        for b in [1i64, -1, 2, -3, 0] {
            out.push(format!("checked_div {:?}", a.checked_div(b)));
            out.push(format!("checked_rem {:?}", a.checked_rem(b)));
            if b != 0 && !(a == i64::MIN && b == -1) {
                out.push(format!("rem_euclid {:?}", a.rem_euclid(b)));
                out.push(format!("div_euclid {:?}", a.div_euclid(b)));
            }
        }
    }
    for a in [0usize, 1, 2, 3, 8, 1023, usize::MAX] {
        out.push(format!("is_power_of_two {:?}", a.is_power_of_two()));
        out.push(format!("leading_zeros {:?}", a.leading_zeros()));
        out.push(format!("trailing_zeros {:?}", a.trailing_zeros()));
        out.push(format!("count_ones {:?}", a.count_ones()));
        out.push(format!("checked_neg {:?}", a.checked_neg()));
    }
    let ss = ["", "a", "abcabc", "a,b,,c", "héllo wörld", "xx--xx", "AbC"];
    for s in ss {
        for p in ["", "a", "b", ",", "xx", "bc", "ö"] {
            out.push(format!("rsplit_once {:?}", s.rsplit_once(p)));
            out.push(format!("replace {:?}", s.replace(p, "Z")));
            out.push(format!("replacen {:?}", s.replacen(p, "YY", 1)));
        }
        out.push(format!("eq_ignore_ascii_case {:?} {:?}", s.eq_ignore_ascii_case("abc"), s.eq_ignore_ascii_case(&s.to_uppercase())));
        out.push(format!("repeat {:?}", s.repeat(2)));
        for k in [0usize, 1, 3] {
            if s.is_char_boundary(k) {
                out.push(format!("split_at {:?}", s.split_at(k)));
                let mut t = s.to_string();
                let tail = t.split_off(k);
                out.push(format!("split_off {:?} {:?}", t, tail));
                let mut t = s.to_string();
                t.insert(k, 'Q');
                t.insert_str(k, "é!");
                out.push(format!("insert {:?}", t));
                let mut t = s.to_string();
                t.truncate(k);
                out.push(format!("truncate {:?}", t));
                if k < s.len() {
                    let mut t = s.to_string();
                    let c = t.remove(k);
                    out.push(format!("remove {:?} {:?}", c, t));
                }
            }
        }
    }
    for d in [0u32, 5, 9, 10, 15, 35, 36] {
        out.push(format!("from_digit {:?} {:?}", char::from_digit(d, 10), char::from_digit(d, 36)));
    }
    let vs: [&[i64]; 5] = [&[], &[1], &[1, 1, 2, 2, 1], &[3, 1, 2], &[5, 6, 7, 8, 9]];
    for v in vs {
        let mut w = v.to_vec();
        w.retain(|x| x % 2 == 1);
        out.push(format!("retain {:?}", w));
        let mut w = v.to_vec();
        w.dedup();
        out.push(format!("dedup {:?}", w));
        for k in [0usize, 1, 2] {
            if k <= v.len() {
                let mut w = v.to_vec();
                let t = w.split_off(k);
                out.push(format!("vec_split_off {:?} {:?}", w, t));
            }
        }
        for k in [1usize, 2, 3] {
            out.push(format!("windows {:?}", v.windows(k).map(|x| x.to_vec()).collect::<Vec<_>>()));
            out.push(format!("chunks {:?}", v.chunks(k).map(|x| x.to_vec()).collect::<Vec<_>>()));
        }
        out.push(format!("starts_with {:?} {:?}", v.starts_with(&[1, 1]), v.ends_with(&[2])));
        out.push(format!("iter_eq {:?} {:?}", v.iter().eq([1i64, 1, 2, 2, 1].iter()), v.iter().ne(v.iter())));
        let mut p = v.iter().peekable();
        let a = p.peek().copied().copied();
        let b = p.next().copied();
        let c = p.next_if(|x| **x == 1).copied();
        let d = p.peek().copied().copied();
        out.push(format!("peekable {:?} {:?} {:?} {:?} {:?}", a, b, c, d, p.count()));
        if v.len() >= 2 {
            let mut w = v.to_vec();
            w.swap(0, v.len() - 1);
            out.push(format!("swap {:?}", w));
        }
    }
    {
        use itertools::Itertools;
        let lists: [&[i64]; 5] = [&[], &[1], &[1, 1, 2, 2, 1], &[1, 3, 5], &[2, 2, 4, 9]];
        for a in lists {
            for b in lists {
                out.push(format!("merge {:?}", a.iter().merge(b.iter()).collect::<Vec<_>>()));
                out.push(format!("merge_by {:?}", a.iter().merge_by(b.iter(), |x, y| x >= y).collect::<Vec<_>>()));
                out.push(format!("interleave {:?}", a.iter().interleave(b.iter()).collect::<Vec<_>>()));
            }
            out.push(format!("it_dedup {:?}", a.iter().dedup().collect::<Vec<_>>()));
            out.push(format!("unique {:?}", a.iter().unique().collect::<Vec<_>>()));
            out.push(format!("intersperse {:?}", a.iter().copied().intersperse(0).collect::<Vec<_>>()));
            out.push(format!("tuple_windows {:?}", a.iter().copied().tuple_windows::<(i64, i64)>().collect::<Vec<_>>()));
            out.push(format!("all_equal {:?}", a.iter().all_equal()));
            out.push(format!("sorted {:?}", a.iter().rev().sorted().collect::<Vec<_>>()));
            out.push(format!("join {:?}", a.iter().map(|x| format!("s{}", x)).join("-")));
        }
    }
    for x in [0.0f64, -0.0, 1.0, -1.5, 0.1, 0.1 + 0.2, 1e21, 1e-7, 123456789012345680000.0, 5e-324, 1.7976931348623157e308, 9007199254740993.0, 1e15, 1e16, 0.000001, 1234.5678, f64::NAN, f64::INFINITY, f64::NEG_INFINITY, 2.5e-10, 4.35, 100.0, 1e22, 1e23] {
        out.push(format!("display {}", x));
    }
    for t in ["1", "-1", "+1", "1.5", ".5", "5.", "1e3", "1E3", "1e+3", "1e-3", " 1", "1 ", "", ".", "-", "e5", "1e", "inf", "-inf", "infinity", "Infinity", "nan", "NaN", "-nan", "0x10", "1_000", "1.2.3", "--1", "1e400", "1e-400", "00012", "-.5e1", "١"] {
        out.push(format!("parse {:?}", t.parse::<f64>().ok().map(|v| if v.is_nan() { "NaN".to_string() } else { format!("{:?}", v.to_bits()) })));
    }
    for s in ["", "abc", "a,b,,c", "  x y  ", "héllo", "aXXbXXXc", "line1\nline2\n", "a\tb c"] {
        for p in ["", ",", "XX", "l", " "] {
            if !p.is_empty() {
                out.push(format!("split {:?}", s.split(p).collect::<Vec<_>>()));
            }
            out.push(format!("find {:?} {:?}", s.find(p), s.rfind(p)));
            out.push(format!("strip {:?} {:?}", s.strip_prefix(p), s.strip_suffix(p)));
            out.push(format!("contains {:?} {:?} {:?}", s.contains(p), s.starts_with(p), s.ends_with(p)));
            out.push(format!("split_once {:?}", s.split_once(p)));
        }
        out.push(format!("trim {:?} {:?} {:?}", s.trim(), s.trim_start(), s.trim_end()));
        out.push(format!("case {:?} {:?} {:?}", s.to_lowercase(), s.to_uppercase(), s.to_ascii_uppercase()));
        out.push(format!("lines {:?}", s.lines().collect::<Vec<_>>()));
        out.push(format!("chars {:?} {:?}", s.chars().count(), s.len()));
    }
    for s in ["", "aZ", "héllo", "Ж1 x", "a\u{212a}b"] {
        out.push(format!("bytes {:?}", s.bytes().collect::<Vec<u8>>()));
        out.push(format!("u8preds {:?}", s.bytes().map(|b| (b.is_ascii_alphabetic(), b.is_ascii_digit(), b.is_ascii(), b.is_ascii_whitespace(), b.to_ascii_uppercase())).collect::<Vec<_>>()));
        out.push(format!("flat_map {:?}", s.chars().flat_map(char::to_lowercase).collect::<String>()));
        out.push(format!("byte_get {:?} {:?} {:?}", s.as_bytes().get(0), s.as_bytes().get(2), s.as_bytes().first()));
        out.push(format!("from_utf8 {:?}", std::str::from_utf8(s.as_bytes())));
        let mut a = arrayvec::ArrayString::<4>::new();
        let rs: Vec<bool> = s.chars().map(|c| a.try_push(c).is_ok()).collect();
        out.push(format!("arraystring {:?} {:?} {:?} {:?}", rs, a.as_str(), a.len(), a.is_full()));
    }
    let r: Result<i64, i64> = Ok(3);
    let e: Result<i64, i64> = Err(4);
    out.push(format!("result {:?} {:?} {:?} {:?} {:?} {:?} {:?} {:?}", r.and(e), e.and(r), r.or(e), e.or(r), r.map_or(9, |x| x + 1), e.map_or(9, |x| x + 1), r.is_ok_and(|x| x == 3), e.is_err_and(|x| x == 5)));
    J::Arr(out.into_iter().map(J::s).collect())
}

fn handle(req: &J) -> J {
    match req.get("op").str() {
        "val" => op_val(req),
        "binop" => op_binop(req),
        "program" => op_program(req),
        "lex" => op_lex(req),
        "parse" => op_parse(req),
        "poetic" => op_poetic(req),
        "lint" => op_lint(req),
        "chartab" => op_chartab(req),
        "f64" => op_f64(req),
        "stdcheck" => op_stdcheck(req),
        "ping" => J::obj(vec![("pong", J::Bool(true)), ("debug_assertions", J::Bool(cfg!(debug_assertions)))]),
        o => J::obj(vec![("error", J::s(format!("unknown op {}", o)))]),
    }
}

fn main() {
    std::panic::set_hook(Box::new(|_| {}));
    let stdin = std::io::stdin();
    let stdout = std::io::stdout();
    for line in stdin.lock().lines() {
        let line = match line {
            Ok(l) => l,
            Err(_) => break,
        };
        if line.trim().is_empty() {
            continue;
        }
        let resp = match P::new(&line).parse() {
            Err(e) => J::obj(vec![("error", J::s(format!("bad request: {}", e)))]),
            Ok(req) => match catch_unwind(AssertUnwindSafe(|| handle(&req))) {
                Ok(j) => j,
                Err(p) => {
                    let msg = if let Some(s) = p.downcast_ref::<&str>() {
                        s.to_string()
                    } else if let Some(s) = p.downcast_ref::<String>() {
                        s.clone()
                    } else {
                        "<non-string panic payload>".to_string()
                    };
                    J::obj(vec![("panic", J::s(msg))])
                }
            },
        };
        let mut s = String::new();
        resp.write(&mut s);
        let mut o = stdout.lock();
        let _ = writeln!(o, "{}", s);
        let _ = o.flush();
    }
}
