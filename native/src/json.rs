// Minimal JSON reader/writer (no external crates are available offline).
use std::collections::BTreeMap;

#[derive(Clone, Debug, PartialEq)]
pub enum J {
    Null,
    Bool(bool),
    Num(f64),
    U64(u64),
    Str(String),
    Arr(Vec<J>),
    Obj(BTreeMap<String, J>),
}

impl J {
    pub fn get(&self, k: &str) -> &J {
        static NULL: J = J::Null;
        match self {
            J::Obj(m) => m.get(k).unwrap_or(&NULL),
            _ => &NULL,
        }
    }
    pub fn str(&self) -> &str {
        match self {
            J::Str(s) => s,
            _ => "",
        }
    }
    pub fn arr(&self) -> &[J] {
        match self {
            J::Arr(a) => a,
            _ => &[],
        }
    }
    pub fn u64(&self) -> u64 {
        match self {
            J::U64(u) => *u,
            J::Num(n) => *n as u64,
            _ => 0,
        }
    }
    pub fn i64(&self) -> i64 {
        match self {
            J::U64(u) => *u as i64,
            J::Num(n) => *n as i64,
            _ => 0,
        }
    }
    pub fn bool(&self) -> bool {
        matches!(self, J::Bool(true))
    }
    pub fn is_null(&self) -> bool {
        matches!(self, J::Null)
    }
    pub fn obj(pairs: Vec<(&str, J)>) -> J {
        J::Obj(pairs.into_iter().map(|(k, v)| (k.to_string(), v)).collect())
    }
    pub fn s(x: impl Into<String>) -> J {
        J::Str(x.into())
    }
    pub fn write(&self, out: &mut String) {
        match self {
            J::Null => out.push_str("null"),
            J::Bool(b) => out.push_str(if *b { "true" } else { "false" }),
            J::Num(n) => {
                if n.is_finite() {
                    out.push_str(&format!("{}", n))
                } else {
                    out.push_str("null")
                }
            }
            J::U64(u) => out.push_str(&format!("{}", u)),
            J::Str(s) => {
                out.push('"');
                for c in s.chars() {
                    match c {
                        '"' => out.push_str("\\\""),
                        '\\' => out.push_str("\\\\"),
                        '\n' => out.push_str("\\n"),
                        '\r' => out.push_str("\\r"),
                        '\t' => out.push_str("\\t"),
                        c if (c as u32) < 0x20 => out.push_str(&format!("\\u{:04x}", c as u32)),
                        c => out.push(c),
                    }
                }
                out.push('"');
            }
            J::Arr(a) => {
                out.push('[');
                for (i, x) in a.iter().enumerate() {
                    if i > 0 {
                        out.push(',');
                    }
                    x.write(out);
                }
                out.push(']');
            }
            J::Obj(m) => {
                out.push('{');
                for (i, (k, v)) in m.iter().enumerate() {
                    if i > 0 {
                        out.push(',');
                    }
                    J::Str(k.clone()).write(out);
                    out.push(':');
                    v.write(out);
                }
                out.push('}');
            }
        }
    }
}

pub struct P<'a> {
    s: &'a [u8],
    i: usize,
}

impl<'a> P<'a> {
    pub fn new(s: &'a str) -> Self {
        P { s: s.as_bytes(), i: 0 }
    }
    fn ws(&mut self) {
        while self.i < self.s.len() && (self.s[self.i] as char).is_ascii_whitespace() {
            self.i += 1;
        }
    }
    pub fn parse(&mut self) -> Result<J, String> {
        self.ws();
        if self.i >= self.s.len() {
            return Err("eof".into());
        }
        match self.s[self.i] {
            b'n' => {
                self.i += 4;
                Ok(J::Null)
            }
            b't' => {
                self.i += 4;
                Ok(J::Bool(true))
            }
            b'f' => {
                self.i += 5;
                Ok(J::Bool(false))
            }
            b'"' => Ok(J::Str(self.string()?)),
            b'[' => {
                self.i += 1;
                let mut v = Vec::new();
                loop {
                    self.ws();
                    if self.s[self.i] == b']' {
                        self.i += 1;
                        break;
                    }
                    v.push(self.parse()?);
                    self.ws();
                    if self.s[self.i] == b',' {
                        self.i += 1;
                    }
                }
                Ok(J::Arr(v))
            }
            b'{' => {
                self.i += 1;
                let mut m = BTreeMap::new();
                loop {
                    self.ws();
                    if self.s[self.i] == b'}' {
                        self.i += 1;
                        break;
                    }
                    let k = self.string()?;
                    self.ws();
                    if self.s[self.i] != b':' {
                        return Err("expected :".into());
                    }
                    self.i += 1;
                    let v = self.parse()?;
                    m.insert(k, v);
                    self.ws();
                    if self.s[self.i] == b',' {
                        self.i += 1;
                    }
                }
                Ok(J::Obj(m))
            }
            _ => {
                let st = self.i;
                while self.i < self.s.len() && matches!(self.s[self.i], b'0'..=b'9' | b'-' | b'+' | b'.' | b'e' | b'E') {
                    self.i += 1;
                }
                let t = std::str::from_utf8(&self.s[st..self.i]).unwrap();
                if let Ok(u) = t.parse::<u64>() {
                    Ok(J::U64(u))
                } else {
                    t.parse::<f64>().map(J::Num).map_err(|e| format!("num {:?}: {}", t, e))
                }
            }
        }
    }
    fn string(&mut self) -> Result<String, String> {
        self.i += 1;
        let mut out = String::new();
        loop {
            if self.i >= self.s.len() {
                return Err("unterminated string".into());
            }
            let c = self.s[self.i];
            match c {
                b'"' => {
                    self.i += 1;
                    return Ok(out);
                }
                b'\\' => {
                    let d = self.s[self.i + 1];
                    self.i += 2;
                    match d {
                        b'n' => out.push('\n'),
                        b'r' => out.push('\r'),
                        b't' => out.push('\t'),
                        b'b' => out.push('\u{8}'),
                        b'f' => out.push('\u{c}'),
                        b'u' => {
                            let h = std::str::from_utf8(&self.s[self.i..self.i + 4]).unwrap();
                            let mut cp = u32::from_str_radix(h, 16).map_err(|e| e.to_string())?;
                            self.i += 4;
                            if (0xD800..0xDC00).contains(&cp) && self.s[self.i] == b'\\' {
                                let h2 = std::str::from_utf8(&self.s[self.i + 2..self.i + 6]).unwrap();
                                let lo = u32::from_str_radix(h2, 16).map_err(|e| e.to_string())?;
                                self.i += 6;
                                cp = 0x10000 + ((cp - 0xD800) << 10) + (lo - 0xDC00);
                            }
                            out.push(char::from_u32(cp).unwrap_or('\u{fffd}'));
                        }
                        d => out.push(d as char),
                    }
                }
                _ => {
                    // copy one UTF-8 scalar
                    let st = self.i;
                    self.i += 1;
                    while self.i < self.s.len() && (self.s[self.i] & 0xC0) == 0x80 {
                        self.i += 1;
                    }
                    out.push_str(std::str::from_utf8(&self.s[st..self.i]).unwrap());
                }
            }
        }
    }
}
