#!/usr/bin/env python3
"""Regenerates MANIFEST.json from the table below (kept as code so that the manifest stays consistent)."""
import json, os
HERE = os.path.dirname(os.path.abspath(__file__))
TECH = 'bounded symbolic execution of rustc MIR (own path-wise VM), z3-decided assertions, native replay of counterexamples'
CLAIMED = {
 'C14': dict(text='Bounded model checking by symbolic execution of the real MIR of Val::{equals,compare,cmp_coerced,is_truthy,inc} and binary_operator_fold::op: every law is discharged by z3 on every feasible path over two lazily symbolic values (all kinds, all doubles, all strings, arrays <= 2/3 elements).  Not a proof: bounds on array size/nesting; std is modelled.',
             ref='DESIGN.md §4 C14', note='Trusted: MIR text semantics as implemented by mirsym (validated per run against the native build on ~6000 operand vectors), std models (§2.4), z3 5.1.  Strings are opaque sequences with parse::<f64> uninterpreted.'),
 'C02': dict(text='Bounded model checking of the real lexer + parser (frontend::parser::parse from MIR): (a) every alternative of every keyword / phrase slot, three case styles, a symbolic ignorable character (solver-forked over all blanks and all non-token ignorable punctuation, spaced and glued) and one / two comments at every token boundary of base programs covering all 18 statement kinds must give the canonical tree with positions erased; (b) 650+ expressions (all 13 x 13 operator pairs in worded and symbolic spellings, unary / list / subscript variants) must parse to the tree of a reference precedence-climbing parser; (c) control-flow layouts parse to their own nesting; (d) number literals denote float(text), string literals of <= 2 symbolic characters denote exactly those characters.',
             ref='DESIGN.md §9.6', note='The spelling table (aliases, phrases, separators) is the reference and lives in mirsym/props/C02.py; chains mixing worded and symbolic comparisons, poetic literals (C11) and identifier case (C15) are outside.'),
 'C03': dict(text='Bounded model checking of the real evaluator kernels (plus/subtract/multiply/divide/negate/equals/compare/is_truthy/to_string_for_output, binary_operator_fold incl. short-circuit and list fold, ProduceVal::visit_unary_expression) against a reference coercion table: z3 compares result kind, payload term, error class and evaluated thunks on every feasible path over all 13 operators x 36 kind pairs with symbolic payloads.',
             ref='DESIGN.md §4 C03', note='Trusted: std models, z3; the reference table is validated per run against golden answers recorded from the pinned tree (props/C03_golden.json) and the VM against the current native build.  Expression nesting depth 1 (evaluator is compositional); variables/statements are C04/C05.'),
 'C06': dict(text='One inductive step from an arbitrary shared state: an arbitrary Val and its derived clone (shared Rc), one array operation on the clone executed from MIR; z3/structural comparison with a reference array model, the original compared with its snapshot (independence), and no panic/UB edge reachable.',
             ref='DESIGN.md §4 C06', note='Kernel level (Val/Array methods); nested subscript writes and argument passing at interpreter level are outside.  Numeric indices are split into classes (see evidence bounds).'),
 'C07': dict(text='Bounded model checking of Val::{split,join,cast,round_*} from MIR against reference definitions (std-documented split/join, IEEE roundToIntegral, scalar-value check, radix precondition as a panic edge) over bounded symbolic strings (split/join) and all doubles / all strings (cast, rounding).',
             ref='DESIGN.md §4 C07', note='Kernel level; the into-destination statement protocol is outside.  parse::<f64>/from_str_radix digits are std (uninterpreted).'),
 'C10': dict(text='Self-composition over HashMap iteration order: Val::join, Display for arrays and array equality are executed from MIR under the insertion order and under every other permutation of a 2..3-entry dictionary; z3 asserts identical observables.  Plus a regenerated inventory of every hash-container iteration site in the crate MIR; an unanalysed site makes the check inconclusive.',
             ref='DESIGN.md §4 C10', note='Kernel level; process-level repeatability is only used for replay (48 fresh processes per profile).'),
 'C11': dict(text='Bounded model checking of PoeticNumberLiteral::compute_value / word_len / the suffix-grouping iterator from MIR: for literals of 1..=6 elements with symbolic element kinds and symbolic word lengths z3 shows the returned floating-point term equals the reference sum of (length mod 10) x 10^position; word_len over symbolic characters; the <=4 ulp / integer-exact bound for 1..=3 (thorough 4) symbolic digits by bit-blasted FP queries.',
             ref='DESIGN.md §4 C11', note='Numeric half only (the poetic string half needs string-level parsing).  Well-formedness of the element list (no leading suffix) is assumed here and is the parser\'s obligation.'),
 'C01': dict(text='Bounded model checking of the real frontend::parser::parse (Lexer + Parser) and ParseError Display from MIR, in the dev and the release profile: (a) symbolic source text, every character a 32-bit symbolic code point whose class decisions are solver-checked forks; (b) every sequence of <= 3 lexemes over a vocabulary read from the real KEYWORDS table.  Any feasible path reaching a panic edge, an out-of-bounds unchecked slice (release MIR), an unreachable terminator or exceeding the step bound (non-termination) is a counterexample, replayed against the native dev and release builds.',
             ref='DESIGN.md §4 C01', note='Symbolic texts <= 3 characters (quick: parser on <= 2, lexer on 3; thorough: parser on <= 4); lexeme sequences: 1 over all spellings, 2 over one spelling per token type, 3 over 20 role representatives (thorough: 3 over all types, 4 over the 20).  Deep nesting is outside the property.'),
 'C12': dict(text='Bounded model checking of the real Lexer (Lexer::new, Iterator::next, match_loop, scan_*, make_range, staged suffixes) from MIR over symbolic source text: every character is a 32-bit symbolic code point over ASCII and nine multi-byte representatives, every character-class decision of the lexer is a solver-checked fork; on every feasible path z3 / the path facts decide that the tokens are ordered non-overlapping slices, gaps are ignorable, every line feed outside strings/comments is a Newline token, and start / end positions equal the true line and byte column.',
             ref='DESIGN.md §4 C12', note='Texts of <= 3 (thorough 4) symbolic characters, plus 2 symbolic characters inside fixed multi-line contexts and multi-line string/comment + suffix units.  Counterexamples are replayed through the native lexer in dev and release.'),
 'C13': dict(text='Bounded model checking of the real frontend::parser::parse + ParseError Display from MIR on composed texts (valid context) + (fault line) + (valid continuation): 91 context-independent syntax faults in 6 classes at every position of every context built from <= 1 (thorough 2) units (statements, closed blocks, function, multi-line comment / string literals, blank lines) and inside 5 open blocks; symbolic ignorable characters before the fault (and, thorough, at the end of the preceding line) make the lexer fork under the solver.  Each feasible path must end in Err whose rendered line equals the fault line.',
             ref='DESIGN.md §9.6', note='The fault catalogue is fixed in mirsym/props/C13.py; faults whose rejection depends on context are outside.  Counterexamples are replayed through the native parser (dev + release).'),
 'C16': dict(text='Symbolic execution of the real default traversal (VisitExpr / VisitProgram defaults, ExprVisitorRunner, combine_all) with a VM-only visitor that overrides nothing: for every AST node kind, trees with one free level below it, every callback entry is compared with a reference pre-order, a failure is injected at every callback index, and the folded ListBuilder result is checked.',
             ref='DESIGN.md §4 C16', note='Tree shapes are solver-forked decisions (no symbolic payload matters to traversal); composition over node kinds is by induction.  Replay is on the VM (a native recording visitor is not built).'),
 'C17': dict(text='Bounded model checking of NumericConstantFolder / SimpleStringConstantFolder against ProduceVal on the same lazily generated expression trees (root + 1/2 free levels, symbolic operators, all doubles, all strings): z3 shows a folded value is bit-identical to the evaluated value, that pure arithmetic trees fold and that state-reading trees do not.',
             ref='DESIGN.md §4 C17', note='Evaluator runs with an environment that must not be touched.'),
 'C18': dict(text='Bounded model checking of BoringAssignmentPass on one statement of every form with the folded constant rendered as ANY text f64::Display may produce (environment stub): reported/not reported, target, value, line, and the poetic words decoded by the digit rule must spell the value; no panic/UB edge.',
             ref='DESIGN.md §4 C18', note='The suggestion is not re-parsed by the real parser (string-level); its words are decoded with the digit rule that C11 ties to compute_value.'),
 'C19': dict(text='Bounded model checking of the repeated-identifier pass on one statement of every kind with symbolic names (any two mentions may or may not coincide) against the reference rule, and of Linter::run ordering (stable by line, ties in pass order) on two-statement programs over all line placements; program untouched; no panic edge.',
             ref='DESIGN.md §4 C19', note='sort_by_key modelled as the unique stable order.'),
 'C04': dict(text='Program-level bounded model checking: control-flow templates are parsed by the real parser inside the VM, their literal placeholders made symbolic, and executed by the real interpreter (exec_using from MIR with model streams) and by a reference interpreter; z3 compares every written line and the outcome on every feasible path.',
             ref='DESIGN.md §4 C04 (revised: program level, see §9)', note='Reference interpreter = mirsym/refinterp.py; the VM is validated per run against the native build on the repository\'s own test programs (parse + exec).  Loop iterations <= 4.'),
 'C05': dict(text='As C04 on 25 templates for argument passing, scopes, pronouns, returns, recursion, arity / kind / unknown-name errors, evaluation order, arrays by value, compound assignment and nested subscript writes; all placeholder values symbolic.',
             ref='DESIGN.md §4 C05 (revised: program level)', note='Same trusted base as C04.'),
 'C08': dict(text='As C04 with faulting streams: 0..=3 symbolic input lines (last with / without terminator), output and input streams failing from any call index on; write records, read counts and outcome compared with the reference.',
             ref='DESIGN.md §4 C08 (revised: program level)', note='Write / BufRead are environment models, one record per call.'),
 'C09': dict(text='Program-level bounded model checking of crash freedom: ~50 crash-oriented templates plus all C04/C05/C08 templates run through the real parser and interpreter in the VM with symbolic placeholder values; every feasible panic / debug-assert / unwrap / unchecked / overflow / RefCell edge is a finding, every produced RuntimeError is rendered; plus a regenerated inventory of the interpreter\'s crash sites whose functions must all have been executed (ProduceValOutput\'s unimplemented!() defaults are excused only by a call-closure argument recomputed from the MIR).',
             ref='DESIGN.md §4 C09 (revised: program level + inventory)', note='Programs outside the templates are not covered; the inventory bounds the gap to edges needing a state no template reaches.'),
 'C15': dict(text='Metamorphic bounded model checking: each template is run by the real parser + interpreter in its original spelling and under every naming scheme (simple / common / proper names, re-cased, fresh), per-mention re-casing and keyword re-casing; z3 shows equal outputs and outcomes for all placeholder values.',
             ref='DESIGN.md §4 C15 (revised: program level)', note='No reference interpreter involved.  ASCII names.'),
}
NA = {
}
PENDING = ['C01','C02','C03','C04','C05','C06','C07','C08','C09','C10','C11','C12','C13','C15','C16','C17','C18','C19','C20']
NA_REASONS = {
 'C20': 'process-level behaviour (argv, files, stdio, exit status of the built binary) cannot be made symbolic variables of a solver query over rrss code (DESIGN.md §4 C20)',
}
def main():
    checks = []
    for pid, c in sorted(CLAIMED.items()):
        checks.append({
            'property_id': pid,
            'quick_cmd': f'python3-vt -m mirsym.run --property {pid} --tier quick',
            'thorough_cmd': f'python3-vt -m mirsym.run --property {pid} --tier thorough',
            'evidence_file': f'/verif/evidence/{pid}.json',
            'replay_cmd_template': 'python3-vt -m mirsym.replay {path}',
            'engine': 'mirsym',
            'level_claimed': {'category': 'model_checking', 'text': c['text'], 'design_ref': c['ref']},
            'level_note': c['note'],
            'technique': TECH,
        })
    na = []
    for pid in PENDING:
        if pid in CLAIMED: continue
        na.append({'property_id': pid, 'reason': NA_REASONS.get(pid, 'check not built yet in this session (machinery under construction; see DESIGN.md §8 build order)')})
    m = {
        'version': 1,
        'setup_cmd': 'python3-vt -c "import z3, sys; sys.path.insert(0, \'/verif\'); import mirsym.run" && cargo +nightly --version && cargo --version',
        'hooks': {'guard': 'kepler_5_rrss_verif', 'enable': 'none needed: private functions are reached through the MIR dump; no source hooks exist', 'baseline_off_cmd': 'cd /repo && cargo test --workspace --no-fail-fast --offline', 'source_commits': [], 'add_only': True},
        'engines': [{'name': 'mirsym', 'path': '/verif/mirsym', 'serves_properties': sorted(CLAIMED), 'kind_free_text': 'path-wise symbolic executor over the nightly MIR dump of /repo\'s current tree (Python + z3 5.1), with a native helper crate (/verif/native) for translator validation and counterexample replay'}],
        'checks': checks,
        'not_applicable': na,
        'notes': 'Exit codes of every check: 0 = property held on everything explored within the stated bounds; 1 = replayed violation (VIOLATION line); 2 = inconclusive (solver unknown, unmodelled callee, bound exceeded, encoding mismatch) -- never reported as a pass.',
    }
    json.dump(m, open(os.path.join(HERE, 'MANIFEST.json'), 'w'), indent=1)
if __name__ == '__main__': main()
