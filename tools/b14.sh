#!/bin/bash
# b13.sh <Cxx> <n> [props...]: confirm /tmp/s14/<Cxx>/out/<n> in a scratch worktree, then run the quick check(s) against it
p=$1; n=$2; shift 2; props=${@:-$p}
d=/tmp/s14/$p/out/$n; mkdir -p /var/tmp/b14
( flock 9; /verif/tools/confirm_seed.sh $d ) 9>/var/tmp/b14/confirm.lock > /var/tmp/b14/$p-$n.confirm 2>&1
tail -1 /var/tmp/b14/$p-$n.confirm
/verif/tools/try_seed_wt.sh $d/patch.diff $props > /var/tmp/b14/$p-$n.try 2>&1
cat /var/tmp/b14/$p-$n.try
