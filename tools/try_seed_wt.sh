#!/bin/bash
# usage: try_seed_wt.sh <patch.diff> <Cxx> [Cyy ...] -- like try_seed.sh but on a scratch worktree (VERIF_REPO), so /repo stays untouched
set -u
patch=$1; shift
wt=/var/tmp/seedwt-$$
git -C /repo worktree add -q --detach $wt HEAD || exit 3
( cd $wt && git apply "$patch" ) || { echo "PATCH DOES NOT APPLY"; git -C /repo worktree remove --force $wt; exit 3; }
for p in "$@"; do
  (cd /verif && mkdir -p /var/tmp/seed-evidence && VERIF_EVIDENCE_DIR=/var/tmp/seed-evidence VERIF_REPO=$wt timeout 3000 python3-vt -m mirsym.run --property $p --tier ${TIER:-quick} > /tmp/try_seed_${p}_$$.log 2>&1; echo "$p exit=$?"; grep -E "^VIOLATION|^INCONCLUSIVE|^KNOWN|^  role|quick:|thorough:" /tmp/try_seed_${p}_$$.log | cut -c1-330 | head -8)
done
git -C /repo worktree remove --force $wt
