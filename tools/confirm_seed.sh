#!/bin/bash
# confirm_seed.sh <seed dir>: in a scratch worktree of /repo HEAD: patch applies, builds, baseline tests pass, demo fails with / passes without
set -u
seed=$1; wt=/tmp/wt-confirm
[ -d $wt ] || git -C /repo worktree add -q --detach $wt HEAD
cd $wt && git checkout -q --detach $(git -C /repo rev-parse HEAD) && git checkout -- . && git clean -fdq -e target
export CARGO_NET_OFFLINE=true
git apply $seed/patch.diff || { echo "RESULT $seed: patch does not apply"; exit 1; }
python3 /verif/tools/baseline_check.py $wt > /tmp/confirm_base.log 2>&1; base=$?
cp $seed/demo.rs tests/demo.rs 2>/dev/null
cargo test --offline --test demo > /tmp/confirm_with.log 2>&1; with=$?
git checkout -- . ; 
cargo test --offline --test demo > /tmp/confirm_without.log 2>&1; without=$?
rm -f tests/demo.rs
echo "RESULT $seed: baseline_ok=$([ $base = 0 ] && echo yes || echo NO) demo_with_patch=$([ $with != 0 ] && echo fails || echo PASSES) demo_without=$([ $without = 0 ] && echo passes || echo FAILS)"
