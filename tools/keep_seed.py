#!/usr/bin/env python3
"""keep_seed.py <seed dir> <id> <property> <caught_by (comma list or 'none')> <needs...>  -- store a confirmed seeded change under /verif/seeded/<id>/"""
import sys, os, shutil, json
src, sid, prop, caught = sys.argv[1:5]; needs = ' '.join(sys.argv[5:])
dst = f'/verif/seeded/{sid}'; os.makedirs(dst, exist_ok=True)
for f in os.listdir(src):
    if f.endswith(('.diff', '.rs', '.sh', '.rock', '.md')): shutil.copy(os.path.join(src, f), os.path.join(dst, f))
meta = {'id': sid, 'breaks_property': prop, 'needs_to_manifest': needs,
        'confirmed': 'patch applies to /repo HEAD; cargo build --offline ok; cargo test --workspace --offline: the 217 baseline tests still pass; demo fails with the patch and passes without (re-run by the framework author in a scratch worktree)',
        'caught_by_quick_check': [c for c in caught.split(',') if c != 'none'],
        'ran': f'tools/try_seed.sh seeded/{sid}/patch.diff ' + ' '.join(c for c in caught.split(',') if c != 'none')}
json.dump(meta, open(os.path.join(dst, 'meta.json'), 'w'), indent=1)
print('kept', dst)
