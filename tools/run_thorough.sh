#!/bin/bash
# run the thorough tier of the given properties (default: all claimed) sequentially; one line each into /var/tmp/thorough.log
cd /verif
props="$@"; [ -z "$props" ] && props=$(python3 -c "import json; print(' '.join(c['property_id'] for c in json.load(open('MANIFEST.json'))['checks']))")
for p in $props; do
  t0=$(date +%s)
  VERIF_KEEP=1 timeout 14400 python3-vt -m mirsym.run --property $p --tier thorough > /var/tmp/thorough_$p.log 2>&1; rc=$?
  echo "$p rc=$rc wall=$(( $(date +%s) - t0 ))s $(tail -1 /var/tmp/thorough_$p.log | cut -c1-160)" >> /var/tmp/thorough.log
done
