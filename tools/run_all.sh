#!/bin/bash
# run every claimed property's quick check on /repo, print one line each
cd /verif
for p in $(python3 -c "import json; print(' '.join(c['property_id'] for c in json.load(open('MANIFEST.json'))['checks']))") "$@"; do
  VERIF_KEEP=1 timeout 3000 python3-vt -m mirsym.run --property $p --tier ${TIER:-quick} > /tmp/run_all_$p.log 2>&1; rc=$?
  echo "$p rc=$rc $(tail -1 /tmp/run_all_$p.log | cut -c1-150)"
done
