#!/usr/bin/env python3
"""Runs /repo's test suite (guard off) and checks that every stable_pass test of /root/.vp/BASELINE.json passes."""
import json, subprocess, re, sys, os
repo = sys.argv[1] if len(sys.argv) > 1 else '/repo'
base = json.load(open('/root/.vp/BASELINE.json'))
env = dict(os.environ, CARGO_NET_OFFLINE='true'); env.pop('RUSTFLAGS', None)
p = subprocess.run(['cargo', 'test', '--workspace', '--no-fail-fast', '--offline'], cwd=repo, env=env, stdout=subprocess.PIPE, stderr=subprocess.STDOUT, text=True)
passed = set(); cur = None
for line in p.stdout.split('\n'):
    m = re.search(r'Running (?:unittests )?(\S+)', line)
    if m:
        f = m.group(1)
        cur = '' if f.startswith('src/') else os.path.splitext(os.path.basename(f))[0]
    m = re.match(r'test (\S+) \.\.\. ok', line)
    if m and cur is not None:
        passed.add('rrss::' + (cur + '::' if cur else '') + m.group(1))
missing = [t for t in base['stable_pass'] if t not in passed]
print(f'{len(base["stable_pass"]) - len(missing)}/{len(base["stable_pass"])} baseline tests pass')
for t in missing[:20]: print('MISSING', t)
sys.exit(1 if missing else 0)
