#!/bin/bash
# dbgwt.sh <patch> <prop> [extra args]: run one quick check against a patched scratch worktree, full log to /var/tmp/dbg-<prop>.log
patch=$1; p=$2; shift 2
wt=/var/tmp/dbg-wt-$$
git -C /repo worktree add -q --detach $wt HEAD || exit 3
( cd $wt && git apply "$patch" ) || { echo "PATCH DOES NOT APPLY"; git -C /repo worktree remove --force $wt; exit 3; }
(cd /verif && VERIF_EVIDENCE_DIR=/var/tmp/xev VERIF_REPO=$wt timeout 3000 python3-vt -m mirsym.run --property $p --tier ${TIER:-quick} "$@" > /var/tmp/dbg-$p.log 2>&1; echo "$p exit=$?")
git -C /repo worktree remove --force $wt
