#!/bin/bash
# usage: try_seed.sh <patch.diff> <Cxx> [Cyy ...]  -- apply a seeded change to /repo, run the quick checks, revert
set -u
patch=$1; shift
cd /repo && git apply "$patch" || { echo "PATCH DOES NOT APPLY"; exit 3; }
for p in "$@"; do
  (cd /verif && timeout 3000 python3-vt -m mirsym.run --property $p --tier ${TIER:-quick} > /tmp/try_seed_$p.log 2>&1; echo "$p exit=$?"; grep -E "^VIOLATION|^INCONCLUSIVE|^KNOWN|^  role|quick:|thorough:" /tmp/try_seed_$p.log | cut -c1-330 | head -8)
done
cd /repo && git checkout -- . && git status --short | head -3
