"""debug helper: python3-vt tools/onejob.py <Cxx> <job substring> [seconds] -- runs matching jobs in-process"""
import sys, time, signal, traceback
sys.path.insert(0, '/verif')
from mirsym.load import Workspace
from mirsym.run import Ctx
from mirsym import harness as H, chartab
import importlib
pid, only = sys.argv[1], sys.argv[2]
tier = sys.argv[4] if len(sys.argv) > 4 else 'quick'
prop = importlib.import_module(f'mirsym.props.{pid}')
ws = Workspace(keep=True); ctx = Ctx(ws, tier, 0)
for p in prop.PROFILES: ctx.mir(p)
chartab.load(ctx.native('dev').call({'op': 'chartab', 'cps': chartab.table_chars(ws.src)}))
jobs = [j for j in prop.jobs(ctx, tier) if only in j.name]
def onalarm(*a):
    traceback.print_stack(); sys.exit(3)
signal.signal(signal.SIGALRM, onalarm); signal.alarm(int(sys.argv[3]) if len(sys.argv) > 3 else 60)
for j in jobs:
    r = H.run_job(ctx.mirs, j, tier, 0)
    print(j.name, r['status'], r['error'], r['stats'], r['finding_counts'])
    for f in r['findings'][:5]: print('  ', f['role'], f['detail'][:100], str(f['cex'])[:300])
ctx.close()
