#!/bin/bash
# b13r.sh <R-name> <n> props...: behaviour-preserving refactor /tmp/s14/<R-name>/out/<n>/patch.diff: baseline suite must pass, then every listed quick check must exit 0
r=$1; n=$2; shift 2
d=/tmp/s14/$r/out/$n; mkdir -p /var/tmp/b14
( flock 9
  wt=/tmp/wt-confirm; [ -d $wt ] || git -C /repo worktree add -q --detach $wt HEAD
  cd $wt && git checkout -q --detach $(git -C /repo rev-parse HEAD) && git checkout -- . && git clean -fdq -e target
  git apply $d/patch.diff || { echo "RESULT $d: patch does not apply"; exit 1; }
  python3 /verif/tools/baseline_check.py $wt > /tmp/confirm_base.log 2>&1; echo "RESULT $d: baseline_ok=$([ $? = 0 ] && echo yes || echo NO)"
  git checkout -- .
) 9>/var/tmp/b14/confirm.lock > /var/tmp/b14/$r-$n.confirm 2>&1
tail -1 /var/tmp/b14/$r-$n.confirm
/verif/tools/try_seed_wt.sh $d/patch.diff "$@" > /var/tmp/b14/$r-$n.try 2>&1
cat /var/tmp/b14/$r-$n.try
