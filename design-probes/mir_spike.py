#!/usr/bin/env python3
"""Throw-away feasibility spike: path-wise symbolic execution of rrss MIR with z3.
Target: Val::equals symmetry and Val::compare antisymmetry over all six kinds."""
import re, sys, time, itertools, copy
import z3

MIR = open(sys.argv[1]).read()

# ---------------------------------------------------------------- parsing
def split_top(s, sep=','):
    out, depth, cur, instr = [], 0, '', False
    i = 0
    while i < len(s):
        c = s[i]
        if instr:
            cur += c
            if c == '\\': cur += s[i+1]; i += 1
            elif c == '"': instr = False
        elif c == '"': instr = True; cur += c
        elif c in '([{<' and not (c == '<' and s[i-1:i] in ('', ' ') and False): depth += 1; cur += c
        elif c in ')]}': depth -= 1; cur += c
        elif c == '>' and s[i-1] != '-' and s[i-1] != '=': depth -= 1; cur += c
        elif c == sep and depth == 0: out.append(cur.strip()); cur = ''
        else: cur += c
        i += 1
    if cur.strip(): out.append(cur.strip())
    return out

class Fn: pass
FNS = {}
CLOSURES = {}   # closure type string -> fn name
for m in re.finditer(r'^fn (.*?)\n(.*?)^\}\n', MIR, re.S | re.M):
    head, body = m.group(1), m.group(2)
    name = head[:head.index('(')] if not head.startswith('<') else None
    # name = up to the '(' that starts the arg list: first '(' at angle depth 0
    depth = 0
    for i, c in enumerate(head):
        if c == '<': depth += 1
        elif c == '>' and head[i-1] != '-': depth -= 1
        elif c == '(' and depth == 0:
            name = head[:i]; rest = head[i:]; break
    f = Fn(); f.name = name
    # args
    d = 0
    for j, c in enumerate(rest):
        if c == '(': d += 1
        elif c == ')':
            d -= 1
            if d == 0: break
    args = split_top(rest[1:j])
    f.nargs = len(args)
    f.argtypes = [a.split(': ', 1)[1] if ': ' in a else '' for a in args]
    f.blocks = {}
    f.localtypes = {}
    for lm in re.finditer(r'^\s*let (?:mut )?(_\d+): (.*);$', body, re.M):
        f.localtypes[lm.group(1)] = lm.group(2)
    for bm in re.finditer(r'^    (bb\d+)(?: \(cleanup\))?: \{\n(.*?)^    \}', body, re.S | re.M):
        f.blocks[bm.group(1)] = [l.strip() for l in bm.group(2).split('\n') if l.strip()]
    if name in FNS: continue
    FNS[name] = f
    if '{closure#' in name and f.argtypes:
        t = f.argtypes[0].lstrip('&').replace('mut ', '')
        CLOSURES[t] = name

# ---------------------------------------------------------------- values
class Enum:
    """ADT value: variant index (int) or symbolic (lazy); fields list."""
    def __init__(self, ty, variant, fields=()):
        self.ty, self.variant, self.fields = ty, variant, list(fields)
    def __repr__(self): return f'{self.ty}#{self.variant}{self.fields}'
class Tup:
    def __init__(self, fields): self.fields = list(fields)
    def __repr__(self): return f'T{self.fields}'
class Ref:
    def __init__(self, cell, path=()): self.cell, self.path = cell, tuple(path)
    def __repr__(self): return f'&{id(self.cell)%1000}{self.path}'
class Cell:
    def __init__(self, v=None): self.v = v
class Closure:
    def __init__(self, fn, fields=()): self.fn = fn; self.fields = list(fields)
class OpaqueStr:       # Rc<String>/String/&str as z3 string term
    def __init__(self, t): self.t = t
    def __repr__(self): return f'S({self.t})'
class AbsArray:        # Rc<Array> abstracted by (len, identity term)
    def __init__(self, ln, ident): self.len, self.ident = ln, ident
class Discr:
    def __init__(self, v): self.v = v

VAL_VARIANTS = ['Undefined', 'Null', 'Boolean', 'Number', 'String', 'Array']
VARIANT_IDX = {
    'Val': {n: i for i, n in enumerate(VAL_VARIANTS)},
    'Option': {'None': 0, 'Some': 1}, 'Result': {'Ok': 0, 'Err': 1},
    'Cow': {'Borrowed': 0, 'Owned': 1}, 'Ordering': {'Less': -1, 'Equal': 0, 'Greater': 1},
    'ValError': {n: i for i, n in enumerate(['NotIndexable', 'InvalidKey', 'IndexNotAssignable',
        'InvalidOperationForType', 'InvalidComparison'])},
}
F64 = z3.Float64()
parse_ok = z3.Function('parse_ok', z3.StringSort(), z3.BoolSort())
parse_val = z3.Function('parse_val', z3.StringSort(), F64)
arr_eq = z3.Function('arr_eq', z3.IntSort(), z3.IntSort(), z3.BoolSort())

class Abort(Exception): pass
class Panic(Exception): pass

class State:
    def __init__(self): self.pc = []; self.forks = None
STATS = {'paths': 0, 'queries': 0, 'steps': 0, 'solver_s': 0.0}

def feasible(pc):
    s = z3.Solver(); s.add(*pc); t = time.time(); r = s.check(); STATS['solver_s'] += time.time() - t
    STATS['queries'] += 1
    return r == z3.sat

# Fork mechanism: re-execution with a decision trail (simple, deterministic).
class Forker:
    def __init__(self): self.trail = []; self.pos = 0; self.pending = []
    def choose(self, n):
        """return index in range(n); explores all over reruns"""
        if self.pos < len(self.trail):
            c = self.trail[self.pos]
        else:
            c = 0; self.trail.append(0)
            self.pending.append((self.pos, n))
        self.pos += 1
        return c

# ---------------------------------------------------------------- interpreter
class VM:
    def __init__(self, forker):
        self.fk = forker; self.pc = []
    def assume(self, c):
        self.pc.append(c)
    def branch(self, cond):
        """cond: python bool or z3 Bool -> python bool, forking."""
        if isinstance(cond, bool): return cond
        cond = z3.simplify(cond)
        if z3.is_true(cond): return True
        if z3.is_false(cond): return False
        c = self.fk.choose(2)
        self.pc.append(cond if c == 0 else z3.Not(cond))
        if not feasible(self.pc): raise Abort('infeasible')
        return c == 0

    # ---- places
    def parse_place(self, s):
        s = s.strip()
        if s.startswith('no_retag '): s = s[9:]
        if re.fullmatch(r'_\d+', s): return ('local', s)
        if s.startswith('(*') and s.endswith(')'): return ('deref', self.parse_place(s[2:-1]))
        if s.startswith('(') and s.endswith(')'):
            inner = s[1:-1]
            m = re.match(r'(.*) as (\w+)$', inner)
            if m and balanced(m.group(1)): return ('downcast', self.parse_place(m.group(1)), m.group(2))
            # field: (P.N: TYPE)
            d = 0
            for i, c in enumerate(inner):
                if c in '(<[': d += 1
                elif c in ')]' or (c == '>' and inner[i-1] != '-'): d -= 1
                elif c == ':' and d == 0 and inner[i+1] == ' ':
                    left = inner[:i]; k = left.rindex('.')
                    return ('field', self.parse_place(left[:k]), int(left[k+1:]))
        raise Abort('place? ' + s)
    def read_place(self, fr, p):
        k = p[0]
        if k == 'local': return fr[p[1]].v
        if k == 'deref':
            r = self.read_place(fr, p[1])
            if isinstance(r, Ref): return self.ref_get(r)
            return r   # Box / transparent
        if k == 'downcast': return self.read_place(fr, p[1])
        if k == 'field':
            base = self.read_place(fr, p[1]); return base.fields[p[2]]
    def place_ref(self, fr, p):
        k = p[0]
        if k == 'local': return Ref(fr[p[1]])
        if k == 'deref':
            r = self.read_place(fr, p[1]); assert isinstance(r, Ref), r; return r
        if k == 'downcast': return self.place_ref(fr, p[1])
        if k == 'field':
            r = self.place_ref(fr, p[1]); return Ref(r.cell, r.path + (p[2],))
    def ref_get(self, r):
        v = r.cell.v
        for i in r.path: v = v.fields[i]
        return v
    def ref_set(self, r, val):
        if not r.path: r.cell.v = val; return
        v = r.cell.v
        for i in r.path[:-1]: v = v.fields[i]
        v.fields[r.path[-1]] = val

    # ---- operands / rvalues
    def operand(self, fr, s):
        s = s.strip()
        if s.startswith('copy '): return self.read_place(fr, self.parse_place(s[5:]))
        if s.startswith('move '): return self.read_place(fr, self.parse_place(s[5:]))
        if s.startswith('const '):
            c = s[6:]
            if c == 'true': return True
            if c == 'false': return False
            m = re.fullmatch(r'(-?[\d.eE+-]+)f64', c)
            if m: return z3.FPVal(float(m.group(1)), F64)
            m = re.fullmatch(r'(-?\d+)_(i|u)(size|\d+)', c)
            if m: return int(m.group(1))
            if c.startswith('ZeroSized: {closure@'):
                return Closure(CLOSURES[c[len('ZeroSized: '):]])
            if c.startswith('ZeroSized: '): return ('fnitem', c[len('ZeroSized: '):])
            if c.startswith('"'): return OpaqueStr(z3.StringVal(eval(c)))
            raise Abort('const? ' + c)
        m = re.fullmatch(r'(?:\w+::)*(\w+)(?:::<.*>)?::(\w+)', s)
        if m and m.group(1) in VARIANT_IDX: return ('ctor', m.group(1), m.group(2))
        raise Abort('operand? ' + s)

    def discr_of(self, v):
        if isinstance(v, Enum):
            if v.variant is None: self.concretize(v)
            return v.variant
        raise Abort('discr of ' + repr(v))
    def concretize(self, v):
        # lazy initialisation of a symbolic Val
        assert v.ty == 'Val'
        k = self.fk.choose(6)
        v.variant = k
        tag = v.tag
        if k == 2: v.fields = [z3.Bool(tag + '_b')]
        elif k == 3: v.fields = [z3.FP(tag + '_n', F64)]
        elif k == 4: v.fields = [OpaqueStr(z3.String(tag + '_s'))]
        elif k == 5:
            ln = z3.BitVec(tag + '_len', 64); self.assume(z3.ULE(ln, 3))
            v.fields = [AbsArray(ln, z3.Int(tag + '_id'))]
        else: v.fields = []

    def rvalue(self, fr, s):
        s = s.strip()
        if s.startswith('&'):
            t = s[1:]
            for pre in ('mut ', 'raw const ', 'raw mut '):
                if t.startswith(pre): t = t[len(pre):]
            return self.place_ref(fr, self.parse_place(t))
        m = re.fullmatch(r'discriminant\((.*)\)', s)
        if m: return self.discr_of(self.read_place(fr, self.parse_place(m.group(1))))
        m = re.fullmatch(r'(Eq|Ne|Lt|Le|Gt|Ge|Add|Sub|Mul|Div)\((.*)\)', s)
        if m:
            a, b = [self.operand(fr, x) for x in split_top(m.group(2))]
            return self.binop(m.group(1), a, b)
        m = re.fullmatch(r'Not\((.*)\)', s)
        if m:
            a = self.operand(fr, m.group(1)); return (not a) if isinstance(a, bool) else z3.Not(a)
        m = re.fullmatch(r'(.*) as (\w+) \((\w+)\)', s)
        if m:
            v = self.operand(fr, m.group(1))
            if m.group(3) == 'IntToFloat':
                if isinstance(v, int): return z3.FPVal(float(v), F64)
                return z3.fpUnsignedToFP(z3.RNE(), v, F64)
            raise Abort('cast? ' + s)
        if s.startswith(('copy ', 'move ', 'const ', 'no_retag ')):
            if s.startswith('no_retag '): s = s[9:]
            return self.operand(fr, s)
        m = re.fullmatch(r'(\{closure@[^}]*\}) \{ (.*) \}', s)
        if m:
            caps = [self.operand(fr, x.split(': ', 1)[1]) for x in split_top(m.group(2))]
            return Closure(CLOSURES[m.group(1)], caps)
        if s.startswith('('):   # tuple
            return Tup([self.operand(fr, x) for x in split_top(s[1:-1])])
        # enum aggregate:  Path::<..>::Variant(args)  or Path::Variant
        m = re.fullmatch(r'(?:\w+::)*(\w+)(?:::<.*>)?::(\w+)(?:\((.*)\))?', s)
        if m and m.group(1) in VARIANT_IDX and m.group(1) != 'ValError':
            ty, var, args = m.group(1), m.group(2), m.group(3)
            fields = [self.operand(fr, x) for x in split_top(args)] if args else []
            return Enum(ty, VARIANT_IDX[ty].get(var, var), fields)
        m = re.fullmatch(r'(?:\w+::)*(ValError)::(\w+)(?:\((.*)\))?', s)
        if m:
            return Enum('ValError', m.group(2), [])
        if s in ('Less', 'Equal', 'Greater'): return Enum('Ordering', VARIANT_IDX['Ordering'][s])
        raise Abort('rvalue? ' + s)

    def binop(self, op, a, b):
        if isinstance(a, Discr): a = a.v
        if isinstance(b, Discr): b = b.v
        fp = z3.is_fp(a) or z3.is_fp(b)
        if fp:
            f = {'Eq': z3.fpEQ, 'Ne': z3.fpNEQ, 'Lt': z3.fpLT, 'Le': z3.fpLEQ, 'Gt': z3.fpGT, 'Ge': z3.fpGEQ}[op]
            return f(a, b)
        if op == 'Eq': return a == b
        if op == 'Ne': return a != b
        raise Abort('binop ' + op)

    # ---- calls
    def call(self, callee, args):
        STATS['steps'] += 1
        # crate functions
        name = re.sub(r'::<.*>$', '', callee)
        if callee in ('Val::cmp_coerced', 'Val::decay', 'Val::is_truthy', 'Val::equals', 'Val::compare'):
            full = [n for n in FNS if n.endswith('276:9>::' + callee[5:])][0]
            return self.run(FNS[full], args)
        if callee.startswith('discriminant::<'):
            return Discr(self.discr_of(self.deref(args[0])))
        if callee in ('<Discriminant<Val> as PartialEq>::eq', '<Discriminant<Val> as PartialEq>::ne'):
            a, b = self.deref(args[0]).v, self.deref(args[1]).v
            return (a == b) if callee.endswith('eq') else (a != b)
        if callee == "<Cow<'_, Val> as AsRef<Val>>::as_ref":
            cow = self.deref(args[0])
            if cow.variant == 0: return cow.fields[0]          # Borrowed(&Val)
            return Ref(Cell(cow), (0,))                          # Owned(Val)
        if callee == '<&Val as PartialEq>::eq':
            a, b = self.deref(args[0]), self.deref(args[1])
            full = [n for n in FNS if n.endswith('37:35: 37:44>::eq')][0]
            return self.run(FNS[full], [a, b])
        if callee in ('<&bool as PartialEq>::eq',):
            a, b = self.deref(self.deref(args[0])), self.deref(self.deref(args[1])); return a == b
        if callee in ('<&f64 as PartialEq>::eq',):
            a, b = self.deref(self.deref(args[0])), self.deref(self.deref(args[1])); return z3.fpEQ(a, b)
        if callee == '<&Rc<String> as PartialEq>::eq':
            a, b = self.deref(self.deref(args[0])), self.deref(self.deref(args[1])); return a.t == b.t
        if callee == '<&Rc<val::Array> as PartialEq>::eq':
            a, b = self.deref(self.deref(args[0])), self.deref(self.deref(args[1]))
            # abstract: equal arrays have equal length; eq is an equivalence on identities
            e = arr_eq(a.ident, b.ident)
            self.assume(z3.Implies(e, a.len == b.len)); self.assume(e == arr_eq(b.ident, a.ident))
            return e
        if callee.startswith('Option::<') and '>::map::<' in callee:
            o, f = args
            if o.variant == 0: return Enum('Option', 0)
            if isinstance(f, tuple): return Enum('Option', 1, [Enum(f[1], VARIANT_IDX[f[1]][f[2]], [o.fields[0]])])
            return Enum('Option', 1, [self.run(FNS[f.fn], [f, o.fields[0]])])
        if callee.startswith('Option::<') and '>::and_then::<' in callee:
            o, f = args
            if o.variant == 0: return Enum('Option', 0)
            return self.run(FNS[f.fn], [f, o.fields[0]])
        if callee.startswith('Option::<') and callee.endswith('>::unwrap_or'):
            o, d = args; return d if o.variant == 0 else o.fields[0]
        if callee.endswith('>::transpose'):
            o = args[0]
            if o.variant == 0: return Enum('Result', 0, [Enum('Option', 0)])
            r = o.fields[0]
            if r.variant == 0: return Enum('Result', 0, [Enum('Option', 1, [r.fields[0]])])
            return Enum('Result', 1, [r.fields[0]])
        if callee == '<Val as Clone>::clone': return 'cloned-val'
        if callee in ('<Rc<String> as Deref>::deref', '<String as Deref>::deref'): return args[0]
        if callee == '<Rc<val::Array> as Deref>::deref': return args[0]
        if callee == 'val::Array::len': return self.deref(args[0]).len
        if callee == 'core::str::<impl str>::parse::<f64>':
            s = self.deref(args[0])
            ok = self.branch(parse_ok(s.t))
            return Enum('Result', 0, [parse_val(s.t)]) if ok else Enum('Result', 1, ['pfe'])
        if callee.endswith('ParseFloatError>::ok'):
            r = args[0]; return Enum('Option', 1, [r.fields[0]]) if r.variant == 0 else Enum('Option', 0)
        if callee == 'String::is_empty' or callee == 'core::str::<impl str>::is_empty':
            return z3.Length(self.deref(args[0]).t) == 0
        if callee == 'String::new': return OpaqueStr(z3.StringVal(''))
        if callee in ('<Val as From<String>>::from', '<String as Into<Val>>::into'):
            return Enum('Val', 4, [args[0]])
        if callee == '<f64 as PartialOrd>::partial_cmp':
            a, b = self.deref(args[0]), self.deref(args[1])
            if self.branch(z3.Or(z3.fpIsNaN(a), z3.fpIsNaN(b))): return Enum('Option', 0)
            if self.branch(z3.fpLT(a, b)): return Enum('Option', 1, [Enum('Ordering', -1)])
            if self.branch(z3.fpGT(a, b)): return Enum('Option', 1, [Enum('Ordering', 1)])
            return Enum('Option', 1, [Enum('Ordering', 0)])
        if callee == '<Rc<String> as Ord>::cmp':
            a, b = self.deref(args[0]), self.deref(args[1])
            if self.branch(a.t == b.t): return Enum('Ordering', 0)
            if self.branch(a.t < b.t): return Enum('Ordering', -1)
            return Enum('Ordering', 1)
        if callee == 'std::result::Result::<std::cmp::Ordering, ValError>::Ok':
            return Enum('Result', 0, [args[0]])
        raise Abort('callee? ' + callee)

    def deref(self, v):
        return self.ref_get(v) if isinstance(v, Ref) else v

    def run(self, f, args):
        fr = {}
        def cell(n):
            if n not in fr: fr[n] = Cell()
            return fr[n]
        class FR(dict):
            def __missing__(s, k): s[k] = Cell(); return s[k]
        fr = FR()
        for i, a in enumerate(args): fr[f'_{i+1}'].v = a
        bb = 'bb0'
        while True:
            for line in f.blocks[bb]:
                STATS['steps'] += 1
                if STATS['steps'] > 5_000_000: raise Abort('fuel')
                if line.startswith(('StorageLive', 'StorageDead', 'FakeRead', 'PlaceMention', 'nop', 'Retag', 'AscribeUserType', '//')): continue
                if line == 'return;': return fr['_0'].v
                if line == 'unreachable;': raise Panic('unreachable terminator')
                m = re.fullmatch(r'goto -> (bb\d+);', line)
                if m: bb = m.group(1); break
                m = re.fullmatch(r'drop\(.*\) -> \[return: (bb\d+), unwind.*\];', line)
                if m: bb = m.group(1); break
                m = re.fullmatch(r'switchInt\((.*)\) -> \[(.*)\];', line)
                if m:
                    v = self.operand(fr, m.group(1))
                    if isinstance(v, Discr): v = v.v
                    targets = [t.split(': ') for t in m.group(2).split(', ')]
                    nxt = None
                    if isinstance(v, bool): v = int(v)
                    if isinstance(v, int):
                        for k, t in targets:
                            if k != 'otherwise' and int(k) == v: nxt = t
                        if nxt is None: nxt = dict((k, t) for k, t in targets)['otherwise']
                    else:  # symbolic bool
                        assert z3.is_bool(v), v
                        d = dict(targets)
                        nxt = d.get('otherwise') if self.branch(v) else d['0']
                        if nxt is None: nxt = d['1']
                    bb = nxt; break
                m = re.fullmatch(r'(.*?) = (.*) -> \[return: (bb\d+), unwind.*\];', line)
                if m and not m.group(2).startswith('&'):
                    dest, callexpr, nxt = m.groups()
                    d = 0
                    for i, c in enumerate(callexpr):
                        if c == '<': d += 1
                        elif c == '>' and callexpr[i-1] != '-': d -= 1
                        elif c == '(' and d == 0 and not callexpr[:i].endswith('impl '): break
                    callee, argstr = callexpr[:i], callexpr[i+1:-1]
                    argv = [self.operand(fr, a) for a in split_top(argstr)]
                    r = self.call(callee, argv)
                    self.ref_set(self.place_ref(fr, self.parse_place(dest)), r)
                    bb = nxt; break
                m = re.fullmatch(r'(.*?) = (.*);', line)
                if m:
                    v = self.rvalue(fr, m.group(2))
                    self.ref_set(self.place_ref(fr, self.parse_place(m.group(1))), v)
                    continue
                raise Abort('stmt? ' + line)

def balanced(s):
    d = 0
    for c in s:
        if c == '(': d += 1
        elif c == ')': d -= 1
        if d < 0: return False
    return d == 0

# ---------------------------------------------------------------- harness
def explore(harness):
    fk = Forker(); results = []
    while True:
        fk.pos = 0
        vm = VM(fk)
        try:
            harness(vm); STATS['paths'] += 1
        except Abort as e:
            if str(e) != 'infeasible': print('ABORT', e); raise
        # advance trail (DFS)
        while fk.pending:
            pos, n = fk.pending[-1]
            if fk.trail[pos] + 1 < n:
                fk.trail[pos] += 1; del fk.trail[pos+1:]
                fk.pending = [p for p in fk.pending if p[0] <= pos]
                break
            fk.pending.pop()
        else:
            return

def fresh_val(tag):
    v = Enum('Val', None); v.tag = tag; return v

EQ = [n for n in FNS if n.endswith('276:9>::equals')][0]
CMP = [n for n in FNS if n.endswith('276:9>::compare')][0]
viol = []
def check(vm, prop, what):
    s = z3.Solver(); s.add(*vm.pc); s.add(z3.Not(prop) if not isinstance(prop, bool) else z3.BoolVal(not prop))
    t = time.time(); r = s.check(); STATS['solver_s'] += time.time() - t; STATS['queries'] += 1
    if r == z3.sat: viol.append((what, s.model()))
    elif r != z3.unsat: viol.append((what, 'unknown'))

def h_eq_sym(vm):
    a, b = fresh_val('a'), fresh_val('b')
    ca, cb = Cell(a), Cell(b)
    r1 = vm.run(FNS[EQ], [Ref(ca), Ref(cb)])
    r2 = vm.run(FNS[EQ], [Ref(cb), Ref(ca)])
    check(vm, r1 == r2 if not (isinstance(r1, bool) and isinstance(r2, bool)) else (r1 == r2), ('eq_sym', a.variant, b.variant))

def ordv(r):
    # Result<Option<Ordering>,E> -> ('err',) | ('none',) | ('ord', k)
    if r.variant == 1: return ('err',)
    o = r.fields[0]
    if o.variant == 0: return ('none',)
    return ('ord', o.fields[0].variant)
def h_cmp_anti(vm):
    a, b = fresh_val('a'), fresh_val('b')
    ca, cb = Cell(a), Cell(b)
    r1 = ordv(vm.run(FNS[CMP], [Ref(ca), Ref(cb)]))
    r2 = ordv(vm.run(FNS[CMP], [Ref(cb), Ref(ca)]))
    ok = (r1[0] == r2[0]) and (r1[0] != 'ord' or r1[1] == -r2[1])
    check(vm, ok, ('cmp_anti', a.variant, b.variant, r1, r2))

t0 = time.time()
explore(h_eq_sym); print('eq_sym', STATS, 'viol', len(viol), f'{time.time()-t0:.1f}s')
t0 = time.time()
explore(h_cmp_anti); print('cmp_anti', STATS, 'viol', len(viol), f'{time.time()-t0:.1f}s')
for v in viol[:10]: print(v)
