#!/usr/bin/env python3
"""Throw-away Tier-B spike: NumericConstantFolder over lazily symbolic Expression trees,
executed from MIR (trait-default dispatch, Box deref elaboration, iterator adaptors, closures)."""
import re, sys, time
import z3

ROOT = sys.argv[2]
MIR = open(sys.argv[1]).read()
F64 = z3.Float64(); RNE = z3.RNE()

def split_top(s, sep=','):
    out, depth, cur, instr = [], 0, '', False
    i = 0
    while i < len(s):
        c = s[i]
        if instr:
            cur += c
            if c == '\\': cur += s[i+1]; i += 1
            elif c == '"': instr = False
        elif c == "'" and s[i+2:i+3] == "'": cur += s[i:i+3]; i += 2
        elif c == "'" and s[i+1:i+2] == '\\' and s[i+3:i+4] == "'": cur += s[i:i+4]; i += 3
        elif c == '"': instr = True; cur += c
        elif c in '([{<': depth += 1; cur += c
        elif c in ')]}': depth -= 1; cur += c
        elif c == '>' and s[i-1] not in '-=': depth -= 1; cur += c
        elif c == sep and depth == 0: out.append(cur.strip()); cur = ''
        else: cur += c
        i += 1
    if cur.strip(): out.append(cur.strip())
    return out

# ------------------------------------------------------------ source facts: enums, impls
ENUMS = {}
import glob, os
SRC = {}
for p in glob.glob(ROOT + '/src/**/*.rs', recursive=True):
    txt = open(p).read(); SRC[os.path.relpath(p, ROOT)] = txt.split('\n')
    for m in re.finditer(r'\benum (\w+)(?:<[^>]*>)? \{', txt):
        i = m.end(); d = 1; j = i
        while d: d += {'{': 1, '}': -1}.get(txt[j], 0); j += 1
        body = txt[i:j-1]
        vs = []
        for part in split_top(re.sub(r'//.*', '', body)):
            part = re.sub(r'#\[[^\]]*\]\s*', '', part).strip()
            mm = re.match(r'(\w+)', part)
            if mm: vs.append(mm.group(1))
        ENUMS[m.group(1)] = vs
ENUMS.update({'Ordering': ['Less', 'Equal', 'Greater'], 'Option': ['None', 'Some'], 'Result': ['Ok', 'Err'], 'ControlFlow': ['Continue', 'Break']})

class Fn: pass
FNS, CLOSURES, IMPL = {}, {}, {}
for m in re.finditer(r'^fn (.*?)\n(.*?)^\}\n', MIR, re.S | re.M):
    head, body = m.group(1), m.group(2)
    depth = 0
    for i, c in enumerate(head):
        if c == '<': depth += 1
        elif c == '>' and head[i-1] != '-': depth -= 1
        elif c == '(' and depth == 0: name, rest = head[:i], head[i:]; break
    d = 0
    for j, c in enumerate(rest):
        if c == '(': d += 1
        elif c == ')':
            d -= 1
            if d == 0: break
    if name in FNS: continue
    f = Fn(); f.name = name
    args = split_top(rest[1:j]); f.argtypes = [a.split(': ', 1)[1] if ': ' in a else '' for a in args]
    f.localtypes = dict(re.findall(r'^\s*let (?:mut )?(_\d+): (.*);$', body, re.M))
    f.localtypes['_0'] = rest[j+1:].strip()[3:].rstrip(' {').strip() if '->' in rest[j:] else '()'
    f.blocks = {bm.group(1): [l.strip() for l in bm.group(2).split('\n') if l.strip()]
                for bm in re.finditer(r'^    (bb\d+)(?: \(cleanup\))?: \{\n(.*?)^    \}', body, re.S | re.M)}
    FNS[name] = f
    if '{closure#' in name:
        t = f.argtypes[0]; kind = 'once'
        if t.startswith('&mut '): t, kind = t[5:], 'mut'
        elif t.startswith('&'): t, kind = t[1:], 'ref'
        CLOSURES[t] = (name, kind)
    im = re.match(r'(?:.*::)?<impl at (src/[\w/]+\.rs):(\d+):(\d+): (\d+):(\d+)>::(\w+)$', name)
    if im:
        file, l, c0, _, c1, meth = im.groups(); line = SRC[file][int(l)-1]
        mm = re.match(r'\s*impl(?:<[^>]*>)? (?:(?:\w+::)*(\w+)(?:<[^>]*>)? for )?(\w+)', line)
        if mm: tr, ty = mm.group(1), mm.group(2)
        else:   # derive: trait = token at columns, type = next struct/enum
            tr = line[int(c0)-1:int(c1)-1]
            for k in range(int(l), int(l)+4):
                t2 = re.search(r'\b(?:struct|enum) (\w+)', SRC[file][k])
                if t2: ty = t2.group(1); break
        IMPL[(tr, ty, meth)] = name

# ------------------------------------------------------------ values
class Adt:
    def __init__(self, ty, variant, fields=()): self.ty, self.variant, self.fields, self.lazy = ty, variant, list(fields), None
    def __repr__(self): return f'{self.ty}.{self.vname()}{self.fields}'
    def vname(self): return ENUMS[self.ty][self.variant] if self.ty in ENUMS and self.variant is not None else self.variant
class Cell:
    n = 0
    def __init__(self, v=None): self.v = v; Cell.n += 1; self.addr = 0x10000 + 64 * Cell.n
class Ref:
    def __init__(self, cell, path=()): self.cell, self.path = cell, tuple(path)
class Closure:
    def __init__(self, fn, kind, fields=()): self.fn, self.kind, self.fields = fn, kind, list(fields)
class HList:   # Vec / slice backing store
    def __init__(self, items): self.items = items
class It:      # iterator objects
    def __init__(self, kind, *a): self.kind, self.a = kind, list(a)
NOTHING = object()
class Abort(Exception): pass
class Panic(Exception): pass

STATS = {'paths': 0, 'queries': 0, 'steps': 0, 'solver_s': 0.0}
def feasible(pc):
    s = z3.Solver(); s.add(*pc); t = time.time(); r = s.check(); STATS['solver_s'] += time.time() - t; STATS['queries'] += 1
    return r == z3.sat
class Forker:
    def __init__(self): self.trail = []; self.pos = 0; self.pending = []
    def choose(self, n):
        if self.pos < len(self.trail): c = self.trail[self.pos]
        else: c = 0; self.trail.append(0); self.pending.append((self.pos, n))
        self.pos += 1; return c

def balanced(s):
    d = 0
    for c in s:
        d += {'(': 1, ')': -1}.get(c, 0)
        if d < 0: return False
    return d == 0

class VM:
    def __init__(self, fk): self.fk, self.pc, self.uid = fk, [], 0
    def fresh(self, p): self.uid += 1; return f'{p}{self.uid}'
    def branch(self, cond):
        if isinstance(cond, bool): return cond
        cond = z3.simplify(cond)
        if z3.is_true(cond): return True
        if z3.is_false(cond): return False
        c = self.fk.choose(2); self.pc.append(cond if c == 0 else z3.Not(cond))
        if not feasible(self.pc): raise Abort('infeasible')
        return c == 0

    # ----- lazy AST
    def lazy(self, ty, depth):
        a = Adt(ty, None); a.lazy = depth; return a
    def box(self, v):
        return Adt('Box', 0, [Adt('Unique', 0, [Adt('NonNull', 0, [Ref(Cell(v))])])])
    def force(self, a):
        if a.variant is not None or a.lazy is None: return
        d = a.lazy; ty = a.ty
        rng = Adt('SourceRange', 0, [Adt('SourceLocation', 0, [1, 0]), Adt('SourceLocation', 0, [1, 1])])
        if ty == 'Expression':
            k = self.fk.choose(3 if d > 0 else 1); a.variant = k
            if k == 0: a.fields = [self.lazy('PrimaryExpression', d)]
            elif k == 1:
                n_rest = self.fk.choose(2)
                lst = Adt('ExpressionList', 0, [self.lazy('Expression', d-1), Adt('Vec', 0, [HList([self.lazy('Expression', d-1) for _ in range(n_rest)])])])
                a.fields = [Adt('BinaryExpression', 0, [self.lazy('BinaryOperator', 0), self.box(self.lazy('Expression', d-1)), self.box(lst)])]
            else:
                a.fields = [Adt('UnaryExpression', 0, [self.lazy('UnaryOperator', 0), self.box(self.lazy('Expression', d-1))])]
        elif ty == 'PrimaryExpression':
            k = self.fk.choose(2); a.variant = k       # Literal | Identifier (others outside the spike)
            a.fields = [Adt('WithRange', 0, [self.lazy('LiteralExpression' if k == 0 else 'Identifier', 0), rng])]
        elif ty == 'LiteralExpression':
            k = self.fk.choose(5); a.variant = k
            a.fields = {1: [z3.Bool(self.fresh('lb'))], 3: [z3.FP(self.fresh('ln'), F64)], 4: ['<string>']}.get(k, [])
        elif ty == 'Identifier':
            k = self.fk.choose(2); a.variant = k
            a.fields = [Adt('VariableName', 0, [Adt('SimpleIdentifier', 0, ['<name>'])])] if k == 0 else []
        elif ty in ('BinaryOperator', 'UnaryOperator'):
            a.variant = self.fk.choose(len(ENUMS[ty])); a.fields = []
        else: raise Abort('lazy? ' + ty)

    # ----- places
    def parse_place(self, s):
        s = s.strip()
        if s.startswith('no_retag '): s = s[9:]
        if re.fullmatch(r'_\d+', s): return ('local', s)
        if s.startswith('(*') and s.endswith(')') and balanced(s[2:-1]): return ('deref', self.parse_place(s[2:-1]))
        if s.startswith('(') and s.endswith(')'):
            inner = s[1:-1]
            m = re.match(r'(.*) as (\w+)$', inner)
            if m and balanced(m.group(1)): return ('downcast', self.parse_place(m.group(1)), m.group(2))
            d = 0
            for i, c in enumerate(inner):
                if c in '(<[': d += 1
                elif c in ')]' or (c == '>' and inner[i-1] != '-'): d -= 1
                elif c == ':' and d == 0 and inner[i+1] == ' ':
                    left = inner[:i]; k = left.rindex('.')
                    return ('field', self.parse_place(left[:k]), int(left[k+1:]))
        raise Abort('place? ' + s)
    def read_place(self, fr, p):
        k = p[0]
        if k == 'local': return fr[p[1]].v
        if k == 'deref':
            r = self.read_place(fr, p[1]); assert isinstance(r, Ref), (p, r); return self.ref_get(r)
        if k == 'downcast': return self.read_place(fr, p[1])
        if k == 'field':
            base = self.read_place(fr, p[1])
            if isinstance(base, Adt): self.force(base)
            return base.fields[p[2]]
    def place_ref(self, fr, p):
        k = p[0]
        if k == 'local': return Ref(fr[p[1]])
        if k == 'deref':
            r = self.read_place(fr, p[1]); assert isinstance(r, Ref), r; return r
        if k == 'downcast': return self.place_ref(fr, p[1])
        if k == 'field':
            r = self.place_ref(fr, p[1]); b = self.ref_get(r)
            if isinstance(b, Adt): self.force(b)
            return Ref(r.cell, r.path + (p[2],))
    def ref_get(self, r):
        v = r.cell.v
        for i in r.path:
            if isinstance(v, Adt): self.force(v)
            try: v = v.fields[i]
            except Exception: raise Abort(f'field {i} of {v!r} path {r.path}')
        return v
    def ref_set(self, r, val):
        if not r.path: r.cell.v = val; return
        v = r.cell.v
        for i in r.path[:-1]: v = v.fields[i]
        v.fields[r.path[-1]] = val

    def operand(self, fr, s):
        s = s.strip()
        if s.startswith(('copy ', 'move ')): return self.read_place(fr, self.parse_place(s[5:]))
        if s.startswith('const '):
            c = s[6:]
            if c in ('true', 'false'): return c == 'true'
            if c == '()': return Adt('Tuple', 0, [])
            m = re.fullmatch(r'(-?[\d.eE+-]+)f64', c)
            if m: return z3.FPVal(float(m.group(1)), F64)
            m = re.fullmatch(r'(-?\d+)_(i|u)(size|\d+)', c)
            if m: return int(m.group(1))
            if 'SizedTypeProperties>::ALIGN' in c: return 8
            if c.startswith('"'): return Str([ord(x) for x in eval(c)], 0, None)
            m = re.fullmatch(r"'(.*)'", c)
            if m: return ord(eval(c))
            m = re.fullmatch(r'(\d+)_u32', c)
            if c.startswith('ZeroSized: {closure@'):
                fn, kind = CLOSURES[c[len('ZeroSized: '):]]; return Closure(fn, kind)
            raise Abort('const? ' + c)
        if re.match(r'[\w<]', s): return ('fnitem', s)
        raise Abort('operand? ' + s)

    def rvalue(self, fr, s, dest_ty=''):
        s = s.strip()
        if s.startswith('&'):
            t = s[1:]
            for pre in ('mut ', 'raw const ', 'raw mut '):
                if t.startswith(pre): t = t[len(pre):]
            return self.place_ref(fr, self.parse_place(t))
        m = re.fullmatch(r'discriminant\((.*)\)', s)
        if m:
            v = self.read_place(fr, self.parse_place(m.group(1))); self.force(v)
            return v.variant - 1 if v.ty == 'Ordering' else v.variant
        m = re.fullmatch(r'(Add|Sub|Mul)WithOverflow\((.*)\)', s)
        if m:
            a, b = [self.operand(fr, x) for x in split_top(m.group(2))]
            bits = 32 if 'u32' in dest_ty else 64
            r = {'Add': a + b, 'Sub': a - b, 'Mul': a * b}[m.group(1)]
            return Adt('Tuple', 0, [r % (1 << bits), not (0 <= r < (1 << bits))])
        m = re.fullmatch(r'(Eq|Ne|Lt|Le|Gt|Ge|Add|Sub|Mul|Div|BitAnd)\((.*)\)', s)
        if m:
            a, b = [self.operand(fr, x) for x in split_top(m.group(2))]; op = m.group(1)
            if z3.is_fp(a) or z3.is_fp(b):
                return {'Add': lambda: z3.fpAdd(RNE, a, b), 'Sub': lambda: z3.fpSub(RNE, a, b), 'Mul': lambda: z3.fpMul(RNE, a, b),
                        'Div': lambda: z3.fpDiv(RNE, a, b), 'Eq': lambda: z3.fpEQ(a, b), 'Ne': lambda: z3.fpNEQ(a, b)}[op]()
            if isinstance(a, Ref) or isinstance(b, Ref): raise Abort('ptr cmp')
            if not isinstance(a, (int, bool)) or not isinstance(b, (int, bool)):
                return {'Eq': lambda: a == b, 'Ne': lambda: a != b, 'Lt': lambda: z3.ULT(a, b), 'Le': lambda: z3.ULE(a, b), 'Gt': lambda: z3.UGT(a, b), 'Ge': lambda: z3.UGE(a, b)}[op]()
            return {'Eq': lambda: a == b, 'Ne': lambda: a != b, 'Sub': lambda: a - b, 'Add': lambda: a + b, 'Lt': lambda: a < b, 'Le': lambda: a <= b, 'Gt': lambda: a > b, 'Ge': lambda: a >= b,
                    'BitAnd': lambda: (a and b) if isinstance(a, bool) else (a & b)}[op]()
        m = re.fullmatch(r'(Not|Neg)\((.*)\)', s)
        if m:
            a = self.operand(fr, m.group(2))
            if m.group(1) == 'Neg': return z3.fpNeg(a) if z3.is_fp(a) else -a
            return (not a) if isinstance(a, bool) else z3.Not(a)
        m = re.fullmatch(r'(.*) as (.*) \((\w+)\)', s)
        if m:
            v = self.operand(fr, m.group(1)); kind = m.group(3)
            if kind == 'Transmute' and m.group(2).startswith('*const'):
                while isinstance(v, Adt): v = v.fields[0]
                return v
            if kind == 'PtrToPtr': return v
            if kind == 'IntToInt':
                bits = {'u32': 32, 'usize': 64, 'u64': 64, 'u8': 8, 'isize': 64, 'i64': 64}.get(m.group(2), 64)
                return v % (1 << bits) if isinstance(v, int) else v
            if kind == 'Transmute' and m.group(2) == 'usize': return v.cell.addr
            raise Abort('cast? ' + s)
        if s.startswith(('copy ', 'move ', 'const ', 'no_retag ')):
            return self.operand(fr, s[9:] if s.startswith('no_retag ') else s)
        if s.startswith('(') and s.endswith(')') and balanced(s[1:-1]):
            return Adt('Tuple', 0, [self.operand(fr, x) for x in split_top(s[1:-1])])
        m = re.fullmatch(r'(\{closure@[^}]*\}) \{ (.*) \}', s)
        if m:
            fn, kind = CLOSURES[m.group(1)]
            return Closure(fn, kind, [self.operand(fr, x.split(': ', 1)[1]) for x in split_top(m.group(2))])
        m = re.fullmatch(r'((?:\w+::)*)(\w+)(?:::<.*?>)?(?:::(\w+))?(?:\((.*)\)| \{ (.*) \})?', s)
        if m:
            _, a, b, targs, sargs = m.groups()
            if b is not None and a in ENUMS:      # Enum::Variant(args)
                fields = [self.operand(fr, x) for x in split_top(targs)] if targs else []
                return Adt(a, ENUMS[a].index(b), fields)
            if b is None and targs is not None: return Adt(a, 0, [self.operand(fr, x) for x in split_top(targs)])   # tuple struct
            if b is None and sargs is not None: return Adt(a, 0, [self.operand(fr, x.split(': ', 1)[1]) for x in split_top(sargs)])
            if b is None and targs is None and sargs is None:      # bare variant or unit struct
                for ty, vs in ENUMS.items():
                    if a in vs and ty in dest_ty: return Adt(ty, vs.index(a), [])
                return Adt(a, 0, [])
        raise Abort('rvalue? ' + s)

    # ----- iterators
    def it_next(self, it):
        k = it.kind
        if k == 'once':
            if it.a[0] is None: return None
            v, it.a[0] = it.a[0], None; return (v,)
        if k == 'slice':
            lst, pos = it.a
            if pos >= len(lst.items): return None
            it.a[1] += 1; return (Ref(Cell(lst), (('idx', pos),)) if False else self.elem_ref(lst, pos),)
        if k == 'chain':
            r = self.it_next(it.a[0]) if it.a[0] else None
            if r is None: it.a[0] = None; return self.it_next(it.a[1])
            return r
        if k == 'map':
            r = self.it_next(it.a[0])
            return None if r is None else (self.call_closure(it.a[1], [r[0]]),)
        raise Abort('iter? ' + k)
    def elem_ref(self, lst, pos):
        c = Cell(lst.items[pos]); return Ref(c)     # read-only use in this spike
    def call_closure(self, clo, args):
        f = FNS[clo.fn]
        selfarg = clo if clo.kind == 'once' else Ref(Cell(clo))
        return self.run(f, [selfarg] + list(args), self_ty=None)

    # ----- calls
    def resolve(self, callee, self_ty):
        m = re.fullmatch(r'<(\w+)(?:<.*>)? as (\w+)(?:<.*>)?>::(\w+)', callee)
        if m:
            ty, tr, meth = m.groups()
            if ty == 'Self': ty = self_ty
            if (tr, ty, meth) in IMPL: return FNS[IMPL[(tr, ty, meth)]], ty
            if f'{tr}::{meth}' in FNS: return FNS[f'{tr}::{meth}'], ty
        c2 = re.sub(r"::<[^<>]*(<[^<>]*>)?[^<>]*>", '', callee)
        m = re.fullmatch(r'(?:\w+::)*(\w+)::(\w+)', c2)
        if m and (None, m.group(1), m.group(2)) in IMPL: return FNS[IMPL[(None, m.group(1), m.group(2))]], m.group(1)
        if m:
            for k, v in IMPL.items():
                if k[1] == m.group(1) and k[2] == m.group(2): return FNS[v], m.group(1)
        m = re.fullmatch(r'(?:\w+::)*(\w+)', c2)
        if m:
            for n in FNS:
                if (n == m.group(1) or n.endswith('::' + m.group(1))) and 'impl at' not in n and '{closure' not in n: return FNS[n], None
        return None, None
    def call(self, callee, args, self_ty):
        r = self.lex_models(callee, args)
        if r is not NOTHING: return r
        f, sty = self.resolve(callee, self_ty)
        if f: return self.run(f, args, self_ty=sty)
        if callee.endswith(' as Try>::branch'):
            r = args[0]
            return Adt('ControlFlow', 0, [r.fields[0]]) if r.variant == 0 else Adt('ControlFlow', 1, [Adt('Result', 1, [r.fields[0]])])
        if '>::from_residual' in callee: return Adt('Result', 1, [args[0].fields[0]])
        if callee.startswith('once::<'): return It('once', args[0])
        if callee.endswith(' as Deref>::deref') and callee.startswith('<Vec<'):
            return Ref(Cell(self.deref(args[0]).fields[0]))
        if re.match(r'core::slice::<impl \[.*\]>::iter$', callee): return It('slice', self.deref(args[0]), 0)
        if ' as Iterator>::chain::<' in callee: return It('chain', args[0], args[1])
        if ' as Iterator>::map::<' in callee: return It('map', args[0], args[1])
        if ' as Iterator>::try_fold::<' in callee:
            it, acc, f = self.deref(args[0]), args[1], args[2]
            while True:
                r = self.it_next(it)
                if r is None: return Adt('Result', 0, [acc])
                res = self.call_closure(f, [acc, r[0]])
                if res.variant == 1: return res
                acc = res.fields[0]
        if re.match(r'std::result::Result::<.*>::map::<', callee):
            r, f = args
            return Adt('Result', 0, [self.call_closure(f, [r.fields[0]])]) if r.variant == 0 else r
        if callee == 'core::bool::<impl bool>::then::<std::result::Result<NumericConstant, ConstantFoldingError>, {closure@src/analysis/tools.rs:71:19: 71:21}>' or 'impl bool>::then::<' in callee:
            b, f = args
            return Adt('Option', 1, [self.call_closure(f, [])]) if self.branch(b) else Adt('Option', 0, [])
        if re.match(r'Option::<.*>::unwrap_or$', callee):
            o, d = args; return d if o.variant == 0 else o.fields[0]
        if callee.endswith('>::is_empty') and 'Vec' in callee: return len(self.deref(args[0]).fields[0].items) == 0
        if callee == '<SourceRange as Clone>::clone': return self.deref(args[0])
        m = re.fullmatch(r'<.* as Into<(\w+)>>::into', callee)
        if m and ('From', m.group(1), 'from') in IMPL: return self.run(FNS[IMPL[('From', m.group(1), 'from')]], args)
        if callee in ('<f64 as Neg>::neg',): return z3.fpNeg(args[0])
        m = re.fullmatch(r'<f64 as (Add|Sub|Mul|Div)>::\w+', callee)
        if m: return {'Add': z3.fpAdd, 'Sub': z3.fpSub, 'Mul': z3.fpMul, 'Div': z3.fpDiv}[m.group(1)](RNE, args[0], args[1])
        raise Abort('callee? ' + callee)
    def deref(self, v): return self.ref_get(v) if isinstance(v, Ref) else v

    def run(self, f, args, self_ty=None):
        class FR(dict):
            def __missing__(s, k): s[k] = Cell(); return s[k]
        fr = FR()
        for i, a in enumerate(args): fr[f'_{i+1}'].v = a
        bb = 'bb0'
        while True:
            for line in f.blocks[bb]:
                STATS['steps'] += 1
                if line.startswith(('StorageLive', 'StorageDead', 'FakeRead', 'PlaceMention', 'nop', 'Retag', 'AscribeUserType', '//')): continue
                if line == 'return;': return fr['_0'].v
                if line == 'unreachable;': raise Panic('unreachable')
                m = re.fullmatch(r'goto -> (bb\d+);', line)
                if m: bb = m.group(1); break
                m = re.fullmatch(r'drop\(.*\) -> \[return: (bb\d+), unwind.*\];', line)
                if m: bb = m.group(1); break
                m = re.fullmatch(r'assert\((!?)(.*?), ".*\) -> \[success: (bb\d+), unwind.*\];', line)
                if m:
                    v = self.operand(fr, m.group(2))
                    if m.group(1): v = (not v) if isinstance(v, bool) else z3.Not(v)
                    if not self.branch(v): raise Panic(line[:60])
                    bb = m.group(3); break
                m = re.fullmatch(r'switchInt\((.*)\) -> \[(.*)\];', line)
                if m:
                    v = self.operand(fr, m.group(1)); d = dict(t.split(': ') for t in m.group(2).split(', '))
                    if isinstance(v, bool): v = int(v)
                    if isinstance(v, int): bb = d.get(str(v), d.get('otherwise'))
                    elif z3.is_bool(v): bb = (d.get('otherwise') or d['1']) if self.branch(v) else d['0']
                    else:
                        bb = None
                        for k, t in d.items():
                            if k != 'otherwise' and self.branch(v == int(k)): bb = t; break
                        if bb is None: bb = d['otherwise']
                    break
                if re.match(r'(_\d+ = )?(panic|panic_fmt|core::panicking|std::rt::begin_panic|assert_failed|unreachable_display|slice_error_fail|core::str::slice_error_fail)\b.*-> unwind', line) or re.match(r'_\d+ = .*panic.*\(.*\) -> unwind', line):
                    raise Panic(line[:80])
                m = re.fullmatch(r'(.*?) = (.*) -> \[return: (bb\d+), unwind.*\];', line)
                if m and not m.group(2).startswith('&'):
                    dest, callexpr, nxt = m.groups(); d = 0; i = 0
                    while i < len(callexpr):
                        ch = callexpr[i]
                        if ch == '<': d += 1
                        elif ch == '>' and callexpr[i-1] not in '-=': d -= 1
                        elif ch == '(' and d == 0: break
                        i += 1
                    callee, argstr = callexpr[:i], callexpr[i+1:-1]
                    argv = [self.operand(fr, a) for a in split_top(argstr)]
                    if not callee.strip(): raise Abort('empty callee in: ' + line[:200])
                    r = self.call(callee, argv, self_ty)
                    self.ref_set(self.place_ref(fr, self.parse_place(dest)), r); bb = nxt; break
                m = re.fullmatch(r'(.*?) = (.*);', line)
                if m:
                    dname = m.group(1).strip()
                    v = self.rvalue(fr, m.group(2), f.localtypes.get(dname, ''))
                    self.ref_set(self.place_ref(fr, self.parse_place(dname)), v); continue
                raise Abort('stmt? ' + line)

# ------------------------------------------------------------ lexer models (ASCII-only spike)
class Str:
    def __init__(self, buf, start, end): self.buf, self.start, self.end = buf, start, (len(buf) if end is None else end)
    def chars(self): return self.buf[self.start:self.end]
    def __len__(self): return self.end - self.start
    def __repr__(self): return f'Str[{self.start}:{self.end}]'
class CI:   # CharIndices over buf, offsets relative to base
    def __init__(self, buf, base, pos, end): self.buf, self.base, self.pos, self.end = buf, base, pos, end
class Ptr:
    def __init__(self, buf, off): self.buf, self.off = buf, off

KEYWORDS = {}
_src = '\n'.join(SRC['src/frontend/lexer.rs'])
_blk = _src[_src.index('static ref KEYWORDS'):_src.index('fn match_keyword')]
for m in re.finditer(r'alias\(\s*TokenType::(\w+),\s*&\[(.*?)\]', _blk, re.S):
    for kw in re.findall(r'"([^"]+)"', m.group(2)): KEYWORDS[kw] = m.group(1)
for m in re.finditer(r'\("([^"]+)", TokenType::(\w+)\)', _blk): KEYWORDS[m.group(1)] = m.group(2)
for m in re.finditer(r'm\.insert\("([^"]+)", TokenType::(\w+)\)', _blk): KEYWORDS[m.group(1)] = m.group(2)
for kw in ["a", "an", "the", "my", "your", "our"]: KEYWORDS[kw] = 'CommonVariablePrefix'

def inrange(c, lo, hi):
    if isinstance(c, int): return lo <= c <= hi
    return z3.And(z3.UGE(c, lo), z3.ULE(c, hi))
def OR(*xs):
    if all(isinstance(x, bool) for x in xs): return any(xs)
    return z3.Or(*[z3.BoolVal(x) if isinstance(x, bool) else x for x in xs])
def EQ(a, b): return a == b
def is_alpha(c): return OR(inrange(c, 65, 90), inrange(c, 97, 122))
def is_ws(c): return OR(inrange(c, 9, 13), EQ(c, 32))
def is_punct(c): return OR(inrange(c, 33, 47), inrange(c, 58, 64), inrange(c, 91, 96), inrange(c, 123, 126))
def is_digit(c): return inrange(c, 48, 57)
def lower(c):
    if isinstance(c, int): return c + 32 if 65 <= c <= 90 else c
    return z3.If(inrange(c, 65, 90), c + 32, c)
parse_ok = z3.Function('parse_ok', z3.IntSort(), z3.BoolSort())

def _lex_models(self, callee, args):
    c = callee.replace("<'_>", '').replace("'_, ", '').replace("'_ ", '').replace("'_", '')
    D = self.deref
    if c == 'core::str::<impl str>::char_indices': s = args[0]; return CI(s.buf, s.start, s.start, s.end)
    if c == '<CharIndices<> as Clone>::clone' or c == '<CharIndices as Clone>::clone': x = D(args[0]); return CI(x.buf, x.base, x.pos, x.end)
    if c.endswith('CharIndices>::as_str') or 'CharIndices' in c and c.endswith('::as_str'): x = D(args[0]); return Str(x.buf, x.pos, x.end)
    if c == '<CharIndices as Iterator>::next':
        x = D(args[0])
        if x.pos >= x.end: return Adt('Option', 0, [])
        x.pos += 1; return Adt('Option', 1, [Adt('Tuple', 0, [x.pos - 1 - x.base, x.buf[x.pos - 1]])])
    m = re.match(r'<(Inspect<)?CharIndices(, \{closure@[^}]*\}>)? as Iterator>::find::<', c)
    if m:
        x = D(args[0]); insp = None
        if isinstance(x, It): insp, x = x.a[1], x.a[0]
        while x.pos < x.end:
            x.pos += 1; item = Adt('Tuple', 0, [x.pos - 1 - x.base, x.buf[x.pos - 1]])
            if insp: self.call_closure(insp, [Ref(Cell(item))])
            if self.branch(self.call_closure(args[1], [Ref(Cell(item))])): return Adt('Option', 1, [item])
        return Adt('Option', 0, [])
    if c.startswith('<CharIndices as Iterator>::inspect::<'): return It('inspect', args[0], args[1])
    if c.startswith('<CharIndices as Itertools>::take_while_ref::<'): return It('twr', args[0], args[1])
    if c.startswith('<TakeWhileRef<') and '::for_each::<' in c:
        it = args[0]; x = D(it.a[0])
        while x.pos < x.end:
            item = Adt('Tuple', 0, [x.pos - x.base, x.buf[x.pos]])
            if not self.branch(self.call_closure(it.a[1], [Ref(Cell(item))])): break
            x.pos += 1
        return Adt('Unit', 0, [])
    if c in ('core::str::<impl str>::len',): return len(D(args[0]))
    if c in ('core::str::<impl str>::is_empty',): return len(D(args[0])) == 0
    if c == 'core::str::<impl str>::chars': s = D(args[0]); return It('chars', s, 0)
    if c.startswith('<Chars as Iterator>::all::<'):
        it = D(args[0]); s = it.a[0]
        for ch in s.chars():
            if not self.branch(self.call_closure(args[1], [ch])): return False
        return True
    if c == '<Chars as Iterator>::next':
        it = D(args[0]); s = it.a[0]
        if it.a[1] >= len(s): return Adt('Option', 0, [])
        it.a[1] += 1; return Adt('Option', 1, [s.chars()[it.a[1] - 1]])
    m = re.match(r'core::str::<impl str>::(starts_with|strip_prefix|strip_suffix|contains)::<(.*)>', c)
    if m:
        s, pat = D(args[0]), args[1]; kind = m.group(1)
        pc = pat.chars() if isinstance(pat, Str) else [pat]
        if kind == 'contains':
            return OR(*[EQ(x, pc[0]) for x in s.chars()]) if s.chars() else False
        if len(pc) > len(s): ok = False
        else:
            seg = s.chars()[:len(pc)] if kind != 'strip_suffix' else s.chars()[len(s) - len(pc):]
            ok = True
            for a, b in zip(seg, pc):
                if not self.branch(EQ(a, b)): ok = False; break
        if kind == 'starts_with': return ok
        if not ok: return Adt('Option', 0, [])
        return Adt('Option', 1, [Str(s.buf, s.start + len(pc), s.end) if kind == 'strip_prefix' else Str(s.buf, s.start, s.end - len(pc))])
    if c.startswith('core::str::<impl str>::trim_end_matches::<'):
        s = D(args[0]); e = s.end
        while e > s.start and self.branch(EQ(s.buf[e - 1], args[1])): e -= 1
        return Str(s.buf, s.start, e)
    if c == 'core::str::<impl str>::parse::<f64>':
        s = D(args[0]); self.uid += 1
        if len(s) == 0: return Adt('Result', 1, ['pfe'])
        ok = self.branch(z3.Bool(f'parse_ok_{s.start}_{s.end}'))
        return Adt('Result', 0, [z3.FP(f'parse_val_{s.start}_{s.end}', F64)]) if ok else Adt('Result', 1, ['pfe'])
    if c == 'core::str::<impl str>::is_char_boundary': return 0 <= args[1] <= len(D(args[0]))
    if c == 'core::str::<impl str>::is_ascii': return True
    m = re.match(r'core::str::<impl str>::get::<', c)
    if m:
        s, r = D(args[0]), args[1]; a, b = r.fields[0], r.fields[1]
        return Adt('Option', 1, [Str(s.buf, s.start + a, s.start + b)]) if a <= b <= len(s) else Adt('Option', 0, [])
    if re.match(r'<(I|std::ops::Range(From)?<usize>) as SliceIndex<str>>::(index|get_unchecked)', c) or c.startswith('<str as Index<'):
        if c.startswith('<str as Index<'): s, r = D(args[0]), args[1]
        else: r, s = args[0], D(args[1])
        a = r.fields[0]; b = r.fields[1] if len(r.fields) > 1 else len(s)
        if not (a <= b <= len(s)):
            raise Panic(f'slice index {a}..{b} out of range for len {len(s)}' + (' (UB: get_unchecked)' if 'unchecked' in c else ''))
        return Str(s.buf, s.start + a, s.start + b)
    if c in ('core::str::<impl str>::as_ptr',): s = D(args[0]); return Ptr(s.buf, s.start)
    if c in ('core::str::<impl str>::as_bytes',): return D(args[0])
    if c.startswith('core::slice::<impl [u8]>::as_ptr_range'): s = D(args[0]); return Adt('Range', 0, [Ptr(s.buf, s.start), Ptr(s.buf, s.end)])
    if c.startswith('core::slice::<impl [u8]>::as_ptr'): s = D(args[0]); return Ptr(s.buf, s.start)
    if c.startswith('std::ops::Range::<*const u8>::contains'):
        r, p = D(args[0]), D(args[1]); return r.fields[0].off <= p.off < r.fields[1].off
    if 'offset_from' in c: return args[0].off - args[1].off
    if c.startswith('char::methods::<impl char>::'):
        f = c.split('::')[-1]; ch = args[0] if not isinstance(args[0], Ref) else D(args[0])
        return {'is_whitespace': is_ws, 'is_alphabetic': is_alpha, 'is_numeric': is_digit, 'is_ascii_punctuation': is_punct,
                'is_ascii_alphanumeric': lambda x: OR(is_alpha(x), is_digit(x)), 'is_lowercase': lambda x: inrange(x, 97, 122),
                'is_uppercase': lambda x: inrange(x, 65, 90)}[f](ch)
    if callee.endswith('::match_keyword') or c == 'match_keyword':
        s = D(args[0]); n = len(s)
        for kw, tok in KEYWORDS.items():
            if len(kw) != n: continue
            cond = True; ok = True
            for a, b in zip(s.chars(), kw):
                if not self.branch(EQ(lower(a), ord(b))): ok = False; break
            if ok: return Adt('Option', 1, [Adt('TokenType', ENUMS['TokenType'].index(tok), [])])
        return Adt('Option', 0, [])
    m = re.match(r'<&?(\w+) as (PartialOrd|Ord)>::(lt|le|gt|ge|partial_cmp|cmp)$', c)
    if m:
        a, b = D(args[0]), D(args[1])
        while isinstance(a, Ref): a = D(a)
        while isinstance(b, Ref): b = D(b)
        if isinstance(a, Adt):
            ty = a.ty
            if m.group(3) in ('partial_cmp', 'cmp') and (m.group(2), ty, m.group(3)) in IMPL:
                return NOTHING
            o = self.run(FNS[IMPL[('PartialOrd', ty, 'partial_cmp')]], [Ref(Cell(a)), Ref(Cell(b))]).fields[0].variant - 1
        else:
            o = (a > b) - (a < b)
            if m.group(3) == 'cmp': return Adt('Ordering', o + 1, [])
            if m.group(3) == 'partial_cmp': return Adt('Option', 1, [Adt('Ordering', o + 1, [])])
        return {'lt': o < 0, 'le': o <= 0, 'gt': o > 0, 'ge': o >= 0}[m.group(3)]
    # Option / Result / misc combinators
    m = re.match(r'Option::<.*?>::(\w+)(::<.*)?$', c, re.S)
    if m:
        f = m.group(1); o = args[0]
        if isinstance(o, Ref) and f in ('as_ref', 'take', 'is_some', 'is_none'): ref = o; o = D(o)
        some = isinstance(o, Adt) and o.variant == 1
        if f == 'map': return Adt('Option', 1, [self.callf(args[1], [o.fields[0]])]) if some else o
        if f == 'and_then': return self.callf(args[1], [o.fields[0]]) if some else o
        if f == 'or_else': return o if some else self.callf(args[1], [])
        if f == 'unwrap_or_else': return o.fields[0] if some else self.callf(args[1], [])
        if f == 'unwrap_or': return o.fields[0] if some else args[1]
        if f == 'map_or': return self.callf(args[2], [o.fields[0]]) if some else args[1]
        if f == 'filter': return o if some and self.branch(self.callf(args[1], [Ref(Cell(o.fields[0]))])) else Adt('Option', 0, [])
        if f == 'is_some': return some
        if f == 'is_none': return not some
        if f == 'unwrap':
            if not some: raise Panic('unwrap on None')
            return o.fields[0]
        if f == 'ok': pass
        if f == 'as_ref': return Adt('Option', 1, [Ref(ref.cell, ref.path + (0,))]) if some else Adt('Option', 0, [])
        if f == 'take':
            self.ref_set(ref, Adt('Option', 0, [])); return o
    if re.match(r'std::result::Result::<.*>::ok$', c): r = args[0]; return Adt('Option', 1, [r.fields[0]]) if r.variant == 0 else Adt('Option', 0, [])
    if c.startswith('core::bool::<impl bool>::then::<'): return Adt('Option', 1, [self.callf(args[1], [])]) if self.branch(args[0]) else Adt('Option', 0, [])
    if c == '<u32 as TryFrom<usize>>::try_from': return Adt('Result', 0, [args[0]]) if args[0] < 2**32 else Adt('Result', 1, ['tfe'])
    if c == 'core::num::<impl u32>::checked_sub': return Adt('Option', 1, [args[0] - args[1]]) if args[0] >= args[1] else Adt('Option', 0, [])
    if re.match(r'<\(u32, u32\) as Into<.*>>::into', c): return self.run(FNS[IMPL[('From', 'SourceLocation', 'from')]], args)
    m = re.match(r'<(P|F|\{closure@[^}]*\}) as Fn(Mut|Once)?<.*>>::call(_mut|_once)?$', c)
    if m:
        clo = D(args[0]); tup = args[1]; return self.callf(clo, tup.fields)
    if c.startswith('<Option<u32> as Ord>::max') or c.endswith('::max') :
        a, b = args
        if isinstance(a, Adt):
            ka = (a.variant, a.fields[0] if a.fields else 0); kb = (b.variant, b.fields[0] if b.fields else 0); return a if ka >= kb else b
        return max(a, b)
    if c.endswith(' as Clone>::clone'):
        import copy as _c; return _c.deepcopy(D(args[0]))
    if c in ('<String as PartialEq<&str>>::eq', '<String as PartialEq<str>>::eq'): raise Abort('string eq (is_ispelled) outside spike')
    if c.startswith('<Lexer as Iterator>::find::<') or c.startswith('<lexer::Lexer as Iterator>::find::<'):
        while True:
            t = self.run(FNS[IMPL[('Iterator', 'Lexer', 'next')]], [args[0]])
            if t.variant == 0: return t
            if self.branch(self.callf(args[1], [Ref(Cell(t.fields[0]))])): return t
    if re.match(r'<&?(lexer::)?TokenType as PartialEq>::(eq|ne)', c) or re.match(r'<&?.* as PartialEq(<.*>)?>::(eq|ne)', c):
        a, b = D(args[0]), D(args[1])
        while isinstance(a, Ref): a = D(a)
        while isinstance(b, Ref): b = D(b)
        if isinstance(a, Adt): r = a.variant == b.variant
        else: r = EQ(a, b)
        return r if c.endswith('eq') else (not r if isinstance(r, bool) else z3.Not(r))
    return NOTHING
VM.lex_models = _lex_models
def _callf(self, f, args):
    if isinstance(f, Closure): return self.call_closure(f, args)
    if isinstance(f, tuple) and f[0] == 'fnitem':
        fn, sty = self.resolve(f[1], None)
        if fn: return self.run(fn, args, self_ty=sty)
    raise Abort('callf? ' + repr(f))
VM.callf = _callf

# ------------------------------------------------------------ harness: lexer totality on N symbolic ASCII chars
found = {}
def harness(vm, n):
    buf = [z3.BitVec(f'c{i}', 32) for i in range(n)]
    for ch in buf: vm.pc.append(z3.ULT(ch, 128))
    s = Str(buf, 0, n)
    lexer = vm.run(FNS[IMPL[(None, 'Lexer', 'new')]], [s])
    cell = Cell(lexer); ntok = 0
    try:
        while True:
            t = vm.run(FNS[IMPL[('Iterator', 'Lexer', 'next')]], [Ref(cell)])
            if t.variant == 0: break
            ntok += 1
            if ntok > n + 2: raise Panic('too many tokens (no progress?)')
    except Panic as p:
        sol = z3.Solver(); sol.add(*vm.pc); assert sol.check() == z3.sat
        mdl = sol.model(); txt = ''.join(chr(mdl.eval(ch, model_completion=True).as_long()) for ch in buf)
        found.setdefault(str(p)[:70], repr(txt))

def explore(h, *a):
    fk = Forker()
    while True:
        fk.pos = 0; vm = VM(fk)
        try: h(vm, *a); STATS['paths'] += 1
        except Abort as ex:
            if str(ex) != 'infeasible': raise
        while fk.pending:
            pos, n = fk.pending[-1]
            if fk.trail[pos] + 1 < n:
                fk.trail[pos] += 1; del fk.trail[pos+1:]; fk.pending = [p for p in fk.pending if p[0] <= pos]; break
            fk.pending.pop()
        else: return

for n in range(0, int(sys.argv[3]) + 1):
    t0 = time.time(); p0 = STATS['paths']; explore(harness, n)
    print('N', n, 'paths', STATS['paths'] - p0, 'steps', STATS['steps'], 'queries', STATS['queries'], f'{time.time()-t0:.1f}s', 'panics', dict(found), flush=True)
