#!/usr/bin/env python3
"""Throw-away Tier-B spike: NumericConstantFolder over lazily symbolic Expression trees,
executed from MIR (trait-default dispatch, Box deref elaboration, iterator adaptors, closures)."""
import re, sys, time
import z3

ROOT = sys.argv[2]
MIR = open(sys.argv[1]).read()
F64 = z3.Float64(); RNE = z3.RNE()

def split_top(s, sep=','):
    out, depth, cur, instr = [], 0, '', False
    i = 0
    while i < len(s):
        c = s[i]
        if instr:
            cur += c
            if c == '\\': cur += s[i+1]; i += 1
            elif c == '"': instr = False
        elif c == '"': instr = True; cur += c
        elif c in '([{<': depth += 1; cur += c
        elif c in ')]}': depth -= 1; cur += c
        elif c == '>' and s[i-1] not in '-=': depth -= 1; cur += c
        elif c == sep and depth == 0: out.append(cur.strip()); cur = ''
        else: cur += c
        i += 1
    if cur.strip(): out.append(cur.strip())
    return out

# ------------------------------------------------------------ source facts: enums, impls
ENUMS = {}
import glob, os
SRC = {}
for p in glob.glob(ROOT + '/src/**/*.rs', recursive=True):
    txt = open(p).read(); SRC[os.path.relpath(p, ROOT)] = txt.split('\n')
    for m in re.finditer(r'\benum (\w+)(?:<[^>]*>)? \{', txt):
        i = m.end(); d = 1; j = i
        while d: d += {'{': 1, '}': -1}.get(txt[j], 0); j += 1
        body = txt[i:j-1]
        vs = []
        for part in split_top(re.sub(r'//.*', '', body)):
            part = re.sub(r'#\[[^\]]*\]\s*', '', part).strip()
            mm = re.match(r'(\w+)', part)
            if mm: vs.append(mm.group(1))
        ENUMS[m.group(1)] = vs
ENUMS.update({'Option': ['None', 'Some'], 'Result': ['Ok', 'Err'], 'ControlFlow': ['Continue', 'Break']})

class Fn: pass
FNS, CLOSURES, IMPL = {}, {}, {}
for m in re.finditer(r'^fn (.*?)\n(.*?)^\}\n', MIR, re.S | re.M):
    head, body = m.group(1), m.group(2)
    depth = 0
    for i, c in enumerate(head):
        if c == '<': depth += 1
        elif c == '>' and head[i-1] != '-': depth -= 1
        elif c == '(' and depth == 0: name, rest = head[:i], head[i:]; break
    d = 0
    for j, c in enumerate(rest):
        if c == '(': d += 1
        elif c == ')':
            d -= 1
            if d == 0: break
    if name in FNS: continue
    f = Fn(); f.name = name
    args = split_top(rest[1:j]); f.argtypes = [a.split(': ', 1)[1] if ': ' in a else '' for a in args]
    f.localtypes = dict(re.findall(r'^\s*let (?:mut )?(_\d+): (.*);$', body, re.M))
    f.localtypes['_0'] = rest[j+1:].strip()[3:].rstrip(' {').strip() if '->' in rest[j:] else '()'
    f.blocks = {bm.group(1): [l.strip() for l in bm.group(2).split('\n') if l.strip()]
                for bm in re.finditer(r'^    (bb\d+)(?: \(cleanup\))?: \{\n(.*?)^    \}', body, re.S | re.M)}
    FNS[name] = f
    if '{closure#' in name:
        t = f.argtypes[0]; kind = 'once'
        if t.startswith('&mut '): t, kind = t[5:], 'mut'
        elif t.startswith('&'): t, kind = t[1:], 'ref'
        CLOSURES[t] = (name, kind)
    im = re.match(r'(?:.*::)?<impl at (src/[\w/]+\.rs):(\d+):(\d+): (\d+):(\d+)>::(\w+)$', name)
    if im:
        file, l, c0, _, c1, meth = im.groups(); line = SRC[file][int(l)-1]
        mm = re.match(r'\s*impl(?:<[^>]*>)? (?:(?:\w+::)*(\w+)(?:<[^>]*>)? for )?(\w+)', line)
        if mm: tr, ty = mm.group(1), mm.group(2)
        else:   # derive: trait = token at columns, type = next struct/enum
            tr = line[int(c0)-1:int(c1)-1]
            for k in range(int(l), int(l)+4):
                t2 = re.search(r'\b(?:struct|enum) (\w+)', SRC[file][k])
                if t2: ty = t2.group(1); break
        IMPL[(tr, ty, meth)] = name

# ------------------------------------------------------------ values
class Adt:
    def __init__(self, ty, variant, fields=()): self.ty, self.variant, self.fields, self.lazy = ty, variant, list(fields), None
    def __repr__(self): return f'{self.ty}.{self.vname()}{self.fields}'
    def vname(self): return ENUMS[self.ty][self.variant] if self.ty in ENUMS and self.variant is not None else self.variant
class Cell:
    n = 0
    def __init__(self, v=None): self.v = v; Cell.n += 1; self.addr = 0x10000 + 64 * Cell.n
class Ref:
    def __init__(self, cell, path=()): self.cell, self.path = cell, tuple(path)
class Closure:
    def __init__(self, fn, kind, fields=()): self.fn, self.kind, self.fields = fn, kind, list(fields)
class HList:   # Vec / slice backing store
    def __init__(self, items): self.items = items
class It:      # iterator objects
    def __init__(self, kind, *a): self.kind, self.a = kind, list(a)
class Abort(Exception): pass
class Panic(Exception): pass

STATS = {'paths': 0, 'queries': 0, 'steps': 0, 'solver_s': 0.0}
def feasible(pc):
    s = z3.Solver(); s.add(*pc); t = time.time(); r = s.check(); STATS['solver_s'] += time.time() - t; STATS['queries'] += 1
    return r == z3.sat
class Forker:
    def __init__(self): self.trail = []; self.pos = 0; self.pending = []
    def choose(self, n):
        if self.pos < len(self.trail): c = self.trail[self.pos]
        else: c = 0; self.trail.append(0); self.pending.append((self.pos, n))
        self.pos += 1; return c

def balanced(s):
    d = 0
    for c in s:
        d += {'(': 1, ')': -1}.get(c, 0)
        if d < 0: return False
    return d == 0

class VM:
    def __init__(self, fk): self.fk, self.pc, self.uid = fk, [], 0
    def fresh(self, p): self.uid += 1; return f'{p}{self.uid}'
    def branch(self, cond):
        if isinstance(cond, bool): return cond
        cond = z3.simplify(cond)
        if z3.is_true(cond): return True
        if z3.is_false(cond): return False
        c = self.fk.choose(2); self.pc.append(cond if c == 0 else z3.Not(cond))
        if not feasible(self.pc): raise Abort('infeasible')
        return c == 0

    # ----- lazy AST
    def lazy(self, ty, depth):
        a = Adt(ty, None); a.lazy = depth; return a
    def box(self, v):
        return Adt('Box', 0, [Adt('Unique', 0, [Adt('NonNull', 0, [Ref(Cell(v))])])])
    def force(self, a):
        if a.variant is not None or a.lazy is None: return
        d = a.lazy; ty = a.ty
        rng = Adt('SourceRange', 0, [Adt('SourceLocation', 0, [1, 0]), Adt('SourceLocation', 0, [1, 1])])
        if ty == 'Expression':
            k = self.fk.choose(3 if d > 0 else 1); a.variant = k
            if k == 0: a.fields = [self.lazy('PrimaryExpression', d)]
            elif k == 1:
                n_rest = self.fk.choose(2)
                lst = Adt('ExpressionList', 0, [self.lazy('Expression', d-1), Adt('Vec', 0, [HList([self.lazy('Expression', d-1) for _ in range(n_rest)])])])
                a.fields = [Adt('BinaryExpression', 0, [self.lazy('BinaryOperator', 0), self.box(self.lazy('Expression', d-1)), self.box(lst)])]
            else:
                a.fields = [Adt('UnaryExpression', 0, [self.lazy('UnaryOperator', 0), self.box(self.lazy('Expression', d-1))])]
        elif ty == 'PrimaryExpression':
            k = self.fk.choose(2); a.variant = k       # Literal | Identifier (others outside the spike)
            a.fields = [Adt('WithRange', 0, [self.lazy('LiteralExpression' if k == 0 else 'Identifier', 0), rng])]
        elif ty == 'LiteralExpression':
            k = self.fk.choose(5); a.variant = k
            a.fields = {1: [z3.Bool(self.fresh('lb'))], 3: [z3.FP(self.fresh('ln'), F64)], 4: ['<string>']}.get(k, [])
        elif ty == 'Identifier':
            k = self.fk.choose(2); a.variant = k
            a.fields = [Adt('VariableName', 0, [Adt('SimpleIdentifier', 0, ['<name>'])])] if k == 0 else []
        elif ty in ('BinaryOperator', 'UnaryOperator'):
            a.variant = self.fk.choose(len(ENUMS[ty])); a.fields = []
        else: raise Abort('lazy? ' + ty)

    # ----- places
    def parse_place(self, s):
        s = s.strip()
        if s.startswith('no_retag '): s = s[9:]
        if re.fullmatch(r'_\d+', s): return ('local', s)
        if s.startswith('(*') and s.endswith(')') and balanced(s[2:-1]): return ('deref', self.parse_place(s[2:-1]))
        if s.startswith('(') and s.endswith(')'):
            inner = s[1:-1]
            m = re.match(r'(.*) as (\w+)$', inner)
            if m and balanced(m.group(1)): return ('downcast', self.parse_place(m.group(1)), m.group(2))
            d = 0
            for i, c in enumerate(inner):
                if c in '(<[': d += 1
                elif c in ')]' or (c == '>' and inner[i-1] != '-'): d -= 1
                elif c == ':' and d == 0 and inner[i+1] == ' ':
                    left = inner[:i]; k = left.rindex('.')
                    return ('field', self.parse_place(left[:k]), int(left[k+1:]))
        raise Abort('place? ' + s)
    def read_place(self, fr, p):
        k = p[0]
        if k == 'local': return fr[p[1]].v
        if k == 'deref':
            r = self.read_place(fr, p[1]); assert isinstance(r, Ref), (p, r); return self.ref_get(r)
        if k == 'downcast': return self.read_place(fr, p[1])
        if k == 'field':
            base = self.read_place(fr, p[1])
            if isinstance(base, Adt): self.force(base)
            return base.fields[p[2]]
    def place_ref(self, fr, p):
        k = p[0]
        if k == 'local': return Ref(fr[p[1]])
        if k == 'deref':
            r = self.read_place(fr, p[1]); assert isinstance(r, Ref), r; return r
        if k == 'downcast': return self.place_ref(fr, p[1])
        if k == 'field':
            r = self.place_ref(fr, p[1]); b = self.ref_get(r)
            if isinstance(b, Adt): self.force(b)
            return Ref(r.cell, r.path + (p[2],))
    def ref_get(self, r):
        v = r.cell.v
        for i in r.path:
            if isinstance(v, Adt): self.force(v)
            try: v = v.fields[i]
            except Exception: raise Abort(f'field {i} of {v!r} path {r.path}')
        return v
    def ref_set(self, r, val):
        if not r.path: r.cell.v = val; return
        v = r.cell.v
        for i in r.path[:-1]: v = v.fields[i]
        v.fields[r.path[-1]] = val

    def operand(self, fr, s):
        s = s.strip()
        if s.startswith(('copy ', 'move ')): return self.read_place(fr, self.parse_place(s[5:]))
        if s.startswith('const '):
            c = s[6:]
            if c in ('true', 'false'): return c == 'true'
            m = re.fullmatch(r'(-?[\d.eE+-]+)f64', c)
            if m: return z3.FPVal(float(m.group(1)), F64)
            m = re.fullmatch(r'(-?\d+)_(i|u)(size|\d+)', c)
            if m: return int(m.group(1))
            if 'SizedTypeProperties>::ALIGN' in c: return 8
            if c.startswith('ZeroSized: {closure@'):
                fn, kind = CLOSURES[c[len('ZeroSized: '):]]; return Closure(fn, kind)
            raise Abort('const? ' + c)
        raise Abort('operand? ' + s)

    def rvalue(self, fr, s, dest_ty=''):
        s = s.strip()
        if s.startswith('&'):
            t = s[1:]
            for pre in ('mut ', 'raw const ', 'raw mut '):
                if t.startswith(pre): t = t[len(pre):]
            return self.place_ref(fr, self.parse_place(t))
        m = re.fullmatch(r'discriminant\((.*)\)', s)
        if m:
            v = self.read_place(fr, self.parse_place(m.group(1))); self.force(v); return v.variant
        m = re.fullmatch(r'(Eq|Ne|Lt|Le|Gt|Ge|Add|Sub|Mul|Div|BitAnd)\((.*)\)', s)
        if m:
            a, b = [self.operand(fr, x) for x in split_top(m.group(2))]; op = m.group(1)
            if z3.is_fp(a) or z3.is_fp(b):
                return {'Add': lambda: z3.fpAdd(RNE, a, b), 'Sub': lambda: z3.fpSub(RNE, a, b), 'Mul': lambda: z3.fpMul(RNE, a, b),
                        'Div': lambda: z3.fpDiv(RNE, a, b), 'Eq': lambda: z3.fpEQ(a, b), 'Ne': lambda: z3.fpNEQ(a, b)}[op]()
            if isinstance(a, Ref) or isinstance(b, Ref): raise Abort('ptr cmp')
            return {'Eq': lambda: a == b, 'Ne': lambda: a != b, 'Sub': lambda: a - b, 'Add': lambda: a + b,
                    'BitAnd': lambda: (a and b) if isinstance(a, bool) else (a & b)}[op]()
        m = re.fullmatch(r'(Not|Neg)\((.*)\)', s)
        if m:
            a = self.operand(fr, m.group(2))
            if m.group(1) == 'Neg': return z3.fpNeg(a) if z3.is_fp(a) else -a
            return (not a) if isinstance(a, bool) else z3.Not(a)
        m = re.fullmatch(r'(.*) as (.*) \((\w+)\)', s)
        if m:
            v = self.operand(fr, m.group(1)); kind = m.group(3)
            if kind == 'Transmute' and m.group(2).startswith('*const'):
                while isinstance(v, Adt): v = v.fields[0]
                return v
            if kind == 'PtrToPtr': return v
            if kind == 'Transmute' and m.group(2) == 'usize': return v.cell.addr
            raise Abort('cast? ' + s)
        if s.startswith(('copy ', 'move ', 'const ', 'no_retag ')):
            return self.operand(fr, s[9:] if s.startswith('no_retag ') else s)
        m = re.fullmatch(r'(\{closure@[^}]*\}) \{ (.*) \}', s)
        if m:
            fn, kind = CLOSURES[m.group(1)]
            return Closure(fn, kind, [self.operand(fr, x.split(': ', 1)[1]) for x in split_top(m.group(2))])
        m = re.fullmatch(r'((?:\w+::)*)(\w+)(?:::<.*?>)?(?:::(\w+))?(?:\((.*)\)| \{ (.*) \})?', s)
        if m:
            _, a, b, targs, sargs = m.groups()
            if b is not None and a in ENUMS:      # Enum::Variant(args)
                fields = [self.operand(fr, x) for x in split_top(targs)] if targs else []
                return Adt(a, ENUMS[a].index(b), fields)
            if b is None and targs is not None: return Adt(a, 0, [self.operand(fr, x) for x in split_top(targs)])   # tuple struct
            if b is None and sargs is not None: return Adt(a, 0, [self.operand(fr, x.split(': ', 1)[1]) for x in split_top(sargs)])
            if b is None and targs is None and sargs is None:      # bare variant or unit struct
                for ty, vs in ENUMS.items():
                    if a in vs and ty in dest_ty: return Adt(ty, vs.index(a), [])
                return Adt(a, 0, [])
        raise Abort('rvalue? ' + s)

    # ----- iterators
    def it_next(self, it):
        k = it.kind
        if k == 'once':
            if it.a[0] is None: return None
            v, it.a[0] = it.a[0], None; return (v,)
        if k == 'slice':
            lst, pos = it.a
            if pos >= len(lst.items): return None
            it.a[1] += 1; return (Ref(Cell(lst), (('idx', pos),)) if False else self.elem_ref(lst, pos),)
        if k == 'chain':
            r = self.it_next(it.a[0]) if it.a[0] else None
            if r is None: it.a[0] = None; return self.it_next(it.a[1])
            return r
        if k == 'map':
            r = self.it_next(it.a[0])
            return None if r is None else (self.call_closure(it.a[1], [r[0]]),)
        raise Abort('iter? ' + k)
    def elem_ref(self, lst, pos):
        c = Cell(lst.items[pos]); return Ref(c)     # read-only use in this spike
    def call_closure(self, clo, args):
        f = FNS[clo.fn]
        selfarg = clo if clo.kind == 'once' else Ref(Cell(clo))
        return self.run(f, [selfarg] + list(args), self_ty=None)

    # ----- calls
    def resolve(self, callee, self_ty):
        m = re.fullmatch(r'<(\w+)(?:<.*>)? as (\w+)(?:<.*>)?>::(\w+)', callee)
        if m:
            ty, tr, meth = m.groups()
            if ty == 'Self': ty = self_ty
            if (tr, ty, meth) in IMPL: return FNS[IMPL[(tr, ty, meth)]], ty
            if f'{tr}::{meth}' in FNS: return FNS[f'{tr}::{meth}'], ty
        return None, None
    def call(self, callee, args, self_ty):
        f, sty = self.resolve(callee, self_ty)
        if f: return self.run(f, args, self_ty=sty)
        if callee.endswith(' as Try>::branch'):
            r = args[0]
            return Adt('ControlFlow', 0, [r.fields[0]]) if r.variant == 0 else Adt('ControlFlow', 1, [Adt('Result', 1, [r.fields[0]])])
        if '>::from_residual' in callee: return Adt('Result', 1, [args[0].fields[0]])
        if callee.startswith('once::<'): return It('once', args[0])
        if callee.endswith(' as Deref>::deref') and callee.startswith('<Vec<'):
            return Ref(Cell(self.deref(args[0]).fields[0]))
        if re.match(r'core::slice::<impl \[.*\]>::iter$', callee): return It('slice', self.deref(args[0]), 0)
        if ' as Iterator>::chain::<' in callee: return It('chain', args[0], args[1])
        if ' as Iterator>::map::<' in callee: return It('map', args[0], args[1])
        if ' as Iterator>::try_fold::<' in callee:
            it, acc, f = self.deref(args[0]), args[1], args[2]
            while True:
                r = self.it_next(it)
                if r is None: return Adt('Result', 0, [acc])
                res = self.call_closure(f, [acc, r[0]])
                if res.variant == 1: return res
                acc = res.fields[0]
        if re.match(r'std::result::Result::<.*>::map::<', callee):
            r, f = args
            return Adt('Result', 0, [self.call_closure(f, [r.fields[0]])]) if r.variant == 0 else r
        if callee == 'core::bool::<impl bool>::then::<std::result::Result<NumericConstant, ConstantFoldingError>, {closure@src/analysis/tools.rs:71:19: 71:21}>' or 'impl bool>::then::<' in callee:
            b, f = args
            return Adt('Option', 1, [self.call_closure(f, [])]) if self.branch(b) else Adt('Option', 0, [])
        if re.match(r'Option::<.*>::unwrap_or$', callee):
            o, d = args; return d if o.variant == 0 else o.fields[0]
        if callee.endswith('>::is_empty') and 'Vec' in callee: return len(self.deref(args[0]).fields[0].items) == 0
        if callee == '<SourceRange as Clone>::clone': return self.deref(args[0])
        m = re.fullmatch(r'<.* as Into<(\w+)>>::into', callee)
        if m and ('From', m.group(1), 'from') in IMPL: return self.run(FNS[IMPL[('From', m.group(1), 'from')]], args)
        if callee in ('<f64 as Neg>::neg',): return z3.fpNeg(args[0])
        m = re.fullmatch(r'<f64 as (Add|Sub|Mul|Div)>::\w+', callee)
        if m: return {'Add': z3.fpAdd, 'Sub': z3.fpSub, 'Mul': z3.fpMul, 'Div': z3.fpDiv}[m.group(1)](RNE, args[0], args[1])
        raise Abort('callee? ' + callee)
    def deref(self, v): return self.ref_get(v) if isinstance(v, Ref) else v

    def run(self, f, args, self_ty=None):
        class FR(dict):
            def __missing__(s, k): s[k] = Cell(); return s[k]
        fr = FR()
        for i, a in enumerate(args): fr[f'_{i+1}'].v = a
        bb = 'bb0'
        while True:
            for line in f.blocks[bb]:
                STATS['steps'] += 1
                if line.startswith(('StorageLive', 'StorageDead', 'FakeRead', 'PlaceMention', 'nop', 'Retag', 'AscribeUserType', '//')): continue
                if line == 'return;': return fr['_0'].v
                if line == 'unreachable;': raise Panic('unreachable')
                m = re.fullmatch(r'goto -> (bb\d+);', line)
                if m: bb = m.group(1); break
                m = re.fullmatch(r'drop\(.*\) -> \[return: (bb\d+), unwind.*\];', line)
                if m: bb = m.group(1); break
                m = re.fullmatch(r'assert\((!?)(.*?), ".*\) -> \[success: (bb\d+), unwind.*\];', line)
                if m:
                    v = self.operand(fr, m.group(2))
                    if m.group(1): v = (not v) if isinstance(v, bool) else z3.Not(v)
                    if not self.branch(v): raise Panic(line[:60])
                    bb = m.group(3); break
                m = re.fullmatch(r'switchInt\((.*)\) -> \[(.*)\];', line)
                if m:
                    v = self.operand(fr, m.group(1)); d = dict(t.split(': ') for t in m.group(2).split(', '))
                    if isinstance(v, bool): v = int(v)
                    if isinstance(v, int): bb = d.get(str(v), d.get('otherwise'))
                    else: bb = (d.get('otherwise') or d['1']) if self.branch(v) else d['0']
                    break
                m = re.fullmatch(r'(.*?) = (.*) -> \[return: (bb\d+), unwind.*\];', line)
                if m and not m.group(2).startswith('&'):
                    dest, callexpr, nxt = m.groups(); d = 0
                    for i in range(len(callexpr) - 1, -1, -1):   # arg list = last balanced (...) group
                        c = callexpr[i]
                        if c == ')': d += 1
                        elif c == '(':
                            d -= 1
                            if d == 0: break
                    callee, argstr = callexpr[:i], callexpr[i+1:-1]
                    argv = [self.operand(fr, a) for a in split_top(argstr)]
                    r = self.call(callee, argv, self_ty)
                    self.ref_set(self.place_ref(fr, self.parse_place(dest)), r); bb = nxt; break
                m = re.fullmatch(r'(.*?) = (.*);', line)
                if m:
                    dname = m.group(1).strip()
                    v = self.rvalue(fr, m.group(2), f.localtypes.get(dname, ''))
                    self.ref_set(self.place_ref(fr, self.parse_place(dname)), v); continue
                raise Abort('stmt? ' + line)

# ------------------------------------------------------------ reference folder (host side) + harness
def ref_fold(vm, e):
    """returns ('ok', fp) or ('err',) on the forced host tree (spec of what must fold)."""
    v = ENUMS['Expression'][e.variant]
    if v == 'PrimaryExpression':
        p = e.fields[0]
        if ENUMS['PrimaryExpression'][p.variant] == 'Literal':
            lit = p.fields[0].fields[0]
            return ('ok', lit.fields[0]) if ENUMS['LiteralExpression'][lit.variant] == 'Number' else ('err',)
        return ('err',)
    if v == 'UnaryExpression':
        u = e.fields[0]; r = ref_fold(vm, u.fields[1].fields[0].fields[0].fields[0].cell.v)
        if ENUMS['UnaryOperator'][u.fields[0].variant] != 'Minus': return ('err',)     # note: operand folded first in impl; err either way
        return ('ok', z3.fpNeg(r[1])) if r[0] == 'ok' else r
    b = e.fields[0]; op = ENUMS['BinaryOperator'][b.fields[0].variant]
    acc = ref_fold(vm, b.fields[1].fields[0].fields[0].fields[0].cell.v)
    if acc[0] != 'ok': return acc
    lst = b.fields[2].fields[0].fields[0].fields[0].cell.v
    for x in [lst.fields[0]] + lst.fields[1].fields[0].items:
        if op not in ('Plus', 'Minus', 'Multiply', 'Divide'): return ('err',)
        r = ref_fold(vm, x)
        if r[0] != 'ok': return r
        acc = ('ok', {'Plus': z3.fpAdd, 'Minus': z3.fpSub, 'Multiply': z3.fpMul, 'Divide': z3.fpDiv}[op](RNE, acc[1], r[1]))
    return acc

def force_all(vm, e):   # make sure the reference sees a fully forced tree (only parts the impl did not look at)
    vm.force(e)
    for f in e.fields:
        if isinstance(f, Adt): force_all(vm, f)
        elif isinstance(f, Ref) and isinstance(f.cell.v, Adt): force_all(vm, f.cell.v)
        elif isinstance(f, HList):
            for x in f.items: force_all(vm, x)

viol = []
def harness(vm, depth):
    e = vm.lazy('Expression', depth)
    folder = Adt('NumericConstantFolder', 0, [])
    f, sty = vm.resolve('<NumericConstantFolder as VisitExpr>::visit_expression', None)
    r = vm.run(f, [Ref(Cell(folder)), Ref(Cell(e))], self_ty=sty)
    force_all(vm, e)
    want = ref_fold(vm, e)
    got = ('ok', r.fields[0].fields[0]) if r.variant == 0 else ('err',)
    if want[0] != got[0]: viol.append(('kind', want[0], got[0], repr(e)[:300])); return
    if want[0] == 'ok':
        a, b = z3.fpToIEEEBV(want[1]), z3.fpToIEEEBV(got[1])
        s = z3.Solver(); s.add(*vm.pc)
        s.add(z3.Not(z3.Or(a == b, z3.And(z3.fpIsNaN(want[1]), z3.fpIsNaN(got[1])))))
        t = time.time(); res = s.check(); STATS['solver_s'] += time.time() - t; STATS['queries'] += 1
        if res != z3.unsat: viol.append(('value', res, s.model() if res == z3.sat else None, repr(e)[:300]))

def explore(h, *a):
    fk = Forker()
    while True:
        fk.pos = 0; vm = VM(fk)
        try: h(vm, *a); STATS['paths'] += 1
        except Abort as ex:
            if str(ex) != 'infeasible': raise
        while fk.pending:
            pos, n = fk.pending[-1]
            if fk.trail[pos] + 1 < n:
                fk.trail[pos] += 1; del fk.trail[pos+1:]; fk.pending = [p for p in fk.pending if p[0] <= pos]; break
            fk.pending.pop()
        else: return

for depth in (1,):
    t0 = time.time(); explore(harness, depth)
    print('depth', depth, STATS, 'viol', len(viol), f'{time.time()-t0:.1f}s')
for v in viol[:8]: print(v)
