import z3, time
F=z3.Float64(); RNE=z3.RNE()
def powi(a,b):
    recip=b<0; b=abs(b); r=1.0
    while True:
        if b&1: r*=a
        b//=2
        if b==0: break
        a*=a
    return 1/r if recip else r
def run(nd, dot):   # nd digits, 'dot' digits before the point
    ds=[z3.BitVec(f'd{i}',8) for i in range(nd)]
    s=z3.Solver(); s.set('timeout',120000)
    for d in ds: s.add(z3.ULE(d,9))
    exp=dot-1
    acc=z3.FPVal(0.0,F)   # Sum::sum starts from 0.0 (actually -0.0 in newer std; probe only)
    for i,d in enumerate(ds):
        term=z3.fpMul(RNE, z3.fpUnsignedToFP(RNE,d,F), z3.FPVal(powi(10.0,exp-i),F))
        acc=z3.fpAdd(RNE,acc,term)
    # reference: N / 10^k
    N=z3.BitVecVal(0,64)
    for d in ds: N=N*10+z3.ZeroExt(56,d)
    k=nd-dot
    ref=z3.fpDiv(RNE, z3.fpUnsignedToFP(RNE,N,F), z3.FPVal(float(10**k),F))
    a=z3.fpToIEEEBV(acc); b=z3.fpToIEEEBV(ref)
    diff=z3.If(z3.UGE(a,b),a-b,b-a)
    s.add(z3.UGT(diff,4))
    t=time.time(); r=s.check(); 
    print(nd,dot,r,f'{time.time()-t:.1f}s', s.model() if r==z3.sat else '')
for nd,dot in [(2,1),(3,1),(4,2),(5,2),(6,3),(6,1)]:
    run(nd,dot)
