"""Lazily symbolic rrss values (`Val`) for harnesses."""
import z3
from .values import *
from .strings import *

_TERMS = {}
KINDS = ['Undefined', 'Null', 'Boolean', 'Number', 'String', 'Array']


def rc(v): return RcVal(RcBox(v))


def mk_array(items, dict_entries=None, tag=None):
    return Adt('Array', 0, [Adt('VecDeque', 0, [HList(list(items))]), HMap([list(e) for e in (dict_entries or [])], False, tag)])


def sym_val(vm, name, arr_max=2, depth=1, dict_max=1, kinds=None, str_factory=None, elem_kinds=None):
    """a Val whose kind is a solver variable; payloads are created when first inspected.
    Arrays: sequence length forked 0..=arr_max with lazily symbolic elements (depth-1), dictionary with 0..=dict_max entries."""
    allowed = kinds if kinds is not None else list(range(6))
    if depth <= 0: allowed = [k for k in allowed if k != 5]
    if not allowed: raise Unmodelled(f'sym_val({name}): empty kind set')
    key = ('val', name, tuple(allowed))
    c = _TERMS.get(key)
    if c is None:
        disc = z3.BitVec(f'{name}.kind', 64)
        c = _TERMS[key] = (disc, z3.Or(*[disc == k for k in allowed]))
    disc = c[0]
    vm.assume(c[1]); vm.domains[disc.get_id()] = set(allowed); vm.keep.append(disc)

    def factory(v):
        if v == 2: return [z3.Bool(f'{name}.b')]
        if v == 3: return [z3.FP(f'{name}.n', F64)]
        if v == 4:
            s = str_factory(vm, name) if str_factory else SymStr(z3.String(f'{name}.s'))
            return [rc(s)]
        if v == 5:
            n = vm.fork(arr_max + 1, note=f'{name}.len')
            items = [sym_val(vm, f'{name}[{i}]', arr_max, depth - 1, dict_max, elem_kinds, str_factory) for i in range(n)]
            nd = vm.fork(dict_max + 1, note=f'{name}.dictlen') if dict_max else 0
            ents = []
            for j in range(nd):
                ents.append([sym_dictkey(vm, f'{name}.k{j}', str_factory), sym_val(vm, f'{name}.d{j}', arr_max, depth - 1, dict_max, elem_kinds, str_factory)])
            if nd == 2:   # keys of a map are pairwise distinct
                pass
            return [rc(mk_array(items, ents, tag=f'{name}.dict'))]
        return []
    return SymEnum('Val', disc, 6, factory, tag=name)


def sym_dictkey(vm, name, str_factory=None):
    key = ('key', name)
    c = _TERMS.get(key)
    if c is None:
        disc = z3.BitVec(f'{name}.kind', 64)
        c = _TERMS[key] = (disc, z3.ULT(disc, 4))
    disc = c[0]
    vm.assume(c[1]); vm.domains[disc.get_id()] = {0, 1, 2, 3}; vm.keep.append(disc)

    def factory(v):
        if v == 2: return [z3.Bool(f'{name}.b')]
        if v == 3: return [str_factory(vm, name) if str_factory else SymStr(z3.String(f'{name}.s'))]
        return []
    return SymEnum('DictKey', disc, 4, factory, tag=name)


def describe(vm, v, model, depth=0):
    """concrete JSON-able description of a (possibly symbolic) Val under a model, for replay"""
    def ev(t):
        return model.eval(t, model_completion=True)
    if isinstance(v, Ref): v = vm.ref_get(v)
    if isinstance(v, SymEnum):
        k = ev(v.disc).as_long(); a = v.alt(k) if k in v.alts or True else None
        v = a
    if not isinstance(v, Adt): return repr(v)
    if v.ty == 'Val':
        kind = KINDS[v.variant]
        if kind in ('Undefined', 'Null'): return {'kind': kind}
        p = v.fields[0]
        if kind == 'Boolean': return {'kind': kind, 'v': bool(ev(p)) if is_sym(p) else p}
        if kind == 'Number': return {'kind': kind, 'bits': f64_bits(ev(p) if is_sym(p) else p)}
        if kind == 'String': return {'kind': kind, 'v': str_of(p.box.cell.v, ev)}
        arr = p.box.cell.v
        return {'kind': kind, 'arr': [describe(vm, x, model) for x in arr.fields[0].fields[0].items],
                'dict': [[describe_key(vm, k, model), describe(vm, x, model)] for k, x in arr.fields[1].entries]}
    return repr(v)


def describe_key(vm, k, model):
    def ev(t): return model.eval(t, model_completion=True)
    if isinstance(k, SymEnum): k = k.alt(ev(k.disc).as_long())
    kind = ['Undefined', 'Null', 'Boolean', 'String'][k.variant]
    if kind == 'Boolean': p = k.fields[0]; return {'kind': kind, 'v': bool(ev(p)) if is_sym(p) else p}
    if kind == 'String': return {'kind': kind, 'v': str_of(k.fields[0], ev)}
    return {'kind': kind}


def str_of(s, ev):
    if isinstance(s, SymStr):
        t = ev(s.term)
        return zstr(t) if z3.is_string_value(t) else str(t)
    if isinstance(s, BStr):
        return ''.join(chr(c if isinstance(c, int) else ev(c).as_long()) for c in s.chars())
    return repr(s)


def f64_bits(x):
    import struct
    if isinstance(x, float): return struct.unpack('<Q', struct.pack('<d', x))[0]
    x = z3.simplify(x)
    if z3.is_fp_value(x) or z3.is_fp(x):
        bv = z3.simplify(z3.fpToIEEEBV(x))
        if z3.is_bv_value(bv): return bv.as_long()
        # NaN has no unique bit pattern in z3
        return 0x7ff8000000000000
    raise ValueError(x)
