"""CLI: python3-vt -m mirsym.run --property Cxx --tier quick|thorough
Pipeline (DESIGN.md §2.1): scratch copy -> MIR dumps -> parse -> translator validation -> symbolic exploration of the
property's harnesses -> native replay of every counterexample -> evidence + exit code."""
import argparse, importlib, json, os, sys, time, hashlib, re, traceback

VERIF = os.path.dirname(os.path.dirname(os.path.abspath(__file__)))


class Ctx:
    def __init__(self, ws, tier, seed):
        self.ws, self.tier, self.seed = ws, tier, seed
        self.mirs = {}
        self._natives = {}

    def mir(self, profile):
        if profile not in self.mirs: self.mirs[profile] = self.ws.load(profile)
        return self.mirs[profile]

    def native(self, profile='dev'):
        from .native import Native
        if profile not in self._natives: self._natives[profile] = Native(self.ws, profile)
        return self._natives[profile]

    def close(self):
        for n in self._natives.values(): n.close()


def load_known():
    p = os.path.join(VERIF, 'known_findings.json')
    if not os.path.exists(p): return []
    return json.load(open(p)).get('findings', [])


def match_known(known, pid, role):
    for k in known:
        if k.get('property') != pid or k.get('status') != 'known': continue
        if re.search(k['role'], role): return k
    return None


def main(argv=None):
    ap = argparse.ArgumentParser()
    ap.add_argument('--property', required=True)
    ap.add_argument('--tier', default=os.environ.get('VERIF_TIER', 'quick'), choices=['quick', 'thorough'])
    ap.add_argument('--keep', action='store_true', help='keep the scratch workspace (debugging)')
    ap.add_argument('--only', default=None, help='run only jobs whose name contains this')
    ap.add_argument('--no-validate', action='store_true')
    ap.add_argument('--jobs', type=int, default=None)
    a = ap.parse_args(argv)
    pid, tier = a.property, a.tier
    seed = int(os.environ.get('VERIF_SEED', '0') or 0)
    t0 = time.time()
    from .load import Workspace
    from . import harness as H
    prop = importlib.import_module(f'mirsym.props.{pid}')
    keep = a.keep or bool(os.environ.get('VERIF_KEEP'))
    ws = Workspace(keep=keep)
    ctx = Ctx(ws, tier, seed)
    ev_path = os.path.join(os.environ.get('VERIF_EVIDENCE_DIR') or os.path.join(VERIF, 'evidence'), f'{pid}.json')      # VERIF_EVIDENCE_DIR: runs on modified trees (seeded changes) must not overwrite the evidence of the unchanged tree
    os.makedirs(os.path.dirname(ev_path), exist_ok=True)
    rc = 2
    try:
        for p in prop.PROFILES: ctx.mir(p)
        # load char tables from the real std
        from . import chartab
        try:
            chartab.load(ctx.native('dev').call({'op': 'chartab', 'cps': chartab.table_chars(ws.src)}))
        except Exception as e:
            print(f'INCONCLUSIVE property={pid} native helper unavailable: {e}'); return 2
        # conformance of the std models with the real std (same vectors computed natively and through the model registry)
        from . import stdcheck
        std_ok, std_bad = stdcheck.check(ctx.native('dev'))
        if std_bad:
            for b in std_bad[:10]: print('STD-MODEL-MISMATCH', json.dumps(b, default=str)[:400])
            print(f'INCONCLUSIVE property={pid} std model conformance failed on {len(std_bad)} vectors (exit 2, nothing is claimed)')
            return 2
        t_setup = time.time() - t0
        # ---- translator validation (licence to issue a verdict)
        val_ok, val_bad = std_ok, []
        if not a.no_validate and hasattr(prop, 'validate'):
            val_ok, val_bad = prop.validate(ctx)
            val_ok += std_ok
            if val_bad:
                for b in val_bad[:10]: print('ENCODING-MISMATCH', json.dumps(b, default=str)[:600])
                print(f'INCONCLUSIVE property={pid} translator validation failed on {len(val_bad)} vectors (exit 2, nothing is claimed)')
                write_evidence(ev_path, pid, tier, seed, prop, [], val_ok, val_bad, [], [], time.time() - t0, 'encoding-invalid', ctx)
                return 2
        t_val = time.time() - t0 - t_setup
        jobs = prop.jobs(ctx, tier)
        if a.only: jobs = [j for j in jobs if a.only in j.name]
        results = H.run_jobs(ctx.mirs, jobs, tier, seed, a.jobs)
        post = prop.post_check(ctx, results) if hasattr(prop, 'post_check') else None
        # ---- cross-solver audit of a sample of the discharged (unsat) assertion queries
        from . import xsolver
        xs = None
        if not os.environ.get('VERIF_NO_XSOLVER'):
            try: xs = xsolver.audit(results, tier)
            except Exception as e: xs = {'error': f'{type(e).__name__}: {e}', 'disagreements': []}
        for r in results: r.pop('xqueries', None)
        if post and post.get('violations'):
            # findings produced outside the job pool (e.g. natively executed exhaustive parts): triaged like all others
            results.append({'job': 'post-check', 'profile': 'dev', 'status': 'ok', 'error': None, 'stats': {}, 'wall_s': 0, 'finding_counts': {}, 'samples': [], 'fns': {}, 'models': {},
                            'findings': [dict(kind='violation', role=v['role'], detail=v['detail'], cex=v.get('cex'), notes=[], native_found=True) for v in post['violations']]})
        # ---- triage
        known = load_known()
        inconclusive = [r for r in results if r['status'] != 'ok']
        if post and post.get('functions_not_executed') and not a.only:
            inconclusive.append({'job': 'inventory', 'status': 'inconclusive', 'error': f'crash-site functions never executed by any harness path: {post["functions_not_executed"][:12]}'})
        for dgr in (xs or {}).get('disagreements', []):
            inconclusive.append({'job': dgr['job'], 'status': 'inconclusive', 'error': f'cross-solver audit: {dgr["solver"]} answers sat on a query z3 5.1 answered unsat (encoding not trusted, nothing is claimed)'})
        violations, known_hits = [], []
        replayed = 0
        for r in results:
            for f in r['findings']:
                rep = prop.replay(ctx, f) if hasattr(prop, 'replay') else {'reproduced': None}
                f['replay'] = rep
                replayed += 1
                if rep.get('reproduced') is False:
                    inconclusive.append({'job': r['job'], 'status': 'inconclusive', 'error': f'counterexample did not reproduce natively (encoding or model error): {f["role"]} {json.dumps(f.get("cex"), default=str)[:300]}'})
                    continue
                k = match_known(known, pid, f['role'])
                (known_hits if k else violations).append((r, f, k))
        os.makedirs(os.path.join(VERIF, 'replays', pid), exist_ok=True)
        printed = set()
        for r, f, k in known_hits:
            key = k['role']
            if key in printed: continue
            printed.add(key)
            print(f'KNOWN-FINDING: property={pid} {k["what"]}')
        vio_paths = []
        for r, f, _ in violations:
            h = hashlib.sha1(json.dumps(f, sort_keys=True, default=str).encode()).hexdigest()[:10]
            p = os.path.join(VERIF, 'replays', pid, f'{h}.json')
            with open(p, 'w') as fh: json.dump({'property': pid, 'job': r['job'], 'profile': r['profile'], 'finding': f,
                                                'replay_cmd': f'python3-vt -m mirsym.replay {p}'}, fh, indent=1, default=str)
            vio_paths.append(p)
            print(f'VIOLATION property={pid} replay={p}')
            print(f'  role={f["role"]} detail={f["detail"][:200]} cex={json.dumps(f.get("cex"), default=str)[:400]}')
        for r in inconclusive:
            print(f'INCONCLUSIVE property={pid} job={r["job"]}: {r["error"]}')
        status = 'violations' if violations else ('inconclusive' if inconclusive else 'held')
        write_evidence(ev_path, pid, tier, seed, prop, results, val_ok, val_bad, violations, known_hits, time.time() - t0, status, ctx,
                       timing={'setup_s': round(t_setup, 1), 'validate_s': round(t_val, 1)}, replayed=replayed, post=post, xsolver=xs)
        tot = lambda k: sum(r['stats'].get(k, 0) for r in results)
        print(f'{pid} {tier}: {status}; jobs={len(results)} paths={tot("paths")} queries={tot("queries")} (sat {tot("sat")}, unsat {tot("unsat")}, unknown {tot("unknown")}) '
              f'solver_s={tot("solver_s"):.1f} validated_vectors={val_ok} wall={time.time() - t0:.0f}s')
        rc = 1 if violations else (2 if inconclusive else 0)
    except Exception as e:
        traceback.print_exc()
        print(f'INCONCLUSIVE property={pid} internal error: {e}')
        rc = 2
    finally:
        ctx.close()
        if not keep and not os.environ.get('VERIF_SHARED_WS'):
            ws.cleanup()
    return rc


def write_evidence(path, pid, tier, seed, prop, results, val_ok, val_bad, violations, known_hits, wall, status, ctx, timing=None, replayed=0, post=None, xsolver=None):
    tot = lambda k: sum(r['stats'].get(k, 0) for r in results)
    fns = {}
    for r in results:
        for k, v in r.get('fns', {}).items(): fns[k] = fns.get(k, 0) + v
    models = {}
    for r in results:
        for k, v in r.get('models', {}).items(): models[k] = models.get(k, 0) + v
    hashes = {}
    for prof, mir in ctx.mirs.items():
        for k in fns:
            f = mir.fns.get(k)
            if f is not None: hashes.setdefault(k, {})[prof] = f.text_hash
    samples = []
    for r in results:
        for s in r.get('samples', [])[:2]:
            samples.append(dict(s, job=r['job']))
    samples = samples[:12] or [{'note': 'no path completed'}]
    nontrivial = tot('nontrivial_paths')
    ev = {
        'property_id': pid, 'tier': tier, 'seed': seed, 'level': 'model_checking',
        'coverage': {
            'states': max(tot('paths'), 0), 'transitions': tot('decisions') + tot('infeasible'),
            'traces_validated_against_impl': val_ok + replayed,
            'samples': samples,
            'evaluations': tot('queries') + tot('model_hits'), 'distinct_nontrivial': nontrivial,
            'rule': getattr(prop, 'RULE', 'one state = one feasible path end of a harness (distinct decision sequence over symbolic inputs); transitions = branch decisions taken + solver-pruned branches') +
                    ' | states = feasible path ends (each a distinct decision sequence); distinct_nontrivial = those whose path condition holds at least one constraint over symbolic inputs (counted per path; paths that only made free shape / enumeration choices are not counted); evaluations = solver queries discharged + branch decisions answered from a cached model',
            'exhaustive': status in ('held', 'violations') and all(r['status'] == 'ok' for r in results),
            'status': status,
            'bounds': getattr(prop, 'BOUNDS', {}),
            'outside_bounds': getattr(prop, 'OUTSIDE', []),
            'jobs': [{'job': r['job'], 'profile': r.get('profile'), 'status': r['status'], 'error': r.get('error'), 'wall_s': r.get('wall_s'),
                      **{k: r['stats'].get(k) for k in ('paths', 'infeasible', 'steps', 'queries', 'sat', 'unsat', 'unknown', 'solver_s', 'decisions', 'model_hits')},
                      'findings': r.get('finding_counts', {})} for r in results],
            'queries': {'total': tot('queries'), 'sat': tot('sat'), 'unsat': tot('unsat'), 'unknown': tot('unknown'), 'answered_from_cached_model': tot('model_hits')},
            'solver': 'z3 ' + _z3v(), 'solver_s': round(tot('solver_s'), 2), 'mir_steps': tot('steps'),
            'functions_encoded': {k: {'calls': v, 'mir_hash': hashes.get(k)} for k, v in sorted(fns.items())},
            'std_models_used': models,
            'translator_validation': {'vectors_agreeing': val_ok, 'disagreeing': len(val_bad)},
            'counterexamples': [{'job': r['job'], 'role': f['role'], 'detail': f['detail'][:300], 'cex': f.get('cex'), 'replay': f.get('replay'), 'known': bool(k)}
                                for (r, f, k) in list(violations) + list(known_hits)][:20],
            'timing': timing or {},
            'inventory': post or {},
            'cross_solver_audit': xsolver or {},
            'tree_hash': ctx.ws.hash,
        },
        'assumptions': list(getattr(prop, 'ASSUMPTIONS', [])),
        'wall_s': round(wall, 1),
        'violations': len(violations),
    }
    if ev['coverage']['states'] < 1 or ev['coverage']['transitions'] < 1:
        # nothing was explored (e.g. the translator validation failed): not model-checking evidence
        ev['level'] = 'other'
        ev['coverage']['explanation'] = f'no exploration took place in this run (status: {status}); the run is inconclusive (exit 2) and nothing is claimed'
    with open(path + '.tmp', 'w') as f: json.dump(ev, f, indent=1, default=str)
    os.replace(path + '.tmp', path)


def _z3v():
    import z3
    return z3.get_version_string()


if __name__ == '__main__':
    sys.exit(main())
