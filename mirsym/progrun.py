"""Running whole Rockstar programs through the real parser and interpreter inside the VM (concrete or symbolic)."""
from .values import *
from .strings import *
from .std import conc
from .std_io import out_stream, in_stream


def find_fn(mir, suffix):
    for name, f in mir.fns.items():
        if name == suffix or name.endswith('::' + suffix): return f
    raise Unmodelled(f'function {suffix} not found in the MIR')


def parse_in_vm(vm, mir, text):
    """frontend::parser::parse on a string value; returns Result<Program, ParseError> Adt"""
    f = [x for x in mir.by_name.get('parse', []) if x.name.endswith('frontend::parser::parse') or x.name == 'parser::parse' or x.name == 'parse']
    f = [x for x in f if 'cli' not in x.name]
    if not f: raise Unmodelled('frontend::parser::parse not found')
    s = text if not isinstance(text, str) else bstr_from_py(text)
    return vm.run_fn(f[0], [s])


def exec_in_vm(vm, mir, program, stdin_lines=(), out_fail_at=None, in_fail_at=None, out_fail_mode='error', chunked=False):
    """exec::exec_using(input, output, &program) with model streams; returns (Result Adt, out stream data, in stream data)"""
    f = find_fn(mir, 'exec_using')
    out = out_stream(out_fail_at, out_fail_mode); inp = in_stream(stdin_lines, in_fail_at, chunked)
    ocell = Cell(out)
    r = vm.run_fn(f, [inp, Ref(ocell), Ref(Cell(program)) if not isinstance(program, Ref) else program], {'In': 'VerifIn', 'Out': '&mut VerifOut'})
    return r, out.data, inp.data


def text_of(vm, s):
    from .std_str import S, _bounded
    b = _bounded(vm, S(vm, s))
    return ''.join(chr(c) if isinstance(c, int) else '?' for c in b.chars())
