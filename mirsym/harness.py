"""Harness plumbing: jobs, findings, parallel exploration."""
import os, sys, time, json, traceback, multiprocessing, hashlib, threading
sys.setrecursionlimit(100000); threading.stack_size(512 * 1024 * 1024)
import z3
from .values import *
from .vm import VM, Explorer, Violation


class Job:
    def __init__(self, name, fn, args=(), profile='dev', fuel=2_000_000, timeout_ms=None, max_paths=None, witness=None, str_mode='opaque', weight=1):
        self.name, self.fn, self.args, self.profile = name, fn, tuple(args), profile
        self.fuel, self.timeout_ms, self.max_paths = fuel, timeout_ms, max_paths
        self.witness = witness or []      # note tags that must all be reached on some feasible path (vacuity guard)
        self.str_mode = str_mode
        self.max_seconds = None
        self.weight = weight


class Finding(dict):
    """JSON-able: kind ('violation' | 'panic' | 'ub' | 'nonterm'), role (suppression key), detail, cex (concrete input)"""


def finding(kind, role, detail, cex, notes=None):
    return Finding(kind=kind, role=role, detail=detail, cex=cex, notes=[list(n) if isinstance(n, tuple) else n for n in (notes or [])][:40])


def model_of(vm, *extra):
    r, m = vm.check_sat(*extra)
    if r == z3.sat: return m
    if r == z3.unsat: return None
    raise Unmodelled('solver returned unknown while extracting a model')


def run_job(mirs, job, tier, seed):
    """explore one job to completion; returns a JSON-able result dict"""
    mir = mirs[job.profile]
    tmo = job.timeout_ms or (10_000 if tier == 'quick' else 120_000)
    ex = Explorer(tmo, seed)
    ex.deadline = time.time() + (job.max_seconds or (300 if tier == 'quick' else 3000))
    findings, samples = [], []
    reached = set()
    status = 'ok'; err = None
    t0 = time.time()
    seen_roles = {}
    try:
        while True:
            vm = VM(mir, ex, fuel=job.fuel)
            vm.str_mode = job.str_mode
            vm.tier = tier
            try:
                out = job.fn(vm, *job.args)
                # vacuity guard: an unchecked assumption may have made this path condition unsatisfiable
                if ex.model is None:
                    r_, m_ = vm.check_sat()
                    if r_ == z3.unsat: raise Infeasible()
                    if r_ != z3.sat: raise Unmodelled('solver returned unknown on the final feasibility check of a path')
                    ex.model = m_
                ex.stats.paths += 1
                if vm.pc: ex.stats.nontrivial_paths += 1
                for n in vm.notes: reached.add(n[0] if isinstance(n, tuple) else n)
                reached.update(getattr(vm, 'witness', ()))
                if out:
                    for f in (out if isinstance(out, list) else [out]):
                        if f is None: continue
                        k = f['role']
                        seen_roles[k] = seen_roles.get(k, 0) + 1
                        if seen_roles[k] <= 3: findings.append(f)
                if len(samples) < 3 or (ex.stats.paths % 997 == 0 and len(samples) < 6):
                    samples.append({'path': ex.stats.paths, 'decisions': [list(n) if isinstance(n, tuple) else n for n in vm.notes][:24],
                                    'path_condition': [_short(c) for c in vm.pc[:6]], 'n_constraints': len(vm.pc),
                                    'verdict': 'violation' if out else 'holds'})
            except Infeasible:
                ex.stats.infeasible += 1
            except PanicEdge as p:
                ex.stats.paths += 1
                if vm.pc: ex.stats.nontrivial_paths += 1
                desc = getattr(vm, 'describe', None)
                m = model_of(vm)
                if m is None:
                    raise Unmodelled(f'internal: panic edge reached on an infeasible path ({p})')
                cex = desc(m) if desc else None
                role = f'{p.kind}:{p.site}:{_role_msg(p.msg)}'
                seen_roles[role] = seen_roles.get(role, 0) + 1
                if seen_roles[role] <= 3:
                    findings.append(finding(p.kind, role, p.msg, cex, vm.notes))
            if job.max_paths and ex.stats.paths >= job.max_paths:
                raise BoundExceeded(f'more than {job.max_paths} paths')
            if time.time() > ex.deadline: raise BoundExceeded('job time limit')
            if not ex.backtrack(): break
    except Unmodelled as e:
        status, err = 'inconclusive', f'unmodelled: {e}'
    except BoundExceeded as e:
        status, err = 'inconclusive', f'bound exceeded: {e}'
    except Exception as e:
        status, err = 'error', f'{type(e).__name__}: {e}\n' + traceback.format_exc()[-1500:]
    st = ex.stats
    missing = [w for w in job.witness if w not in reached]
    if status == 'ok' and missing: status, err = 'inconclusive', f'vacuity guard: witnesses not reached: {missing}'
    if status == 'ok' and st.unknown: status, err = 'inconclusive', f'{st.unknown} solver queries returned unknown'
    return {'job': job.name, 'profile': job.profile, 'status': status, 'error': err, 'stats': st.as_dict(), 'wall_s': round(time.time() - t0, 2),
            'findings': findings, 'finding_counts': seen_roles, 'samples': samples,
            'fns': {k: v for k, v in st.fns.items()}, 'models': dict(st.models), 'xqueries': list(getattr(ex, 'xqueries', []))}


def _short(c):
    s = c.sexpr() if hasattr(c, 'sexpr') else str(c)
    s = ' '.join(s.split())
    return s if len(s) < 240 else s[:237] + '...'


def _role_msg(msg):
    import re
    m = re.sub(r'\d+', 'N', msg)
    return m[:70]


_G = {}


def _worker(i):
    job = _G['jobs'][i]
    try:
        return run_job(_G['mirs'], job, _G['tier'], _G['seed'])
    except BaseException as e:        # never lose a job silently
        return {'job': job.name, 'profile': job.profile, 'status': 'error', 'error': f'{type(e).__name__}: {e}', 'stats': {}, 'wall_s': 0,
                'findings': [], 'finding_counts': {}, 'samples': [], 'fns': {}, 'models': {}}


def run_jobs(mirs, jobs, tier, seed, nproc=None):
    nproc = nproc or min(len(jobs), int(os.environ.get('VERIF_JOBS', '14')))
    _G.update(mirs=mirs, jobs=jobs, tier=tier, seed=seed)
    if nproc <= 1 or len(jobs) <= 1:
        return [_worker(i) for i in range(len(jobs))]
    order = sorted(range(len(jobs)), key=lambda i: -jobs[i].weight)
    ctx = multiprocessing.get_context('fork')
    with ctx.Pool(nproc, maxtasksperchild=1) as pool:
        res = pool.map(_worker, order, chunksize=1)
    out = [None] * len(jobs)
    for i, r in zip(order, res): out[i] = r
    return out
