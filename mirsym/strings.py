"""String representations: SymStr (opaque z3 sequence, unbounded) and BStr (bounded list of code points with
concrete UTF-8 widths).  Uninterpreted functions stand for std's number parsing / formatting."""
import z3
from .values import *

STR = z3.StringSort()
parse_ok = z3.Function('parse_f64_ok', STR, z3.BoolSort())
parse_val = z3.Function('parse_f64_val', STR, F64)
fmt_f64 = z3.Function('fmt_f64', F64, STR)
radix_ok = z3.Function('from_str_radix_ok', STR, z3.BitVecSort(32), z3.BoolSort())
radix_val = z3.Function('from_str_radix_val', STR, z3.BitVecSort(32), z3.BitVecSort(64))
str_repeat = z3.Function('str_repeat', STR, z3.BitVecSort(64), STR)
char_to_str = z3.Function('char_to_string', z3.BitVecSort(32), STR)


def utf8_len(cp):
    return 1 if cp < 0x80 else 2 if cp < 0x800 else 3 if cp < 0x10000 else 4


class BStr:
    """bounded string / &str view: shared buffer of code points (ints or z3 BitVec(32)), each with a concrete UTF-8
    width; [start, end) are *byte* offsets into the buffer and always lie on character boundaries"""
    __slots__ = ('buf', 'start', 'end')

    def __init__(self, buf, start=0, end=None):
        self.buf, self.start, self.end = buf, start, (buf.nbytes if end is None else end)

    def chars(self):
        b = self.buf; i0, i1 = b.cidx(self.start), b.cidx(self.end)
        return b.cps[i0:i1]

    def char_items(self):
        """[(byte offset relative to self.start, cp)]"""
        b = self.buf; i0, i1 = b.cidx(self.start), b.cidx(self.end)
        return [(b.offs[i] - self.start, b.cps[i]) for i in range(i0, i1)]

    def nbytes(self): return self.end - self.start

    def sub(self, a, b): return BStr(self.buf, self.start + a, self.start + b)

    def is_boundary(self, off):
        return 0 <= off <= self.nbytes() and (self.start + off) in self.buf.bset

    def concrete(self):
        cs = self.chars()
        return ''.join(chr(c) for c in cs) if all(isinstance(c, int) for c in cs) else None

    def __repr__(self):
        c = self.concrete()
        return f'BStr({c!r})' if c is not None else f'BStr[{self.start}:{self.end}]'


class Buf:
    __slots__ = ('cps', 'widths', 'offs', 'nbytes', 'bset', 'id')
    _n = 0

    def __init__(self, cps, widths=None):
        self.cps = list(cps)
        self.widths = list(widths) if widths is not None else [utf8_len(c) for c in self.cps]
        self.offs = []; o = 0
        for w in self.widths: self.offs.append(o); o += w
        self.nbytes = o
        self.bset = set(self.offs) | {o}
        Buf._n += 1; self.id = Buf._n

    def cidx(self, off):
        """char index of byte offset (must be a boundary)"""
        if off == self.nbytes: return len(self.cps)
        try: return self.offs.index(off)
        except ValueError: raise PanicEdge('panic', f'byte offset {off} is not a char boundary')


class CharIdx:
    """CharIndices / Chars iterator over a BStr"""
    __slots__ = ('s', 'pos', 'back', 'base')

    def __init__(self, s, pos=None, back=None, base=None):
        self.s = s; self.pos = s.start if pos is None else pos; self.back = s.end if back is None else back
        self.base = s.start if base is None else base

    def clone(self): return CharIdx(self.s, self.pos, self.back, self.base)

    def __repr__(self): return f'CharIdx@{self.pos}'


def bstr_from_py(s): return BStr(Buf([ord(c) for c in s]))


def const_str(vm, s):
    if getattr(vm, 'str_mode', 'opaque') == 'bounded': return bstr_from_py(s)
    return SymStr(zs(s))


def to_sym(v):
    """view any string value as a z3 term (BStr must be concrete)"""
    if isinstance(v, SymStr): return v.term
    if isinstance(v, BStr):
        c = v.concrete()
        if c is not None: return zs(c)
        parts, run = [], []
        for ch in v.chars():
            if isinstance(ch, int): run.append(chr(ch)); continue
            if run: parts.append(zs(''.join(run))); run = []
            parts.append(z3.Unit(z3.CharFromBv(z3.Extract(17, 0, ch))))
        if run: parts.append(zs(''.join(run)))
        return z3.Concat(*parts) if len(parts) > 1 else parts[0]
    raise Unmodelled(f'not a string: {v!r}')


def str_len(vm, v):
    if isinstance(v, BStr): return v.nbytes()
    if isinstance(v, SliceRef): return v.end - v.start
    if isinstance(v, SymStr):
        t = z3.simplify(v.term)
        if z3.is_string_value(t): return len(zstr(t).encode('utf-8'))
        raise Unmodelled('byte length of an opaque symbolic string')
    raise Unmodelled(f'len of {v!r}')


def str_is_empty(vm, v):
    if isinstance(v, BStr): return v.nbytes() == 0
    t = z3.simplify(v.term)
    if z3.is_string_value(t): return len(zstr(t)) == 0
    return z3.Length(v.term) == 0


def str_eq(vm, a, b):
    if isinstance(a, BStr) and isinstance(b, BStr):
        ca, cb = a.chars(), b.chars()
        if a.nbytes() != b.nbytes() or len(ca) != len(cb): return False
        conds = []
        for x, y in zip(ca, cb):
            if isinstance(x, int) and isinstance(y, int):
                if x != y: return False
            else: conds.append(x == y)
        if not conds: return True
        return z3.And(*conds) if len(conds) > 1 else conds[0]
    ta, tb = to_sym(a), to_sym(b)
    r = z3.simplify(ta == tb)
    if z3.is_true(r): return True
    if z3.is_false(r): return False
    return r
