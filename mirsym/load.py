"""Obtain the MIR of /repo's current working tree (scratch copy, nightly rustc), parse it."""
import os, subprocess, shutil, tempfile, hashlib, time, sys
from .mir import Source, Mir

REPO = os.environ.get('VERIF_REPO', '/repo')


def scratch_root():
    base = os.environ.get('VERIF_SCRATCH') or os.environ.get('XDG_RUNTIME_DIR') or '/var/tmp'
    return base


def tree_hash(repo=REPO):
    h = hashlib.sha1()
    for root, dirs, files in os.walk(repo):
        dirs[:] = sorted(d for d in dirs if d not in ('target', '.git'))
        for f in sorted(files):
            p = os.path.join(root, f)
            if not (f.endswith('.rs') or f in ('Cargo.toml', 'Cargo.lock')): continue
            h.update(os.path.relpath(p, repo).encode()); h.update(open(p, 'rb').read())
    return h.hexdigest()[:16]


class Workspace:
    """scratch copy of the repo + MIR dumps, keyed by the tree's content hash and shared between the property runs of
    one invocation (and concurrent invocations on the same tree); removed by `cleanup()`"""

    def __init__(self, repo=REPO, keep=False):
        self.repo = repo
        self.hash = tree_hash(repo)
        self.dir = os.path.join(scratch_root(), f'rrss-verif-{self.hash}')
        self.src = os.path.join(self.dir, 'src')
        self.keep = keep
        os.makedirs(self.dir, exist_ok=True)
        self._lock = open(os.path.join(self.dir, '.lock'), 'w')
        import fcntl
        fcntl.flock(self._lock, fcntl.LOCK_EX)
        try:
            if not os.path.exists(os.path.join(self.src, 'Cargo.toml')):
                subprocess.run(['rsync', '-a', '--delete', '--exclude', 'target', '--exclude', '.git', repo + '/', self.src + '/'], check=True)
        finally:
            fcntl.flock(self._lock, fcntl.LOCK_UN)

    def mir_text(self, profile='dev'):
        out = os.path.join(self.dir, f'{profile}.mir')
        import fcntl
        fcntl.flock(self._lock, fcntl.LOCK_EX)
        try:
            if not os.path.exists(out) or os.path.getsize(out) < 1000:
                dbg = 'on' if profile == 'dev' else 'off'
                env = dict(os.environ, CARGO_NET_OFFLINE='true', CARGO_TARGET_DIR=os.path.join(self.dir, f'target-mir-{profile}'))
                subprocess.run(['touch', os.path.join(self.src, 'src', 'lib.rs')])
                t = time.time()
                r = subprocess.run(['cargo', '+nightly', 'rustc', '--offline', '--lib', '--', '-Zunpretty=mir', '-C', f'debug-assertions={dbg}', '-C', 'overflow-checks=on'],
                                   cwd=self.src, env=env, stdout=subprocess.PIPE, stderr=subprocess.PIPE)
                if r.returncode != 0 or len(r.stdout) < 1000:
                    sys.stderr.write(r.stderr.decode(errors='replace')[-3000:])
                    raise RuntimeError('MIR dump failed (does the tree compile?)')
                with open(out + '.tmp', 'wb') as f: f.write(r.stdout)
                os.replace(out + '.tmp', out)
        finally:
            fcntl.flock(self._lock, fcntl.LOCK_UN)
        return open(out, encoding='utf-8').read()

    def load(self, profile='dev'):
        src = Source(self.src)
        return Mir(self.mir_text(profile), src)

    def cleanup(self):
        if not self.keep: shutil.rmtree(self.dir, ignore_errors=True)
