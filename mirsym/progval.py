"""Program-level translator validation: the repository's own test programs (harvested from tests/*.rs of the current tree)
are run through the real parser + interpreter inside the VM and through the native build; outcomes must agree."""
import os, re, json, glob, hashlib, multiprocessing, time, traceback
from .values import *
from .strings import *
from .std import conc
from .progrun import parse_in_vm, exec_in_vm, text_of


def unescape_rust(s):
    out, i, n = [], 0, len(s)
    while i < n:
        c = s[i]
        if c != '\\': out.append(c); i += 1; continue
        d = s[i + 1] if i + 1 < n else ''
        if d == 'n': out.append('\n'); i += 2
        elif d == 't': out.append('\t'); i += 2
        elif d == 'r': out.append('\r'); i += 2
        elif d == '0': out.append('\0'); i += 2
        elif d in '\\"\'': out.append(d); i += 2
        elif d == '\n':
            i += 2
            while i < n and s[i] in ' \t\n\r': i += 1
        elif d == 'u':
            e = s.index('}', i); out.append(chr(int(s[i + 3:e], 16))); i = e + 1
        elif d == 'x': out.append(chr(int(s[i + 2:i + 4], 16))); i += 4
        else: out.append(c); i += 1
    return ''.join(out)


def harvest(src_root):
    """[(program text, stdin text, origin)] from run(Code(..), Input(..)) calls in tests/*.rs"""
    progs = []
    for p in sorted(glob.glob(os.path.join(src_root, 'tests', '*.rs'))):
        txt = open(p, encoding='utf-8').read()
        for m in re.finditer(r'Code\(\s*(r#"(.*?)"#|"((?:[^"\\]|\\.)*)")\s*\)\s*,\s*Input\(\s*(r#"(.*?)"#|"((?:[^"\\]|\\.)*)")\s*\)', txt, re.S):
            code = m.group(2) if m.group(2) is not None else unescape_rust(m.group(3))
            inp = m.group(5) if m.group(5) is not None else unescape_rust(m.group(6))
            if m.group(2) is not None and code.startswith('\\\n'): pass
            progs.append((code, inp, os.path.basename(p)))
    seen, out = set(), []
    for c, i, o in progs:
        k = (c, i)
        if k not in seen: seen.add(k); out.append((c, i, o))
    return out


EXTRA = [('Put 5 into X\nsay X\n', ''), ('say 1 over 0\nsay 0 over 0\nsay -1 over 0\n', ''), ('X is "12"\nCast X with 1\nsay X\n', ''), ('Let X at 1e30 be 1\n', ''),
         ('Listen to X\nsay X\nListen to Y\nsay Y\nListen\nsay "end"\n', 'a\nb'), ('F takes X\ngive back X plus 1\n\nsay F taking 2\nsay X\n', ''), ('say it\n', ''),
         ('X is 3\nIf X is 3\nY is 1\n\nsay Y\n', ''), ('Rock Arr with 1, 2, 3\nRoll Arr into Z\nsay Z\nsay Arr\nLet Arr at "k" be "v"\nsay Arr at "k"\n', ''),
         ('X is 0\nWhile X is less than 5\nBuild X up\nIf X is 2\nContinue\n\nIf X is 4\nBreak\n\nsay X\n\nsay "done"\n', ''), ('My Heart is true\nsay my heart\nsay MY HEART\n', ''),
         ('Cut "a,b" into Parts with ","\nsay Parts at 1\nJoin Parts with "-"\nsay Parts\nTurn up 1.5\nX is 2.5\nTurn round X\nsay X\n', ''), ('break\n\nsay 1\n', ''), ('say 1 plus "a" times 2\n', '')]


def vm_run_program(mir, code, stdin, native_ast=None):
    from .vm import VM, Explorer
    vm = VM(mir, Explorer(), fuel=30_000_000); vm.str_mode = 'bounded'
    out = {}
    try:
        r = conc(vm, parse_in_vm(vm, mir, code))
        if r.variant == 1: out['parse'] = 'err'; return out
        out['parse'] = 'ok'
        if native_ast is not None:
            # the tree rebuilt from the native parser's Debug output must be the tree the VM-executed parser produces
            from .astparse import program_from_debug, same_tree
            try: d = same_tree(vm, r.fields[0], program_from_debug(vm, mir, native_ast))
            except Exception as e: d = f'{type(e).__name__}: {e}'
            if d: out['tree_mismatch'] = d[:300]
        lines = []
        rest = stdin
        while rest:
            k = rest.find('\n')
            if k < 0: lines.append(rest); rest = ''
            else: lines.append(rest[:k + 1]); rest = rest[k + 1:]
        res, o, i = exec_in_vm(vm, mir, r.fields[0], [bstr_from_py(l) for l in lines])
        out['stdout'] = ''.join(text_of(vm, w) for w in o['writes'])
        out['result'] = 'ok' if conc(vm, res).variant == 0 else 'err'
    except PanicEdge as p:
        out['panic'] = str(p)[:200]
    except Exception as e:
        out['exception'] = f'{type(e).__name__}: {e}'[:300]
    out['steps'] = vm.ex.stats.steps
    return out


_G = {}


def _work(i):
    code, stdin, origin = _G['progs'][i]
    t = time.time()
    r = vm_run_program(_G['mir'], code, stdin, _G['asts'][i])
    r['wall'] = round(time.time() - t, 2)
    return r


def validate_programs(ctx, limit=None, profile='dev'):
    """returns (agreeing, [disagreements]); `limit` = number of harvested programs (seeded, deterministic choice) + all EXTRA"""
    mir = ctx.mir(profile); nat = ctx.native(profile)
    progs = harvest(ctx.ws.src)
    if limit is not None and len(progs) > limit:
        key = lambda p: hashlib.sha1((str(ctx.seed) + p[0] + p[1]).encode()).hexdigest()
        progs = sorted(progs, key=key)[:limit]
    progs = [(c, i, 'extra') for c, i in EXTRA] + progs
    asts = []
    for c, _, _ in progs:
        pr = nat.call({'op': 'parse', 'src': c}, timeout=20)
        asts.append(pr.get('ast') if pr.get('ok') else None)
    _G.update(progs=progs, mir=mir, asts=asts)
    n = min(14, len(progs))
    cx = multiprocessing.get_context('fork')
    with cx.Pool(n, maxtasksperchild=4) as pool: vm_res = pool.map(_work, range(len(progs)), chunksize=1)
    good, bad = 0, []
    for (code, stdin, origin), got in zip(progs, vm_res):
        nv = nat.call({'op': 'program', 'src': code, 'stdin': stdin}, timeout=20)
        if 'panic' in nv or 'crash' in nv or 'timeout' in nv:
            okk = 'panic' in got          # both crash (a genuine defect is reported by the property checks, not here)
        else:
            okk = 'exception' not in got and 'panic' not in got and 'tree_mismatch' not in got and got.get('parse') == nv.get('parse') and \
                (nv.get('parse') != 'ok' or (got.get('result') == nv.get('result') and got.get('stdout') == nv.get('stdout')))
        if okk: good += 1
        else: bad.append({'program-level': True, 'origin': origin, 'src': code[:400], 'stdin': stdin[:80], 'vm': {k: (v if not isinstance(v, str) else v[:300]) for k, v in got.items()},
                          'native': {k: (v if not isinstance(v, str) else v[:300]) for k, v in nv.items() if k in ('parse', 'result', 'stdout', 'panic', 'timeout', 'crash')}})
    return good, bad
