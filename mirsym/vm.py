"""Path-wise symbolic VM over parsed MIR (DESIGN.md §2.2).

Exploration is by re-execution along a decision trail (no state copying); the z3 solver is kept
incremental: one push per constraint event, aligned with the trail, so a replayed prefix costs no queries."""
import re, sys, time, math, struct
import z3
sys.setrecursionlimit(60000)
from .mir import split_top, find_top, match_close, canon, type_head, unify
from .values import *

_SKIP = ('StorageLive', 'StorageDead', 'FakeRead', 'PlaceMention', 'nop', 'Retag', 'AscribeUserType', 'Coverage', 'ConstEvalCounter', 'Deinit', '//')
_BINOPS = ('AddWithOverflow', 'SubWithOverflow', 'MulWithOverflow', 'AddUnchecked', 'SubUnchecked', 'MulUnchecked', 'ShlUnchecked', 'ShrUnchecked',
           'Add', 'Sub', 'Mul', 'Div', 'Rem', 'BitXor', 'BitAnd', 'BitOr', 'Shl', 'Shr', 'Eq', 'Lt', 'Le', 'Ne', 'Ge', 'Gt', 'Cmp', 'Offset')
_BINOP_RE = re.compile(r'^(' + '|'.join(_BINOPS) + r')\((.*)\)$')
_UNOP_RE = re.compile(r'^(Not|Neg|PtrMetadata|Len)\((.*)\)$')
_CAST_RE = re.compile(r'^(.*) as (.*) \((\w+(?:\(.*\))?)\)$')      # the cast kind may nest: PointerCoercion(ReifyFnPointer(Safe), Implicit)
_LOCAL_RE = re.compile(r'^_\d+$')
_INTLIT = re.compile(r'^(-?\d+)_(u8|u16|u32|u64|u128|usize|i8|i16|i32|i64|i128|isize)$')
_FLOATLIT = re.compile(r'^(-?(?:\d[\d.]*(?:[eE][+-]?\d+)?|inf|NaN))f64$')


class Stats:
    def __init__(self):
        self.paths = self.infeasible = self.steps = self.queries = self.sat = self.unsat = self.unknown = 0
        self.solver_s = 0.0; self.decisions = 0; self.model_hits = 0
        self.nontrivial_paths = 0      # feasible paths whose path condition holds at least one constraint over symbolic inputs
        self.fns = {}; self.models = {}

    def as_dict(self):
        return {k: (round(v, 3) if isinstance(v, float) else v) for k, v in self.__dict__.items() if k not in ('fns', 'models')}


class Explorer:
    """owns the decision trail and the incremental solver shared by all re-executions of one harness"""

    def __init__(self, timeout_ms=10000, seed=0):
        self.solver = z3.Solver()
        self.solver.set('timeout', timeout_ms); self.timeout_ms = timeout_ms
        if seed: self.solver.set('random_seed', seed)
        self.trail = []          # [choice, n, event_index, exhaustive, any_feasible_so_far]
        self.levels = 0
        self.model = None
        self.stats = Stats()

    def backtrack(self):
        """advance the trail to the next feasible alternative (checked here, with the stored conditions, so that no
        re-execution is spent on discovering an infeasible sibling); False when the exploration is complete"""
        while self.trail:
            t = self.trail[-1]
            back = self.levels - (t[2] - 1)
            if back > 0: self.solver.pop(back); self.levels = t[2] - 1
            conds = t[5]
            while t[0] + 1 < t[1]:
                t[0] += 1
                c = conds[t[0]]
                self.solver.push(); self.levels += 1
                if c is None: return True
                self.solver.add(c)
                if t[3] and t[0] == t[1] - 1 and not t[4]:
                    self.model = None; t[4] = True; return True      # exhaustive: the last alternative must be feasible
                m = self.model
                if m is not None:
                    try:
                        if z3.is_true(m.eval(c, model_completion=True)): self.stats.model_hits += 1; t[4] = True; return True
                    except z3.Z3Exception: pass
                r = self.check()
                if r == z3.sat: self.model = self.solver.model(); t[4] = True; return True
                if r != z3.sat and r != z3.unsat: raise Unmodelled('solver returned unknown on a feasibility check')
                self.stats.infeasible += 1
                self.solver.pop(); self.levels -= 1
            self.trail.pop()
        if self.levels: self.solver.pop(self.levels); self.levels = 0
        return False

    def check(self, extra=None):
        st = self.stats; t = time.time()
        r = self.solver.check() if extra is None else self.solver.check(extra)
        st.solver_s += time.time() - t; st.queries += 1
        if r == z3.sat: st.sat += 1
        elif r == z3.unsat: st.unsat += 1
        else: st.unknown += 1
        return r


class Frame:
    __slots__ = ('fn', 'locals', 'subst', 'skey')

    def __init__(self, fn, subst):
        self.fn, self.locals, self.subst = fn, {}, subst
        self.skey = tuple(sorted(subst.items())) if subst else ()


class VM:
    def __init__(self, mir, ex, fuel=2_000_000, max_depth=3000):
        self.mir, self.ex = mir, ex
        self.dpos = 0          # decision position on the trail
        self.ev = 0            # constraint events so far
        self.uid = 0
        self.fuel = fuel + ex.stats.steps     # per path
        self.depth = 0; self.max_depth = max_depth
        self.pc = []           # list of constraints of this path (for reporting / models)
        self.notes = []        # harness-readable decisions ("shape" of the path)
        self.hooks = {}        # callee shape -> python callable (harness-installed environment stubs)
        self.domains = {}      # z3 term id -> set of values still possible on this path (implied by pc)
        self.truths = {}       # z3 Bool term id -> truth value implied by pc
        self.deadline = getattr(ex, 'deadline', None)
        self.keep = []         # terms whose ids key the two maps above stay referenced (z3 reuses the ids of freed ASTs)
        self.statics = {}
        self.trace = None
        self.models = None     # set by std.install
        from . import std
        std.install(self)

    # ------------------------------------------------------------ solver interface
    def fresh(self, prefix):
        self.uid += 1; return f'{prefix}!{self.uid}'

    def _event(self, cond):
        """register an unchecked constraint (assumption) as a solver level"""
        ex = self.ex
        self.ev += 1
        self.pc.append(cond)
        if self.ev <= ex.levels: return          # replayed prefix: already on the solver stack
        ex.solver.push(); ex.levels += 1
        ex.solver.add(cond)
        m = ex.model
        if m is not None:
            try:
                if z3.is_true(m.eval(cond, model_completion=True)): return
            except z3.Z3Exception: pass
            ex.model = None

    def assume(self, cond):
        if isinstance(cond, bool):
            if not cond: raise Infeasible()
            return
        self._event(cond)

    def choose(self, conds, exhaustive=True, note=None):
        """n-way decision; conds[i] is a z3 Bool or None (free choice). Returns the chosen index."""
        ex = self.ex; pos = self.dpos; self.dpos += 1
        n = len(conds)
        if pos < len(ex.trail):
            t = ex.trail[pos]
            c = t[0]
            self.ev += 1
            if self.ev > ex.levels: raise Unmodelled('internal: trail / solver stack out of step')
            if conds[c] is not None: self.pc.append(conds[c])
            if note is not None: self.notes.append((note, c))
            return c
        t = [0, n, self.ev + 1, exhaustive and all(x is not None for x in conds), False, list(conds)]
        ex.trail.append(t); ex.stats.decisions += 1
        self.ev += 1
        c = 0
        while True:
            cond = conds[c]
            ex.solver.push(); ex.levels += 1
            if cond is None: break
            ex.solver.add(cond)
            if t[3] and c == n - 1 and not t[4]:
                ex.model = None; break
            m = ex.model
            if m is not None:
                try:
                    if z3.is_true(m.eval(cond, model_completion=True)): ex.stats.model_hits += 1; break
                except z3.Z3Exception: pass
            r = ex.check()
            if r == z3.sat: ex.model = ex.solver.model(); break
            if r != z3.unsat: raise Unmodelled('solver returned unknown on a feasibility check')
            ex.stats.infeasible += 1
            ex.solver.pop(); ex.levels -= 1
            c += 1
            if c >= n:
                ex.trail.pop(); self.ev -= 1
                raise Infeasible()
        t[0] = c; t[4] = True
        if conds[c] is not None: self.pc.append(conds[c])
        if note is not None: self.notes.append((note, c))
        return c

    def memo(self, compute):
        """result of a solver-dependent computation, recorded on the trail: during a replayed prefix the solver stack is
        *ahead* of the execution (it already holds later constraints), so such results must not be recomputed"""
        ex = self.ex; pos = self.dpos; self.dpos += 1
        if pos < len(ex.trail):
            t = ex.trail[pos]; self.ev += 1
            return t[6]
        data = compute()
        t = [0, 1, self.ev + 1, False, True, [None], data]
        ex.trail.append(t); self.ev += 1
        ex.solver.push(); ex.levels += 1
        return data

    def branch(self, cond):
        if isinstance(cond, bool): return cond
        cond = z3.simplify(cond)
        if z3.is_true(cond): return True
        if z3.is_false(cond): return False
        if z3.is_not(cond):
            return not self.branch(cond.arg(0))
        cid = cond.get_id()
        t = self.truths.get(cid)
        if t is not None: return t
        # equality of a tracked term with a constant
        if z3.is_eq(cond):
            a, b = cond.arg(0), cond.arg(1)
            if z3.is_bv_value(a): a, b = b, a
            if z3.is_bv_value(b):
                d = self.domains.get(a.get_id())
                if d is not None:
                    k = b.as_long()
                    if k not in d: return False
                    if len(d) == 1: return True
            else:
                da, db = self.domains.get(a.get_id()), self.domains.get(b.get_id())
                if da is not None and db is not None:
                    if not (da & db): return False
                    if len(da) == 1 and da == db: return True
        r = self.choose([cond, z3.Not(cond)]) == 0
        self.truths[cid] = r; self.keep.append(cond)
        if z3.is_eq(cond):
            a, b = cond.arg(0), cond.arg(1)
            if z3.is_bv_value(a): a, b = b, a
            if z3.is_bv_value(b):
                k = b.as_long(); d = self.domains.get(a.get_id())
                if r: self.domains[a.get_id()] = {k}
                elif d is not None: self.domains[a.get_id()] = d - {k}
            elif r:
                da, db = self.domains.get(a.get_id()), self.domains.get(b.get_id())
                if da is not None and db is not None: self.domains[a.get_id()] = self.domains[b.get_id()] = da & db
                elif da is not None: self.domains[b.get_id()] = da
                elif db is not None: self.domains[a.get_id()] = db
            else:
                da, db = self.domains.get(a.get_id()), self.domains.get(b.get_id())
                if da is not None and db is not None:
                    if len(da) == 1: self.domains[b.get_id()] = db - da
                    elif len(db) == 1: self.domains[a.get_id()] = da - db
        return r

    def fork(self, n, note=None):
        """free n-way choice made by a harness or a model (shape decisions)"""
        return self.choose([None] * n, exhaustive=False, note=note)

    def check_sat(self, *extra, oneshot=False):
        """is pc ∧ extra satisfiable?  returns (z3 result, model|None).  `oneshot` re-states the whole path condition in a
        fresh solver: z3 then applies its tactic pipeline (bit-blasting for FP/BV), which its incremental core does not --
        measured 18 s vs 1.5 s on the build/knock query"""
        ex = self.ex
        if oneshot:
            s = z3.Solver(); s.set('timeout', ex.timeout_ms)
            for c in self.pc: s.add(c)
            for e in extra: s.add(e)
            st = ex.stats; t = time.time()
            r = s.check()
            st.solver_s += time.time() - t; st.queries += 1
            if r == z3.sat: st.sat += 1; return r, s.model()
            if r == z3.unsat:
                st.unsat += 1
                if extra: self._xsample(extra)
                return r, None
            # fall through to the incremental solver before giving up
        ex.solver.push()
        try:
            for e in extra: ex.solver.add(e)
            r = ex.check()
            m = ex.solver.model() if r == z3.sat else None
        finally:
            ex.solver.pop()
        if r == z3.unsat and extra: self._xsample(extra)
        return r, m

    def _xsample(self, extra):
        """keep a spaced-out sample of the discharged assertion queries (pc ∧ ¬assertion, answered unsat) as SMT-LIB2
        text; run.py re-decides them with two other solvers (cvc5, z3 4.8.12) -- the cross-solver audit of DESIGN §2.3"""
        ex = self.ex
        ex.xseen = getattr(ex, 'xseen', 0) + 1
        xs = getattr(ex, 'xqueries', None)
        if xs is None: xs = ex.xqueries = []
        cap = 4 if getattr(self, 'tier', 'quick') == 'quick' else 16
        n = ex.xseen
        if n & (n - 1): return          # keep queries number 1, 2, 4, 8, ... (early and late ones, bounded)
        if len(xs) >= cap: xs.pop(1)
        try:
            s = z3.Solver()
            for c in self.pc: s.add(c)
            for e in extra: s.add(e)
            xs.append(s.to_smt2())
        except Exception:
            pass

    def must_hold(self, prop, what):
        """assert `prop` on this path: discharge pc ∧ ¬prop"""
        if isinstance(prop, bool):
            if prop: return None
            r, m = self.check_sat()
            if r == z3.sat: return Violation(what, m, self)
            if r == z3.unsat: return None
            raise Unmodelled('unknown from solver on ' + what)
        p = z3.simplify(prop)
        if z3.is_true(p): return None
        r, m = self.check_sat(z3.Not(p), oneshot=_has_fp(p))
        if r == z3.unsat: return None
        if r == z3.sat: return Violation(what, m, self)
        raise Unmodelled('unknown from solver on ' + what)

    # ------------------------------------------------------------ parsing (cached per function)
    def parse_place(self, s):
        s = s.strip()
        if _LOCAL_RE.match(s): return ('L', s)
        if s.startswith('(*') and s.endswith(')') and match_close(s, 0) == len(s) - 1:
            return ('D', self.parse_place(s[2:-1]))
        if s.startswith('(') and match_close(s, 0) == len(s) - 1:
            inner = s[1:-1]
            k = inner.rfind(' as ')
            if k > 0 and re.fullmatch(r'\w+', inner[k + 4:]) and find_top(inner, ':') < 0:
                return ('DC', self.parse_place(inner[:k]), inner[k + 4:])
            c = find_top(inner, ':')
            if c > 0 and inner[c + 1] == ' ':
                left = inner[:c]; d = left.rindex('.')
                return ('F', self.parse_place(left[:d]), int(left[d + 1:]), canon(inner[c + 2:]))
        if s.endswith(']'):
            k = s.rindex('[')
            base, idx = s[:k], s[k + 1:-1]
            if _LOCAL_RE.match(idx): return ('I', self.parse_place(base), idx)
            m = re.fullmatch(r'(-?\d+) of (\d+)', idx)
            if m: return ('CI', self.parse_place(base), int(m.group(1)), int(m.group(2)))
            m = re.fullmatch(r'(\d+):(-?\d*)', idx)
            if m: return ('SUB', self.parse_place(base), int(m.group(1)), m.group(2))
        raise Unmodelled('place? ' + s)

    def parse_operand(self, s, fn):
        s = s.strip()
        if s.startswith('copy '): return ('copy', self.parse_place(s[5:]))
        if s.startswith('move '): return ('move', self.parse_place(s[5:]))
        if s.startswith('no_retag '): return self.parse_operand(s[9:], fn)
        if s.startswith('const '): return ('const', s[6:].strip(), [None])
        if _LOCAL_RE.match(s): return ('copy', ('L', s))
        # bare fn item / constructor used as a value
        return ('fnitem', s)

    def place_type(self, p, fn):
        k = p[0]
        if k == 'L': return fn.locals.get(p[1], '')
        if k == 'F': return p[3]
        if k == 'DC': return self.place_type(p[1], fn)
        if k == 'D':
            t = self.place_type(p[1], fn)
            h, a = type_head(t)
            if h in ('&', '&mut', '*const', '*mut', 'Box', 'NonNull', 'Unique') and a: return a[0]
            return ''
        if k in ('I', 'CI'):
            t = self.place_type(p[1], fn); h, a = type_head(t)
            return a[0] if h in ('[]', '[;]') else ''
        return ''

    def operand_type(self, o, fn):
        if o[0] in ('copy', 'move'): return self.place_type(o[1], fn)
        if o[0] == 'const':
            c = o[1]
            m = _INTLIT.match(c)
            if m: return m.group(2)
            if _FLOATLIT.match(c): return 'f64'
            if c in ('true', 'false'): return 'bool'
            if c.startswith("'"): return 'char'
            m = re.match(r'(?:core::num::)?(?:<impl )?(\w+)>?::(MAX|MIN)$', c)
            if m: return m.group(1)
            if 'SizedTypeProperties>::' in c: return 'usize'
        return ''

    def parse_rvalue(self, s, fn, dest_ty):
        s = s.strip()
        if s.startswith('&'):
            t = s[1:]
            for pre in ('raw const ', 'raw mut ', 'mut ', 'fake shallow ', 'fake '):
                if t.startswith(pre): t = t[len(pre):]; break
            return ('ref', self.parse_place(t))
        if s.startswith('discriminant(') and s.endswith(')'): return ('discr', self.parse_place(s[13:-1]))
        if s.startswith('deref_copy '): return ('use', ('copy', self.parse_place(s[11:])))
        m = _BINOP_RE.match(s)
        if m:
            a, b = [self.parse_operand(x, fn) for x in split_top(m.group(2))]
            ty = self.operand_type(a, fn) or self.operand_type(b, fn)
            return ('bin', m.group(1), a, b, ty)
        m = _UNOP_RE.match(s)
        if m:
            if m.group(1) == 'Len': return ('len', self.parse_place(m.group(2)))
            a = self.parse_operand(m.group(2), fn)
            return ('un', m.group(1), a, self.operand_type(a, fn))
        m = _CAST_RE.match(s)
        if m and 'ReifyFnPointer' in m.group(3) and not s.startswith(('copy ', 'move ', 'const ')):
            return ('use', self.parse_operand(m.group(1), fn))          # fn item / variant constructor named directly: `Path::f as fn(..) -> .. (PointerCoercion(ReifyFnPointer(Safe), ..))`
        if m and (s.startswith(('copy ', 'move ', 'const ')) ):
            a = self.parse_operand(m.group(1), fn)
            return ('cast', a, canon(m.group(2)), m.group(3), self.operand_type(a, fn))
        if s.startswith(('copy ', 'move ', 'const ', 'no_retag ')): return ('use', self.parse_operand(s, fn))
        if s.startswith('(') and match_close(s, 0) == len(s) - 1:
            return ('tuple', [self.parse_operand(x, fn) for x in split_top(s[1:-1])])
        if s.startswith('[') and s.endswith(']'):
            inner = s[1:-1]; k = find_top(inner, ';')
            if k >= 0: return ('repeat', self.parse_operand(inner[:k], fn), inner[k + 1:].strip())
            return ('array', [self.parse_operand(x, fn) for x in split_top(inner)])
        if s.startswith('{closure@'):
            e = s.index('}') + 1
            cty = s[:e]; rest = s[e:].strip()
            fields = []
            if rest.startswith('{'):
                for x in split_top(rest[1:-1].strip()):
                    fields.append(self.parse_operand(x.split(': ', 1)[1], fn))
            fields = self.recover_captures(cty, fields, fn)
            return ('closure', cty, fields)
        m = re.match(r'^(SizeOf|AlignOf)\((.*)\)$', s)
        if m: return ('sizeof', m.group(1), canon(m.group(2)))
        m = re.match(r'^ShallowInitBox\((.*), (.*)\)$', s)
        if m: return ('shallowbox', self.parse_operand(m.group(1), fn))
        # aggregate: Path::<..>::Variant(args) | Path { f: v } | Path(args) | bare unit
        return self.parse_aggregate(s, fn, dest_ty)

    def parse_aggregate(self, s, fn, dest_ty):
        body = None; kind = None
        if s.endswith(')'):
            k = find_top(s, '(')
            if k > 0: body, kind, head = s[k + 1:-1], 'tuple', s[:k]
        if body is None and s.endswith('}'):
            k = find_top(s, '{')
            if k > 0: body, kind, head = s[k + 1:-1].strip(), 'struct', s[:k].strip()
        if body is None: head, kind, body = s, 'unit', ''
        head = canon(head)
        # drop generic args
        segs = [x for x in self._path_segments(head) if not x.startswith('<')]
        ops = []
        if kind == 'tuple': ops = [self.parse_operand(x, fn) for x in split_top(body)]
        elif kind == 'struct': ops = [self.parse_operand(x.split(': ', 1)[1], fn) for x in split_top(body)]
        enums = self.mir.src.enums
        ty, var = None, 0
        if len(segs) >= 2 and segs[-2] in enums and segs[-1] in enums[segs[-2]]:
            ty, var = segs[-2], enums[segs[-2]].index(segs[-1])
        elif segs[-1] in self.mir.src.structs or (len(segs) == 1 and segs[-1] not in self._variant_owner()):
            ty = segs[-1]
        else:
            owners = self._variant_owner().get(segs[-1], [])
            dh = type_head(dest_ty)[0] if dest_ty else ''
            pick = [o for o in owners if o == dh] or owners
            if not pick: raise Unmodelled('aggregate? ' + s)
            ty = pick[0]; var = enums[ty].index(segs[-1])
        return ('agg', ty, var, ops)

    def recover_captures(self, cty, fields, fn):
        """rustc's MIR printer zips a closure's capture operands with the *variables* it mentions, so with edition-2021 disjoint
        captures (`self.env`, `self.write`, `n.0`) it prints fewer operands than there are captures.  The missing ones are the
        temporaries of matching type that the constructing function computes and never uses otherwise."""
        cf = self.mir.closures.get(canon(cty))
        if cf is None: return fields
        want = {}
        for bb in cf.blocks.values():
            for line in bb:
                for m in re.finditer(r'\(\(?\*?_1\)?\.(\d+): ', line):
                    i = int(m.group(1)); st = m.end(); d = 1; j = st
                    while j < len(line) and d:
                        ch = line[j]
                        if ch in '([{<': d += 1
                        elif ch in ')]}' or (ch == '>' and line[j - 1] not in '-='): d -= 1
                        j += 1
                    want.setdefault(i, canon(line[st:j - 1]))
        n = (max(want) + 1) if want else 0
        if n <= len(fields): return fields
        used = {}
        for bb in fn.blocks.values():
            for line in bb:
                for m in re.finditer(r'\b_\d+\b', line): used[m.group(0)] = used.get(m.group(0), 0) + 1
        printed = {o[1][1] for o in fields if o[0] in ('copy', 'move') and o[1][0] == 'L'}
        cands = [l for l in fn.locals if l not in printed and used.get(l, 0) == 1 and not l == '_0']       # assigned once, never read
        cands.sort(key=lambda l: int(l[1:]))
        cands += [f'_{i + 1}' for i in range(fn.nargs) if f'_{i + 1}' not in printed and f'_{i + 1}' not in cands]      # a captured argument
        out = list(fields)
        for i in range(len(fields), n):
            ty = want.get(i)
            pick = next((l for l in cands if ty is not None and fn.locals.get(l) == ty), None) or next((l for l in cands if ty is None and int(l[1:]) > fn.nargs), None)
            if pick is None: raise Unmodelled(f'closure {cty}: capture {i} is not printed in the MIR text and could not be recovered')
            cands.remove(pick); out.append(('copy' if int(pick[1:]) <= fn.nargs else 'move', ('L', pick)))
        return out

    _vo = None

    def _variant_owner(self):
        if VM._vo is None or VM._vo[0] is not self.mir:
            d = {}
            for e, vs in self.mir.src.enums.items():
                for v in vs: d.setdefault(v, []).append(e)
            VM._vo = (self.mir, d)
        return VM._vo[1]

    @staticmethod
    def _path_segments(p):
        """split a path on top-level `::`"""
        out, depth, start, i, n = [], 0, 0, 0, len(p)
        while i < n:
            c = p[i]
            if c in '<([{': depth += 1
            elif c in ')]}' or (c == '>' and p[i - 1] not in '-='): depth -= 1
            elif c == ':' and depth == 0 and p[i + 1:i + 2] == ':':
                out.append(p[start:i]); start = i + 2; i += 1
            i += 1
        out.append(p[start:])
        return [x for x in out if x]

    def parse_stmt(self, line, fn):
        if line.startswith(_SKIP): return None
        if line == 'return;': return ('return',)
        if line == 'unreachable;': return ('unreachable',)
        if line == 'resume;' or line.startswith('resume'): return ('resume',)
        if line.startswith('goto -> '): return ('goto', line[8:-1])
        if line.startswith('switchInt('):
            e = match_close(line, 9)
            op = self.parse_operand(line[10:e], fn)
            tg = line[line.index('[', e) + 1:line.rindex(']')]
            targets = []; other = None
            for t in tg.split(', '):
                k, b = t.split(': ')
                if k == 'otherwise': other = b
                else: targets.append((int(k), b))
            return ('switch', op, targets, other, self.operand_type(op, fn))
        if line.startswith('drop('):
            e = match_close(line, 4)
            m = re.search(r'return: (bb\d+)', line[e:])
            return ('drop', self.parse_place(line[5:e]), m.group(1))
        if line.startswith('assert('):
            e = match_close(line, 6)
            parts = split_top(line[7:e])
            neg = parts[0].startswith('!')
            op = self.parse_operand(parts[0][1:] if neg else parts[0], fn)
            m = re.search(r'success: (bb\d+)', line[e:])
            return ('assert', op, neg, parts[1] if len(parts) > 1 else '', m.group(1))
        if line.startswith('discriminant('):
            e = match_close(line, 12)
            return ('setdiscr', self.parse_place(line[13:e]), int(line[e + 1:].strip(' =;')))
        if line.startswith(('assume(', 'Intrinsic(')):
            return None
        k = find_top(line, '=')
        while k >= 0 and (line[k + 1] == '=' or line[k - 1] in '!<>='): k = find_top(line, '=', k + 2)
        if k < 0: raise Unmodelled('stmt? ' + line)
        dest, rhs = line[:k].strip(), line[k + 1:].strip()
        arrow = rhs.rfind(' -> ')
        if arrow >= 0 and (rhs.endswith('];') or rhs.endswith('continue;') or rhs.endswith('unreachable;') or re.search(r' -> (bb\d+|unwind [a-z]+);$', rhs)):
            tail = rhs[arrow + 4:]
            if find_top(rhs, '(') >= 0 and not rhs.startswith('&'):
                callexpr = rhs[:arrow].strip()
                p0 = self._call_paren(callexpr)
                callee, argstr = callexpr[:p0], callexpr[p0 + 1:-1]
                args = [self.parse_operand(a, fn) for a in split_top(argstr)]
                m = re.search(r'return: (bb\d+)', tail)
                nxt = m.group(1) if m else (tail[:-1] if re.fullmatch(r'bb\d+;', tail) else None)
                if callee.startswith(('move ', 'copy ')):
                    return ('callv', self.parse_place(dest), self.parse_operand(callee, fn), args, nxt)
                return ('call', self.parse_place(dest), callee.strip(), args, nxt, {})
        dp = self.parse_place(dest)
        return ('assign', dp, self.parse_rvalue(rhs[:-1] if rhs.endswith(';') else rhs, fn, self.place_type(dp, fn)))

    @staticmethod
    def _call_paren(s):
        """index of the '(' opening the argument list of call text `callee(args)`"""
        depth, i, n = 0, 0, len(s)
        while i < n:
            c = s[i]
            if c == '"' or c == "'":
                from .mir import _skip_quote
                i = _skip_quote(s, i); continue
            if c in '<[{': depth += 1
            elif c in ']}' or (c == '>' and s[i - 1] not in '-='): depth -= 1
            elif c == '(':
                if depth == 0:
                    # `fn(A) -> B` inside types never appears at depth 0 of a callee except `impl Fn(..)`: require match to end
                    e = match_close(s, i)
                    if e == n - 1: return i
                    i = e
                else: depth += 1
            elif c == ')': depth -= 1
            i += 1
        raise Unmodelled('call? ' + s)

    def block(self, fn, bb):
        b = fn.parsed.get(bb)
        if b is None:
            b = []
            for line in fn.blocks[bb]:
                st = self.parse_stmt(line, fn)
                if st is not None: b.append(st)
            fn.parsed[bb] = b
        return b

    # ------------------------------------------------------------ memory
    def nav(self, v, e):
        if type(e) is int:
            if isinstance(v, Adt):
                try: return v.fields[e]
                except IndexError: raise Unmodelled(f'field {e} of {v!r}')
            if isinstance(v, HList): return v.items[e]
            if isinstance(v, SymEnum): raise Unmodelled(f'field of symbolic enum without downcast: {v!r}')
            if isinstance(v, Closure): return v.fields[e]
            if isinstance(v, RcVal) and e == 0: return v      # Rc internals are not modelled structurally
            raise Unmodelled(f'nav {e} into {v!r}')
        if e[0] == 'e':          # hash-map entry component
            return v.entries[e[1]][e[2]]
        # ('as', variant)
        if isinstance(v, SymEnum): return v.alt(e[1])
        return v

    def ref_get(self, r):
        v = r.cell.v
        for e in r.path: v = self.nav(v, e)
        return v

    def ref_set(self, r, val):
        if not r.path: r.cell.v = val; return
        v = r.cell.v
        for e in r.path[:-1]: v = self.nav(v, e)
        e = r.path[-1]
        if type(e) is int:
            if isinstance(v, Adt):
                while len(v.fields) <= e: v.fields.append(UNINIT)
                v.fields[e] = val
            elif isinstance(v, HList): v.items[e] = val
            elif isinstance(v, Closure): v.fields[e] = val
            else: raise Unmodelled(f'set field {e} of {v!r}')
        elif e[0] == 'e':
            v.entries[e[1]][e[2]] = val
        else:
            raise Unmodelled('write through downcast view')

    def vidx(self, base, vname):
        vs = self.mir.src.enums.get(base.ty)
        if vs is None: raise Unmodelled(f'enum? {base.ty}')
        return vs.index(vname)

    def read_place(self, fr, p):
        k = p[0]
        if k == 'L':
            c = fr.locals.get(p[1])
            if c is None:
                c = fr.locals[p[1]] = Cell(self.zst_value(fr, p[1]))
                if c.v is UNINIT: raise Unmodelled(f'read of unset local {p[1]} in {fr.fn.name}')
            return c.v
        if k == 'F':
            base = self.read_place(fr, p[1])
            return self.nav(base, p[2])
        if k == 'DC':
            base = self.read_place(fr, p[1])
            if isinstance(base, SymEnum): return base.alt(self.vidx(base, p[2]))
            return base
        if k == 'D':
            return self.deref(self.read_place(fr, p[1]))
        if k == 'I':
            base = self.read_place(fr, p[1]); i = fr.locals[p[2]].v
            return self.index_value(base, i)
        if k == 'CI':
            base = self.read_place(fr, p[1])
            return self.index_value(base, p[2])
        raise Unmodelled('read place ' + repr(p))

    def index_value(self, base, i):
        if is_sym(i): i = self.concretize(i)
        if isinstance(base, HList): return base.items[i]
        if isinstance(base, SliceRef): return self.ref_get(base.ref).items[base.start + i]
        raise Unmodelled(f'index into {base!r}')

    def deref(self, v):
        if isinstance(v, Ref): return self.ref_get(v)
        if isinstance(v, Adt) and v.ty == 'Box': return self.ref_get(self.box_ptr(v))
        if isinstance(v, (SymStr, SliceRef)): return v
        if isinstance(v, RcVal): return v.box.cell.v
        from .strings import BStr
        if isinstance(v, BStr): return v
        raise Unmodelled(f'deref of {v!r}')

    def box_ptr(self, b):
        v = b
        while isinstance(v, Adt): v = v.fields[0]
        return v

    def place_ref(self, fr, p):
        k = p[0]
        if k == 'L':
            c = fr.locals.get(p[1])
            if c is None: c = fr.locals[p[1]] = Cell(self.zst_value(fr, p[1]))
            return Ref(c)
        if k == 'F':
            r = self.place_ref(fr, p[1]); return Ref(r.cell, r.path + (p[2],))
        if k == 'DC':
            r = self.place_ref(fr, p[1]); base = self.ref_get(r)
            if isinstance(base, SymEnum): return Ref(r.cell, r.path + (('as', self.vidx(base, p[2])),))
            return r
        if k == 'D':
            v = self.read_place(fr, p[1])
            if isinstance(v, Ref): return v
            if isinstance(v, Adt) and v.ty == 'Box': return self.box_ptr(v)
            if isinstance(v, SliceRef): return v       # reborrow of a slice
            if isinstance(v, SymStr): return v
            if isinstance(v, RcVal): return Ref(v.box.cell)
            from .strings import BStr
            if isinstance(v, BStr): return v
            raise Unmodelled(f'place deref of {v!r} in {fr.fn.name}')
        if k in ('I', 'CI'):
            i = fr.locals[p[2]].v if k == 'I' else p[2]
            if is_sym(i): i = self.concretize(i)
            if p[1][0] == 'D':
                v = self.read_place(fr, p[1][1])
                if isinstance(v, SliceRef):
                    return Ref(v.ref.cell, v.ref.path + (v.start + i,))
                from .strings import BStr
                if isinstance(v, BStr):        # one byte of the &[u8] view of text (the bounds assert precedes it in the MIR)
                    from .stdcheck import P as _P
                    from .std_iter import drain
                    bs = drain(self, _P(self, '<impl str>::bytes', v))
                    if not 0 <= i < len(bs): raise PanicEdge('panic', f'index out of bounds: the len is {len(bs)} but the index is {i}', fr.fn.name)
                    return Ref(Cell(bs[i]))
            r = self.place_ref(fr, p[1])
            return Ref(r.cell, r.path + (i,))
        raise Unmodelled('place ref ' + repr(p))

    def runtime_type(self, v):
        """type text of a runtime value, with generic arguments recovered from field values where a field has a parameter type"""
        while isinstance(v, Ref): v = self.ref_get(v)
        if not isinstance(v, (Adt, SymEnum)): return '_'
        gs = self.mir.src.struct_generics.get(v.ty)
        if not gs or not isinstance(v, Adt): return v.ty
        args = []
        for g in gs:
            t = '_'
            for i, (fname, fty) in enumerate(self.mir.src.struct_types.get(v.ty, [])):
                if fty == g and i < len(v.fields): t = self.runtime_type(v.fields[i]); break
            args.append(t)
        return v.ty + '<' + ', '.join(args) + '>'

    def zst_value(self, fr, local):
        """zero-sized locals (capture-less closures, unit, fn items) are never assigned in MIR"""
        t = fr.fn.locals.get(local, '')
        if t.startswith('{closure@'):
            f = self.mir.closures.get(t)
            if f is not None: return Closure(f, [], fr.subst)
        if t == '()': return UNIT
        if t.startswith('PhantomData'): return Adt('PhantomData', 0, [])
        return UNINIT

    def concretize(self, term, limit=8):
        """a symbolic scalar that must be concrete to proceed: fork over its feasible values (bounded)"""
        term = z3.simplify(term)
        if z3.is_bv_value(term): return term.as_long()
        dom = self.domains.get(term.get_id())
        if dom is not None and len(dom) <= limit:
            vals = sorted(dom)
            if len(vals) == 1: return vals[0]
            c = self.choose([term == v for v in vals]); self.domains[term.get_id()] = {vals[c]}
            return vals[c]
        def enum():
            vals, extra = [], []
            for _ in range(limit + 1):          # enumerate up to `limit` feasible values
                r, m = self.check_sat(*extra)
                if r != z3.sat: break
                v = m.eval(term, model_completion=True); vals.append(v); extra.append(term != v)
            vals.sort(key=lambda v: v.as_long())
            return vals
        vals = self.memo(enum)
        if len(vals) > limit: raise BoundExceeded(f'concretize: more than {limit} feasible values for {term}')
        if not vals: raise Infeasible()
        c = self.choose([term == v for v in vals])
        return vals[c].as_long()

    # ------------------------------------------------------------ value helpers
    def copy_val(self, v):
        """value copy for `copy` operands (Copy types) -- structural, not through pointers"""
        if isinstance(v, Adt): return Adt(v.ty, v.variant, [self.copy_val(x) for x in v.fields])
        if isinstance(v, HList): return HList([self.copy_val(x) for x in v.items])
        if isinstance(v, SymEnum):
            s = SymEnum(v.ty, v.disc, v.nvar, v.factory, v.tag)
            s.alts = v.alts          # payloads of Copy enums are immutable in practice; share lazily-created alternatives
            return s
        if isinstance(v, Closure): return Closure(v.fn, [self.copy_val(x) for x in v.fields], v.subst)
        return v

    def eval_const(self, c, fr, dest_ty=''):
        if fr is not None and fr.subst and c in fr.subst: c = fr.subst[c]         # const generic parameter
        if c == 'true': return True
        if c == 'false': return False
        if c == '()': return UNIT
        m = re.match(r'^(?:[\w:]+::)?(Result|Option)::<.*>::(Ok|Err|Some)\((.*)\)$', c)
        if m:            # a constant Result / Option value (e.g. the residual `Err(())` of a `?` on a unit error)
            inner = self.eval_const(m.group(3), fr, '')
            return Adt(m.group(1), {'Ok': 0, 'Err': 1, 'Some': 1}[m.group(2)], [inner])
        m = _INTLIT.match(c)
        if m: return int(m.group(1))
        m = _FLOATLIT.match(c)
        if m: return float(m.group(1).replace('NaN', 'nan'))
        if c.startswith('"'):
            from .strings import const_str
            return const_str(self, _unescape(c[1:-1]))
        if c.startswith('b"'):
            bs = _unescape_bytes(c[2:-1]); return SliceRef(Ref(Cell(HList(list(bs)))), 0, len(bs))
        if c.startswith("'"): return ord(_unescape(c[1:-1]))
        if c.startswith("b'"): return ord(_unescape(c[2:-1]))
        if c.startswith('ZeroSized: '):
            t = c[11:]
            if t.startswith('{closure@'):
                f = self.mir.closures.get(canon(t))
                if f is None: raise Unmodelled('closure? ' + t)
                return Closure(f, [], fr.subst)
            return FnItem(self.subst_text(canon(t), fr), fr.subst)
        m = re.match(r'(?:core::num::)?(?:<impl )?(\w+)>?::(MAX|MIN)$', c)
        if m and m.group(1) in INT_TYPES:
            bits, sg = INT_TYPES[m.group(1)]
            if m.group(2) == 'MAX': return (1 << (bits - 1)) - 1 if sg else (1 << bits) - 1
            return -(1 << (bits - 1)) if sg else 0
        if c.startswith('{0x') or re.match(r'0x[0-9a-f]+ as ', c) or re.fullmatch(r'\{transmute\(0x([0-9a-f]+)\): .*\}', c):
            m = re.search(r'0x([0-9a-f]+)', c); return int(m.group(1), 16)
        m = re.fullmatch(r'\{(alloc\d+): &(.*)\}', c)
        if m:
            # reference to a static item: one shared cell per (MIR, static type)
            ty = canon(m.group(2)); st = self.mir.__dict__.setdefault('_static_cells', {})
            if ty not in st: st[ty] = Cell(Opaque('static', ty))
            return Ref(st[ty])
        if 'SizedTypeProperties>::ALIGN' in c or 'SizedTypeProperties>::SIZE' in c or 'SizedTypeProperties>::IS_ZST' in c:
            if c.endswith('IS_ZST'): return False
            return 8
        m = re.search(r'::promoted\[(\d+)\]$', c)
        if m:
            key = (fr.fn.name, int(m.group(1)))
            pf = fr.fn.promoted.get(int(m.group(1)))
            if pf is None:
                # promoted of a parent item referenced from a closure etc.
                for f2 in self.mir.fns.values():
                    if c.endswith(f2.name.split('::')[-2] + '::promoted[' + m.group(1) + ']') if '::promoted' in f2.name else False: pf = f2; break
            if pf is None: raise Unmodelled('promoted? ' + c)
            return self.run_fn(pf, [], fr.subst)
        m = re.search(r'f64(?:::<impl f64>)?::(NAN|INFINITY|NEG_INFINITY|EPSILON|MAX|MIN|MIN_POSITIVE)$', c)
        if m: return {'NAN': float('nan'), 'INFINITY': float('inf'), 'NEG_INFINITY': -float('inf'), 'EPSILON': 2.220446049250313e-16, 'MAX': 1.7976931348623157e308, 'MIN': -1.7976931348623157e308, 'MIN_POSITIVE': 2.2250738585072014e-308}[m.group(1)]
        if c.startswith(('std::iter::Empty', 'core::iter::Empty')): return It('empty')
        if c.startswith(('std::marker::PhantomData', 'PhantomData')): return Adt('PhantomData', 0, [])
        # unit-like enum variant or unit struct constant
        cc = canon(c)
        if c.startswith(('std::', 'core::', 'alloc::')) and not any(x in c for x in ('option::Option', 'result::Result', 'cmp::Ordering', 'borrow::Cow')): raise Unmodelled('const of a std type: ' + c[:120])
        segs = [x for x in self._path_segments(cc) if not x.startswith('<')]
        enums = self.mir.src.enums
        if len(segs) >= 2 and segs[-2] in enums and segs[-1] in enums[segs[-2]]:
            return Adt(segs[-2], enums[segs[-2]].index(segs[-1]), [])
        if len(segs) == 1 and segs[0] in self._variant_owner():
            owners = self._variant_owner()[segs[0]]; dh = type_head(dest_ty)[0] if dest_ty else ''
            pick = [o for o in owners if o == dh] or owners
            return Adt(pick[0], enums[pick[0]].index(segs[0]), [])
        if len(segs) == 1 and segs[0] in self.mir.src.structs: return Adt(segs[0], 0, [])
        # one-line const item (`const NAME: usize = const 40_usize;`)
        cl = self.mir.const_lits.get(segs[-1]) if segs and re.fullmatch(r'[A-Z][A-Z0-9_]*', segs[-1]) else None
        if cl:
            vals = {v for _, v in cl}
            if len(vals) > 1: raise Unmodelled(f'const item {segs[-1]} is defined {len(cl)} times with different values')
            return self.eval_const(cl[0][1], fr, cl[0][0])
        # const item with a body in the dump (`const NAME: T = { .. }`): evaluated by running it
        cs = self.mir.consts.get(segs[-1]) if segs and re.fullmatch(r'[A-Z][A-Z0-9_]*', segs[-1]) else None
        if cs:
            if len(cs) > 1: raise Unmodelled(f'const item {segs[-1]} is defined {len(cs)} times (ambiguous by last segment)')
            return self.run_fn(cs[0], [], {})
        # `repeat_with(f)` with a fn item folded into a constant: RepeatWith::<F> {{ repeater: f }}
        m = re.match(r'^(?:\w+::)*RepeatWith::<.*> \{\{ repeater: (.*) \}\}$', cc)
        if m:
            from .std_iter import It as _It
            return _It('repeat_with', FnItem(self.subst_text(canon(m.group(1)), fr), fr.subst))
        # function item as constant
        if re.match(r'[\w<{]', cc): return FnItem(self.subst_text(cc, fr), fr.subst)
        raise Unmodelled('const? ' + c)

    def operand(self, fr, o):
        k = o[0]
        if k == 'move': return self.read_place(fr, o[1])
        if k == 'copy': return self.copy_val(self.read_place(fr, o[1]))
        if k == 'const':
            cache = o[2]
            v = cache[0]
            if v is None or fr.subst:
                v = self.eval_const(o[1], fr)
                if isinstance(v, (int, float, bool)) and not fr.subst: cache[0] = v
            return v
        if k == 'fnitem': return FnItem(self.subst_text(canon(o[1]), fr), fr.subst)
        raise Unmodelled('operand ' + repr(o))

    # ------------------------------------------------------------ arithmetic
    def binop(self, op, a, b, ty):
        info = INT_TYPES.get(ty)
        if ty == 'f64' or isinstance(a, float) or isinstance(b, float) or z3.is_fp(a) or z3.is_fp(b): return self.fbinop(op, a, b)
        if ty == 'bool' or isinstance(a, bool) or isinstance(b, bool) or z3.is_bool(a) or z3.is_bool(b): return self.bbinop(op, a, b)
        if isinstance(a, Ref) or isinstance(b, Ref):
            if op == 'Eq': return isinstance(a, Ref) and a.same(b)
            if op == 'Ne': return not (isinstance(a, Ref) and a.same(b))
            if op == 'Offset': return Ref(a.cell, a.path, a.off + b)
            raise Unmodelled('pointer op ' + op)
        if info is None:
            if isinstance(a, int) and isinstance(b, int): info = (64, a < 0 or b < 0)
            elif is_sym(a): info = (a.size(), False)
            elif is_sym(b): info = (b.size(), False)
            else: raise Unmodelled(f'binop {op} on {a!r}, {b!r} ty={ty!r}')
        bits, sg = info
        conc = isinstance(a, int) and isinstance(b, int)
        if op.endswith('WithOverflow'):
            base = op[:3]
            if conc:
                r = {'Add': a + b, 'Sub': a - b, 'Mul': a * b}[base]
                w = wrap_int(r, bits, sg); return tup(w, w != r)
            A, B = self.bv(a, bits), self.bv(b, bits)
            if base == 'Add':
                ovf = z3.Not(z3.And(z3.BVAddNoOverflow(A, B, sg), z3.BVAddNoUnderflow(A, B))) if sg else z3.Not(z3.BVAddNoOverflow(A, B, False))
                return tup(A + B, ovf)
            if base == 'Sub':
                ovf = z3.Not(z3.And(z3.BVSubNoOverflow(A, B), z3.BVSubNoUnderflow(A, B, sg))) if sg else z3.ULT(A, B)
                return tup(A - B, ovf)
            ovf = z3.Not(z3.And(z3.BVMulNoOverflow(A, B, sg), z3.BVMulNoUnderflow(A, B))) if sg else z3.Not(z3.BVMulNoOverflow(A, B, False))
            return tup(A * B, ovf)
        if op.endswith('Unchecked'): op = op[:-9]
        if conc:
            if op == 'Add': return wrap_int(a + b, bits, sg)
            if op == 'Sub': return wrap_int(a - b, bits, sg)
            if op == 'Mul': return wrap_int(a * b, bits, sg)
            if op == 'Div':
                if b == 0: raise PanicEdge('panic', 'division by zero')
                q = abs(a) // abs(b); return wrap_int(q if (a < 0) == (b < 0) else -q, bits, sg)
            if op == 'Rem':
                if b == 0: raise PanicEdge('panic', 'remainder by zero')
                r = abs(a) % abs(b); return wrap_int(-r if a < 0 else r, bits, sg)
            if op == 'BitAnd': return wrap_int(a & b, bits, sg)
            if op == 'BitOr': return wrap_int(a | b, bits, sg)
            if op == 'BitXor': return wrap_int(a ^ b, bits, sg)
            if op == 'Shl': return wrap_int(a << (b % bits), bits, sg)
            if op == 'Shr': return wrap_int(a >> (b % bits), bits, sg) if sg else (a & ((1 << bits) - 1)) >> (b % bits)
            if op == 'Eq': return a == b
            if op == 'Ne': return a != b
            if op == 'Lt': return a < b
            if op == 'Le': return a <= b
            if op == 'Gt': return a > b
            if op == 'Ge': return a >= b
            if op == 'Cmp': return Adt('Ordering', (a > b) - (a < b) + 1, [])
            raise Unmodelled('int op ' + op)
        A, B = self.bv(a, bits), self.bv(b, bits)
        if op == 'Add': return A + B
        if op == 'Sub': return A - B
        if op == 'Mul': return A * B
        if op == 'Div': return (A / B) if sg else z3.UDiv(A, B)
        if op == 'Rem': return z3.SRem(A, B) if sg else z3.URem(A, B)
        if op == 'BitAnd': return A & B
        if op == 'BitOr': return A | B
        if op == 'BitXor': return A ^ B
        if op == 'Shl': return A << B
        if op == 'Shr': return (A >> B) if sg else z3.LShR(A, B)
        if op == 'Eq': return A == B
        if op == 'Ne': return A != B
        if op == 'Lt': return (A < B) if sg else z3.ULT(A, B)
        if op == 'Le': return (A <= B) if sg else z3.ULE(A, B)
        if op == 'Gt': return (A > B) if sg else z3.UGT(A, B)
        if op == 'Ge': return (A >= B) if sg else z3.UGE(A, B)
        if op == 'Cmp':
            lt = (A < B) if sg else z3.ULT(A, B)
            if self.branch(lt): return Adt('Ordering', 0, [])
            return Adt('Ordering', 1 if self.branch(A == B) else 2, [])
        raise Unmodelled('sym int op ' + op)

    def bv(self, v, bits):
        if isinstance(v, bool): return z3.BitVecVal(int(v), bits)
        if isinstance(v, int): return z3.BitVecVal(v, bits)
        if z3.is_bv(v):
            if v.size() == bits: return v
            return z3.Extract(bits - 1, 0, v) if v.size() > bits else z3.ZeroExt(bits - v.size(), v)
        raise Unmodelled(f'bv of {v!r}')

    def fp(self, v):
        if isinstance(v, float): return z3.FPVal(v, F64)
        if isinstance(v, int): return z3.FPVal(float(v), F64)
        return v

    def fbinop(self, op, a, b):
        if isinstance(a, float) and isinstance(b, float):
            if op == 'Add': return a + b
            if op == 'Sub': return a - b
            if op == 'Mul': return a * b
            if op == 'Div':
                if b == 0.0:
                    if a != a or a == 0.0: return math.nan
                    return math.copysign(math.inf, a) * math.copysign(1.0, b)
                return a / b
            if op == 'Rem': return math.fmod(a, b) if b != 0 and not math.isinf(a) else math.nan
            if op == 'Eq': return a == b
            if op == 'Ne': return a != b
            if op == 'Lt': return a < b
            if op == 'Le': return a <= b
            if op == 'Gt': return a > b
            if op == 'Ge': return a >= b
        A, B = self.fp(a), self.fp(b)
        if op == 'Add': return z3.fpAdd(RNE, A, B)
        if op == 'Sub': return z3.fpSub(RNE, A, B)
        if op == 'Mul': return z3.fpMul(RNE, A, B)
        if op == 'Div': return z3.fpDiv(RNE, A, B)
        if op == 'Rem': return z3.fpRem(A, B) if False else _unmodelled('f64 % on symbolic operands')
        if op == 'Eq': return z3.fpEQ(A, B)
        if op == 'Ne': return z3.Not(z3.fpEQ(A, B))
        if op == 'Lt': return z3.fpLT(A, B)
        if op == 'Le': return z3.fpLEQ(A, B)
        if op == 'Gt': return z3.fpGT(A, B)
        if op == 'Ge': return z3.fpGEQ(A, B)
        raise Unmodelled('float op ' + op)

    def bbinop(self, op, a, b):
        if isinstance(a, bool) and isinstance(b, bool):
            return {'BitAnd': a and b, 'BitOr': a or b, 'BitXor': a != b, 'Eq': a == b, 'Ne': a != b,
                    'Lt': a < b, 'Le': a <= b, 'Gt': a > b, 'Ge': a >= b}[op]
        A = z3.BoolVal(a) if isinstance(a, bool) else a
        B = z3.BoolVal(b) if isinstance(b, bool) else b
        if op == 'BitAnd': return z3.simplify(z3.And(A, B))
        if op == 'BitOr': return z3.simplify(z3.Or(A, B))
        if op in ('BitXor', 'Ne'): return z3.simplify(z3.Xor(A, B))
        if op == 'Eq': return z3.simplify(A == B)
        if op == 'Lt': return z3.And(z3.Not(A), B)
        if op == 'Le': return z3.Or(z3.Not(A), B)
        if op == 'Gt': return z3.And(A, z3.Not(B))
        if op == 'Ge': return z3.Or(A, z3.Not(B))
        raise Unmodelled('bool op ' + op)

    def cast(self, v, to, kind, frm):
        if kind == 'IntToInt':
            tb = INT_TYPES.get(to)
            if tb is None: raise Unmodelled('cast to ' + to)
            bits, sg = tb
            if isinstance(v, bool): v = int(v)
            if isinstance(v, int): return wrap_int(v, bits, sg)
            if z3.is_bool(v): return z3.If(v, z3.BitVecVal(1, bits), z3.BitVecVal(0, bits))
            fb = INT_TYPES.get(frm, (v.size(), False))
            if v.size() == bits: return v
            if v.size() > bits: return z3.Extract(bits - 1, 0, v)
            return z3.SignExt(bits - v.size(), v) if fb[1] else z3.ZeroExt(bits - v.size(), v)
        if kind == 'IntToFloat':
            if isinstance(v, int): return float(v)
            fb = INT_TYPES.get(frm, (v.size(), False))
            return z3.fpSignedToFP(RNE, v, F64) if fb[1] else z3.fpUnsignedToFP(RNE, v, F64)
        if kind == 'FloatToInt':
            bits, sg = INT_TYPES[to]
            lo, hi = (-(1 << (bits - 1)), (1 << (bits - 1)) - 1) if sg else (0, (1 << bits) - 1)
            if isinstance(v, float):
                if v != v: return 0
                if v >= hi: return hi
                if v <= lo: return lo
                return int(v)
            # saturating cast
            t = z3.fpRoundToIntegral(z3.RTZ(), v)
            conv = z3.fpToSBV(z3.RTZ(), t, z3.BitVecSort(bits)) if sg else z3.fpToUBV(z3.RTZ(), t, z3.BitVecSort(bits))
            hi_f = z3.FPVal(float(hi + 1), F64)      # hi+1 = 2^(bits-1) or 2^bits is exactly representable
            lo_f = z3.FPVal(float(lo), F64)
            return z3.If(z3.fpIsNaN(v), z3.BitVecVal(0, bits),
                         z3.If(z3.fpGEQ(v, hi_f), z3.BitVecVal(hi, bits),
                               z3.If(z3.fpLEQ(v, lo_f), z3.BitVecVal(lo, bits), conv)))
        if kind == 'FloatToFloat': return v
        if kind in ('PtrToPtr', 'MutToConstPointer', 'PointerCoercion(MutToConstPointer)', 'FnPtrToPtr'): return v
        if kind.startswith('PointerCoercion'):
            if 'Unsize' in kind: return self.unsize(v, to)
            if 'ReifyFnPointer' in kind or 'ClosureFnPointer' in kind: return v
            return v
        if kind == 'Transmute':
            if to.startswith(('*const', '*mut', '&')) or to.startswith(('NonNull', 'Unique')):
                w = v
                while isinstance(w, Adt) and w.ty in ('Box', 'Unique', 'NonNull'): w = w.fields[0]
                if to.startswith('NonNull'): return Adt('NonNull', 0, [w])
                return w
            if to == 'usize':
                if isinstance(v, Ref): return v.cell.addr + v.off
                return v
            return v
        if kind in ('PointerExposeProvenance', 'PointerExposeAddress'):
            return v.cell.addr + v.off if isinstance(v, Ref) else v
        raise Unmodelled(f'cast kind {kind} to {to}')

    def unsize(self, v, to):
        # &[T; N] -> &[T];  &T -> &dyn Trait (kept as is: dynamic dispatch is by runtime value);  Box<T> -> Box<dyn>
        if isinstance(v, Ref):
            tgt = self.ref_get(v)
            if isinstance(tgt, HList) and '[' in to: return SliceRef(v, 0, len(tgt.items))
        return v

    # ------------------------------------------------------------ rvalues
    def rvalue(self, fr, rv):
        k = rv[0]
        if k == 'use': return self.operand(fr, rv[1])
        if k == 'ref':
            return self.place_ref(fr, rv[1])
        if k == 'discr':
            v = self.read_place(fr, rv[1])
            return self.discriminant(v)
        if k == 'bin':
            return self.binop(rv[1], self.operand(fr, rv[2]), self.operand(fr, rv[3]), rv[4])
        if k == 'un':
            a = self.operand(fr, rv[2]); op = rv[1]
            if op == 'Not':
                if isinstance(a, bool): return not a
                if z3.is_bool(a): return z3.Not(a)
                if isinstance(a, int):
                    bits, sg = INT_TYPES.get(rv[3], (64, False)); return wrap_int(~a, bits, sg)
                return ~a
            if op == 'Neg':
                if isinstance(a, float): return -a
                if z3.is_fp(a): return z3.fpNeg(a)
                if isinstance(a, int):
                    bits, sg = INT_TYPES.get(rv[3], (64, True)); return wrap_int(-a, bits, sg)
                return -a
            if op == 'PtrMetadata':
                if isinstance(a, SliceRef): return a.end - a.start
                from .strings import str_len
                return str_len(self, a)
            raise Unmodelled('unop ' + op)
        if k == 'len':
            v = self.read_place(fr, rv[1])
            if isinstance(v, HList): return len(v.items)
            if isinstance(v, SliceRef): return v.end - v.start
            raise Unmodelled('Len of ' + repr(v))
        if k == 'cast':
            return self.cast(self.operand(fr, rv[1]), self.subst_text(rv[2], fr), rv[3], rv[4])
        if k == 'agg':
            return Adt(rv[1], rv[2], [self.operand(fr, o) for o in rv[3]])
        if k == 'tuple': return Adt('()', 0, [self.operand(fr, o) for o in rv[1]])
        if k == 'array': return HList([self.operand(fr, o) for o in rv[1]])
        if k == 'repeat':
            n = rv[2]; m = _INTLIT.match(n.replace('const ', ''))
            cnt = int(m.group(1)) if m else int(re.sub(r'\D', '', n) or 0)
            v = self.operand(fr, rv[1]); return HList([self.copy_val(v) for _ in range(cnt)])
        if k == 'closure':
            f = self.mir.closures.get(canon(rv[1]))
            if f is None: raise Unmodelled('closure? ' + rv[1])
            return Closure(f, [self.operand(fr, o) for o in rv[2]], fr.subst)
        if k == 'sizeof': return 8
        if k == 'shallowbox':
            p = self.operand(fr, rv[1]); return Adt('Box', 0, [Adt('Unique', 0, [Adt('NonNull', 0, [p])])])
        raise Unmodelled('rvalue ' + repr(rv))

    def discriminant(self, v):
        if isinstance(v, SymEnum): return v.disc
        if isinstance(v, Adt):
            if v.ty == 'Ordering': return v.variant - 1
            return v.variant
        raise Unmodelled(f'discriminant of {v!r}')

    # ------------------------------------------------------------ execution
    def run_fn(self, f, args, subst=None):
        ex = self.ex
        st = ex.stats
        st.fns[f.name] = st.fns.get(f.name, 0) + 1
        self.depth += 1
        if self.depth > self.max_depth: raise BoundExceeded('call depth')
        fr = Frame(f, subst or {})
        for i, a in enumerate(args): fr.locals[f'_{i + 1}'] = Cell(a)
        if len(args) != f.nargs:
            # closures called through Fn* traits get their arguments as one tuple: spread it
            if f.is_closure and len(args) == 2 and isinstance(args[1], Adt) and args[1].ty == '()' and len(args[1].fields) == f.nargs - 1:
                fr.locals = {'_1': Cell(args[0])}
                for i, a in enumerate(args[1].fields): fr.locals[f'_{i + 2}'] = Cell(a)
            else:
                raise Unmodelled(f'arity: {f.name} takes {f.nargs}, got {len(args)}')
        bb = 'bb0'
        try:
            while True:
                for s in self.block(f, bb):
                    st.steps += 1
                    k = s[0]
                    if k == 'assign':
                        v = self.rvalue(fr, s[2])
                        d = s[1]
                        if d[0] == 'L':
                            c = fr.locals.get(d[1])
                            if c is None: fr.locals[d[1]] = Cell(v)
                            else: c.v = v
                        else: self.ref_set(self.place_ref(fr, d), v)
                    elif k == 'call' or k == 'callv':
                        argv = [self.operand(fr, a) for a in s[3]]
                        if k == 'call': r = self.call(s[2], argv, fr, s[5])
                        else: r = self.call_value(self.operand(fr, s[2]), argv)
                        if s[4] is None: raise Unmodelled('diverging call returned: ' + str(s[2]))
                        d = s[1]
                        if d[0] == 'L':
                            c = fr.locals.get(d[1])
                            if c is None: fr.locals[d[1]] = Cell(r)
                            else: c.v = r
                        else: self.ref_set(self.place_ref(fr, d), r)
                        bb = s[4]; break
                    elif k == 'goto': bb = s[1]; break
                    elif k == 'switch':
                        bb = self.switch(fr, s); break
                    elif k == 'return':
                        c = fr.locals.get('_0')
                        return c.v if c is not None else UNIT
                    elif k == 'drop':
                        try: self.drop_val(self.read_place(fr, s[1]))
                        except Unmodelled: pass
                        bb = s[2]; break
                    elif k == 'assert':
                        v = self.operand(fr, s[1])
                        if s[2]: v = (not v) if isinstance(v, bool) else z3.Not(v)
                        if not self.branch(v): raise PanicEdge('panic', 'MIR assert failed: ' + s[3][:90], f.name)
                        bb = s[4]; break
                    elif k == 'unreachable':
                        raise PanicEdge('ub', 'MIR `unreachable` terminator reached', f.name)
                    elif k == 'setdiscr':
                        r = self.place_ref(fr, s[1]); v = self.ref_get(r)
                        if isinstance(v, Adt): v.variant = s[2]
                        else: self.ref_set(r, Adt(type_head(self.place_type(s[1], f))[0], s[2], []))
                    elif k == 'resume': raise Unmodelled('resume reached')
                    else: raise Unmodelled('stmt kind ' + k)
                else:
                    raise Unmodelled(f'block {bb} of {f.name} fell through')
                if st.steps > self.fuel: raise BoundExceeded(f'fuel exhausted (MIR steps per path)')
                if self.deadline and (st.steps & 1023) == 0 and time.time() > self.deadline: raise BoundExceeded('job time limit')
        except PanicEdge as p:
            if not p.site: p.site = f.name
            raise
        finally:
            self.depth -= 1

    def switch(self, fr, s):
        v = self.operand(fr, s[1]); targets, other = s[2], s[3]
        if isinstance(v, bool): v = int(v)
        if isinstance(v, int):
            if v < 0:
                bits = INT_TYPES.get(s[4], (64, True))[0]; v &= (1 << bits) - 1
            for k, b in targets:
                if k == v: return b
            if other is None: raise PanicEdge('ub', 'switchInt without matching target', fr.fn.name)
            return other
        if z3.is_bool(v):
            # [0: bbF, otherwise: bbT]
            f_t = None; t_t = other
            for k, b in targets:
                if k == 0: f_t = b
                else: t_t = b
            if f_t is None: f_t = other
            return t_t if self.branch(v) else f_t
        # symbolic integer / discriminant: fork once per distinct target block
        v = z3.simplify(v)
        if z3.is_bv_value(v):
            n = v.as_long()
            for k, b in targets:
                if k == n: return b
            return other
        vid = v.get_id(); dom = self.domains.get(vid)
        groups = {}
        for k, b in targets:
            if dom is None or k in dom: groups.setdefault(b, []).append(k)
        alts = [(b, ks) for b, ks in groups.items()]
        if other is not None:
            rest = (dom - {k for k, _ in targets}) if dom is not None else None
            if rest is None or rest: alts.append((other, None))
        if not alts: raise Infeasible()
        if len(alts) == 1 and dom is not None:
            b, ks = alts[0]
            if ks is not None: self.domains[vid] = set(ks)
            return b
        conds = []
        for b, ks in alts:
            if ks is not None: conds.append(_or_eq(v, vid, ks))
            else: conds.append(z3.Not(_or_eq(v, vid, [k for k, _ in targets])))
        c = self.choose(conds)
        b, ks = alts[c]
        if ks is not None: self.domains[vid] = set(ks)
        elif dom is not None: self.domains[vid] = dom - {k for k, _ in targets}
        return b

    # ------------------------------------------------------------ drops / clones
    def drop_val(self, v):
        if isinstance(v, RcVal):
            b = v.box
            b.strong -= 1
            if b.strong == 0: self.drop_val(b.cell.v)
        elif isinstance(v, Adt):
            if v.ty == 'RefGuard':          # std::cell::Ref / RefMut: release the borrow
                flag = v.fields[1]
                cur = self.ref_get(flag)
                self.ref_set(flag, 0 if v.fields[2] else max(0, cur - 1))
                return
            if v.ty == 'Box':
                p = self.box_ptr(v)
                if isinstance(p, Ref): self.drop_val(self.ref_get(p))
                return
            for x in v.fields: self.drop_val(x)
        elif isinstance(v, HList):
            for x in v.items: self.drop_val(x)
        elif isinstance(v, HMap):
            for k2, x in v.entries: self.drop_val(k2); self.drop_val(x)
        elif isinstance(v, SymEnum):
            for a in v.alts.values(): pass      # payload ownership of a symbolic enum is not tracked (over-approximates strong counts)
        elif isinstance(v, Closure):
            for x in v.fields: self.drop_val(x)

    def clone_val(self, v):
        """structural clone == derived Clone (Rc strong counts incremented, Box contents cloned)"""
        if isinstance(v, RcVal):
            v.box.strong += 1; return RcVal(v.box, v.kind)
        if isinstance(v, Adt):
            if v.ty == 'Box':
                inner = self.clone_val(self.ref_get(self.box_ptr(v)))
                return self.new_box(inner)
            return Adt(v.ty, v.variant, [self.clone_val(x) for x in v.fields])
        if isinstance(v, HList): return HList([self.clone_val(x) for x in v.items])
        if isinstance(v, HMap): return HMap([[self.clone_val(a), self.clone_val(b)] for a, b in v.entries], v.sorted, v.order_tag)
        if isinstance(v, SymEnum):
            s = SymEnum(v.ty, v.disc, v.nvar, (lambda var, src=v: [self.clone_val(x) for x in src.alt(var).fields]), v.tag)
            return s
        if isinstance(v, Closure): return Closure(v.fn, [self.clone_val(x) for x in v.fields], v.subst)
        if isinstance(v, It):
            return It(v.kind, *[self.clone_val(x) for x in v.a])
        if isinstance(v, list): return [self.clone_val(x) for x in v]
        from .strings import BStr, CharIdx
        if isinstance(v, CharIdx): return v.clone()
        return v

    def new_box(self, v):
        return Adt('Box', 0, [Adt('Unique', 0, [Adt('NonNull', 0, [Ref(Cell(v))])]), Adt('Global', 0, [])])

    # ------------------------------------------------------------ generics
    def subst_text(self, t, fr_or_subst):
        subst = fr_or_subst.subst if isinstance(fr_or_subst, Frame) else fr_or_subst
        if not subst: return t
        key = tuple(subst)
        rx = _SUBST_RX.get(key)
        if rx is None:
            rx = _SUBST_RX[key] = re.compile(r'(?<![\w:])(' + '|'.join(re.escape(k) for k in sorted(subst, key=len, reverse=True)) + r')(?![\w])')
        out = rx.sub(lambda m: subst[m.group(1)], t)
        return out

    def call_value(self, f, args):
        """call a first-class callable (closure / fn item / host stub) with positional args"""
        if isinstance(f, Ref): f = self.ref_get(f)
        if isinstance(f, Closure):
            kind = f.fn.closure_kind
            selfarg = f if kind == 'once' else Ref(Cell(f))
            return self.run_fn(f.fn, [selfarg] + list(args), f.subst)
        if isinstance(f, FnItem):
            return self.call(f.text, list(args), None, None, subst=f.subst)
        if isinstance(f, HostFn): return f.fn(self, *args)
        raise Unmodelled(f'call of non-callable {f!r}')

    def call(self, callee, args, fr, cache, subst=None):
        from .resolve import resolve
        if subst is None: subst = fr.subst if fr is not None else {}
        key = fr.skey if fr is not None else tuple(sorted(subst.items()))
        tgt = cache.get(key) if cache is not None else None
        if tgt is None:
            tgt = resolve(self, callee, subst)
            if cache is not None: cache[key] = tgt
        kind = tgt[0]
        if kind == 'mir':
            h = self.hooks.get(tgt[1].name)
            if h is not None: return h(self, args, tgt)
            return self.run_fn(tgt[1], args, tgt[2])
        if kind == 'model':
            st = self.ex.stats; st.models[tgt[3]] = st.models.get(tgt[3], 0) + 1
            return tgt[1](self, args, tgt[2])
        if kind == 'dyn':
            # trait object: dispatch on the runtime type of the receiver
            ci = tgt[1]; recv = args[0]
            while isinstance(recv, Ref): recv = self.ref_get(recv)
            if not isinstance(recv, (Adt, SymEnum)): raise Unmodelled(f'dyn dispatch on {recv!r}')
            while isinstance(recv, Adt) and recv.ty == 'Box':       # Box<dyn Trait>: the method is the boxed value's
                inner = self.box_ptr(recv); args = [inner] + list(args[1:]); recv = self.ref_get(inner)
            return self.call(f'<{self.runtime_type(recv)} as {ci.trait}>::{ci.method}', args, None, None, subst={})
        raise Unmodelled('unresolved callee: ' + callee)


_SUBST_RX = {}
_EQ_CACHE = {}


def _has_fp(t, depth=0):
    if z3.is_fp(t): return True
    if depth > 6: return False
    try: return any(_has_fp(c, depth + 1) for c in t.children())
    except Exception: return False



def _or_eq(v, vid, ks):
    key = (vid, tuple(ks))
    t = _EQ_CACHE.get(key)
    if t is None:
        t = z3.Or(*[v == k for k in ks]) if len(ks) > 1 else v == ks[0]
        _EQ_CACHE[key] = (t, v)       # keep v alive so that its id stays valid
        return t
    return t[0]


class Violation:
    def __init__(self, what, model, vm):
        self.what, self.model = what, model
        self.notes = list(vm.notes)
        self.pc = list(vm.pc)

    def __repr__(self): return f'Violation({self.what})'


def _unmodelled(msg): raise Unmodelled(msg)


def _unescape(s):
    out, i, n = [], 0, len(s)
    while i < n:
        c = s[i]
        if c != '\\': out.append(c); i += 1; continue
        d = s[i + 1]
        if d == 'n': out.append('\n'); i += 2
        elif d == 't': out.append('\t'); i += 2
        elif d == 'r': out.append('\r'); i += 2
        elif d == '0': out.append('\0'); i += 2
        elif d in '\\\'"': out.append(d); i += 2
        elif d == 'x': out.append(chr(int(s[i + 2:i + 4], 16))); i += 4
        elif d == 'u':
            e = s.index('}', i); out.append(chr(int(s[i + 3:e], 16))); i = e + 1
        else: out.append(d); i += 2
    return ''.join(out)


def _unescape_bytes(s):
    out, i, n = bytearray(), 0, len(s)
    while i < n:
        c = s[i]
        if c != '\\': out += c.encode('utf-8'); i += 1; continue
        d = s[i + 1]
        if d == 'x': out.append(int(s[i + 2:i + 4], 16)); i += 4
        else: out += {'n': b'\n', 't': b'\t', 'r': b'\r', '0': b'\0', '\\': b'\\', "'": b"'", '"': b'"'}[d]; i += 2
    return bytes(out)


def explore(mir, harness, *hargs, timeout_ms=10000, seed=0, fuel=2_000_000, max_paths=None, on_path=None):
    """run `harness(vm, *hargs)` along every feasible path; returns (Explorer, results list).
    A harness returns a list of Violation (or None); PanicEdge escaping a harness is recorded as a result of kind 'edge'."""
    ex = Explorer(timeout_ms, seed)
    results = []
    while True:
        vm = VM(mir, ex, fuel=fuel)
        try:
            r = harness(vm, *hargs)
            ex.stats.paths += 1
            if r: results.extend(r if isinstance(r, list) else [r])
            if on_path: on_path(vm, r)
        except Infeasible:
            ex.stats.infeasible += 1
        if max_paths and ex.stats.paths >= max_paths: raise BoundExceeded(f'more than {max_paths} paths')
        if not ex.backtrack(): break
    return ex, results
