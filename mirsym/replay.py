"""python3-vt -m mirsym.replay <path>: re-run a recorded counterexample against a fresh dev and release build of /repo."""
import sys, json, importlib, os


def main():
    p = sys.argv[1]
    rec = json.load(open(p))
    from .load import Workspace
    from .run import Ctx
    prop = importlib.import_module(f'mirsym.props.{rec["property"]}')
    ws = Workspace(); ctx = Ctx(ws, 'quick', 0)
    try:
        r = prop.replay(ctx, rec['finding'])
        print(json.dumps({'property': rec['property'], 'role': rec['finding']['role'], 'cex': rec['finding'].get('cex'), 'replay': r}, indent=1, default=str))
        return 1 if r.get('reproduced') else 0
    finally:
        ctx.close(); ws.cleanup()


if __name__ == '__main__':
    sys.exit(main())
