"""Cross-solver audit (DESIGN §2.3 / §9.9): a sample of the assertion queries that z3 5.1 answered `unsat` (path condition
∧ ¬assertion) is re-decided, from its SMT-LIB2 text, by two other solver builds: cvc5 1.0 and z3 4.8.12 (/usr/bin/z3).
`sat` from either is a disagreement: the run is INCONCLUSIVE (exit 2) -- an encoding that one solver misreads is not a
verdict.  An `(error` line, `unknown` or a timeout is counted as "not decided by that solver" (z3-specific syntax such as
fp.to_ieee_bv or the sequence extensions is not accepted everywhere) and claims nothing either way."""
import subprocess, tempfile, os, time, re
from concurrent.futures import ThreadPoolExecutor

SOLVERS = {
    'cvc5-1.0': lambda f, t: ['cvc5', '--lang', 'smt2', f'--tlimit={t * 1000}', '--strings-exp', f],
    'z3-4.8.12': lambda f, t: ['/usr/bin/z3', f'-T:{t}', f],
}


def _prep(text):
    # z3 prints no (set-logic ..); both readers want ALL for the FP / BV / sequence / UF mix
    if '(set-logic' not in text: text = '(set-logic ALL)\n' + text
    if '(check-sat)' not in text: text += '\n(check-sat)\n'
    return text


def _one(args):
    name, path, tlim = args
    try:
        p = subprocess.run(SOLVERS[name](path, tlim), capture_output=True, text=True, timeout=tlim + 5)
        out = (p.stdout or '') + (p.stderr or '')
    except subprocess.TimeoutExpired:
        return 'timeout'
    except FileNotFoundError:
        return 'missing'
    if '(error' in out or 'rror:' in out: return 'unsupported'
    lines = [l.strip() for l in out.splitlines() if l.strip()]
    for l in lines:
        if l in ('sat', 'unsat', 'unknown'): return l
    return 'timeout' if 'timeout' in out else 'unsupported'


def audit(results, tier, nthreads=12):
    """results: job result dicts carrying 'xqueries'.  Returns a summary dict; summary['disagreements'] lists (job, solver)"""
    cap_total = 48 if tier == 'quick' else 320
    tlim = 5 if tier == 'quick' else 20
    per_job = [(r['job'], q) for r in results for q in r.get('xqueries', [])]
    # spread the cap over the jobs: round-robin
    by_job = {}
    for j, q in per_job: by_job.setdefault(j, []).append(q)
    picked = []
    k = 0
    while len(picked) < cap_total and any(by_job.values()):
        for j in list(by_job):
            if by_job[j]:
                picked.append((j, by_job[j].pop(0)))
                if len(picked) >= cap_total: break
        k += 1
    summary = {'sampled_from': len(per_job), 'queries_audited': len(picked), 'time_limit_s': tlim,
               'solvers': {n: {'unsat': 0, 'sat': 0, 'unknown': 0, 'timeout': 0, 'unsupported': 0, 'missing': 0} for n in SOLVERS},
               'disagreements': [], 'confirmed_by_at_least_one': 0}
    if not picked: return summary
    t0 = time.time()
    d = tempfile.mkdtemp(prefix='rrss-xsolver-', dir=os.environ.get('VERIF_SCRATCH_PARENT', '/var/tmp'))
    try:
        tasks = []
        for i, (j, q) in enumerate(picked):
            path = os.path.join(d, f'q{i}.smt2')
            with open(path, 'w') as f: f.write(_prep(q))
            for n in SOLVERS: tasks.append((n, path, tlim))
        with ThreadPoolExecutor(nthreads) as ex:
            outs = list(ex.map(_one, tasks))
        conf = [False] * len(picked)
        for (n, path, _), o in zip(tasks, outs):
            i = int(re.search(r'q(\d+)\.smt2$', path).group(1))
            summary['solvers'][n][o] = summary['solvers'][n].get(o, 0) + 1
            if o == 'unsat': conf[i] = True
            if o == 'sat': summary['disagreements'].append({'job': picked[i][0], 'solver': n, 'query_chars': len(picked[i][1])})
        summary['confirmed_by_at_least_one'] = sum(conf)
    finally:
        import shutil
        shutil.rmtree(d, ignore_errors=True)
    summary['wall_s'] = round(time.time() - t0, 1)
    return summary
