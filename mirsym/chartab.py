"""char predicates and case mapping: exact on ASCII; on the finite representative set R of non-ASCII code points the
table is produced by the native helper from the real std (chartab.load); everything else is outside the bound."""
import z3
from .values import *

R = [0xE9, 0xC9, 0xDF, 0x212A, 0x661, 0xA0, 0x2028, 0x1F600, 0x130, 0xFEFF]
PREDS = ('is_alphabetic', 'is_numeric', 'is_alphanumeric', 'is_whitespace', 'is_lowercase', 'is_uppercase', 'is_control')
TABLE = None      # cp -> {'is_alphabetic': bool, ..., 'lower': [cps], 'upper': [cps]}


def _py_table():
    t = {}
    for cp in R:
        c = chr(cp)
        t[cp] = {'is_alphabetic': c.isalpha(), 'is_numeric': c.isnumeric(), 'is_alphanumeric': c.isalnum() or c.isnumeric(),
                 'is_whitespace': c.isspace() and cp not in (0x1c, 0x1d, 0x1e, 0x1f), 'is_lowercase': c.islower(), 'is_uppercase': c.isupper(),
                 'is_control': cp < 32 or 0x7f <= cp < 0xa0,
                 'lower': [ord(x) for x in c.lower()], 'upper': [ord(x) for x in c.upper()]}
    return t


def load(table):
    global TABLE
    TABLE = {int(k): v for k, v in table.items()}


def table():
    global TABLE
    if TABLE is None: TABLE = _py_table()
    return TABLE


def _rng(c, lo, hi):
    if isinstance(c, int): return lo <= c <= hi
    return z3.And(z3.UGE(c, lo), z3.ULE(c, hi))


def _or(*xs):
    if all(isinstance(x, bool) for x in xs): return any(xs)
    xs = [x for x in xs if not (isinstance(x, bool) and not x)]
    if any(isinstance(x, bool) and x for x in xs): return True
    return z3.Or(*xs) if len(xs) > 1 else xs[0]


def _and(*xs):
    if all(isinstance(x, bool) for x in xs): return all(xs)
    if any(isinstance(x, bool) and not x for x in xs): return False
    xs = [x for x in xs if not isinstance(x, bool)]
    return z3.And(*xs) if len(xs) > 1 else xs[0]


def _nonascii(c, pred):
    """pred on the non-ASCII part of the domain (members of R per the table)"""
    t = table()
    if isinstance(c, int):
        if c not in t: raise Unmodelled(f'char U+{c:04X} is outside ASCII ∪ R (no table entry)')
        return t[c][pred]
    hits = [c == cp for cp, e in t.items() if e[pred]]
    return _or(*hits) if hits else False


def _split(c, ascii_formula, pred):
    if isinstance(c, int): return ascii_formula if c < 128 else _nonascii(c, pred)
    return _or(ascii_formula, _nonascii(c, pred))


def is_alphabetic(c): return _split(c, _or(_rng(c, 65, 90), _rng(c, 97, 122)), 'is_alphabetic')
def is_numeric(c): return _split(c, _rng(c, 48, 57), 'is_numeric')
def is_alphanumeric(c): return _or(is_alphabetic(c), is_numeric(c))
def is_whitespace(c): return _split(c, _or(_rng(c, 9, 13), c == 32), 'is_whitespace')
def is_lowercase(c): return _split(c, _rng(c, 97, 122), 'is_lowercase')
def is_uppercase(c): return _split(c, _rng(c, 65, 90), 'is_uppercase')
def is_control(c): return _split(c, _or(_rng(c, 0, 31), c == 127), 'is_control')
def is_ascii(c): return c < 128 if isinstance(c, int) else z3.ULT(c, 128)
def is_ascii_alphabetic(c): return _or(_rng(c, 65, 90), _rng(c, 97, 122))
def is_ascii_digit(c): return _rng(c, 48, 57)
def is_ascii_alphanumeric(c): return _or(is_ascii_alphabetic(c), is_ascii_digit(c))
def is_ascii_lowercase(c): return _rng(c, 97, 122)
def is_ascii_uppercase(c): return _rng(c, 65, 90)
def is_ascii_whitespace(c): return _or(c == 32, c == 9, c == 10, c == 12, c == 13)
def is_ascii_punctuation(c): return _or(_rng(c, 33, 47), _rng(c, 58, 64), _rng(c, 91, 96), _rng(c, 123, 126))
def is_ascii_hexdigit(c): return _or(_rng(c, 48, 57), _rng(c, 65, 70), _rng(c, 97, 102))
def is_ascii_control(c): return _or(_rng(c, 0, 31), c == 127)
def is_ascii_graphic(c): return _rng(c, 33, 126)
def is_digit10(c): return _rng(c, 48, 57)


def case_map(vm, c, lower, ascii_only):
    """list of code points c maps to.  A symbolic c is split (forked) into: ASCII letter of the affected case / each
    member of R whose mapping is not the identity / everything else (identity)."""
    t = table()
    if isinstance(c, int):
        if c < 128:
            if lower and 65 <= c <= 90: return [c + 32]
            if not lower and 97 <= c <= 122: return [c - 32]
            return [c]
        if ascii_only: return [c]
        if c not in t: raise Unmodelled(f'case mapping of U+{c:04X} (outside ASCII ∪ R)')
        return list(t[c]['lower' if lower else 'upper'])
    lo, hi = (65, 90) if lower else (97, 122)
    if vm.branch(_rng(c, lo, hi)): return [c + 32 if lower else c - 32]
    if not ascii_only:
        for cp, e in t.items():
            m = e['lower' if lower else 'upper']
            if m != [cp] and vm.branch(c == cp): return list(m)
    return [c]


def table_chars(src_root):
    """R plus every non-ASCII character that occurs in the repository's own test programs (so that the program-level
    translator validation can run them); the symbolic character domain stays ASCII ∪ R"""
    import glob, os
    extra = set()
    for p in glob.glob(os.path.join(src_root, 'tests', '*.rs')) + glob.glob(os.path.join(src_root, 'src', '**', 'tests.rs'), recursive=True):
        try:
            for ch in open(p, encoding='utf-8').read():
                if ord(ch) > 127: extra.add(ord(ch))
        except OSError: pass
    more = set()
    for cp in extra:
        c = chr(cp)
        for d in c.lower() + c.upper(): more.add(ord(d))
    return sorted(set(R) | extra | {x for x in more if x > 127})
