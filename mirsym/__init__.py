"""mirsym — path-wise symbolic executor over rustc's MIR dump of kepler-5/rrss (see /verif/DESIGN.md §2)."""
