"""Grammar-driven construction of rrss AST values.  The grammar (struct fields, enum variants and their types) is read from
the *current* source text, so the generator follows edits to ast.rs; each generated node also gets a reference-side
description (class N) that oracles traverse.  Tree bounding follows DESIGN.md §4.0: `depth` levels below the root range
over every variant / optional / list length, everything deeper is the minimal shape."""
import z3
from .mir import type_head
from .values import *
from .strings import *


class N:
    """reference-side node: ty (type name), variant (name or None), nid, ch = {field: N | [N] | None | scalar}"""
    __slots__ = ('ty', 'variant', 'nid', 'ch', 'adt', 'extra')

    def __init__(self, ty, variant, nid, ch=None, adt=None, extra=None):
        self.ty, self.variant, self.nid, self.ch, self.adt, self.extra = ty, variant, nid, (ch if ch is not None else {}), adt, extra

    def __repr__(self): return f'{self.ty}{"::" + self.variant if self.variant else ""}#{self.nid}'

    def kids(self):
        for v in self.ch.values():
            if isinstance(v, N): yield v
            elif isinstance(v, list):
                for x in v:
                    if isinstance(x, N): yield x

    def walk(self):
        yield self
        for k in self.kids(): yield from k.walk()

    def describe(self, depth=0):
        if depth > 8: return '...'
        parts = []
        for k, v in self.ch.items():
            if isinstance(v, N): parts.append(f'{k}={v.describe(depth + 1)}')
            elif isinstance(v, list): parts.append(f'{k}=[' + ', '.join(x.describe(depth + 1) if isinstance(x, N) else repr(x) for x in v) + ']')
            elif v is None: parts.append(f'{k}=None')
        return f'{self.ty}{"::" + self.variant if self.variant else ""}' + ('(' + ', '.join(parts) + ')' if parts else '')


SCALARS = ('String', 'f64', 'bool', 'isize', 'usize', 'u32', 'SourceRange', 'SourceLocation')


class Gen:
    def __init__(self, vm, mir, list_max=2, names=None, strings=None, numbers=None):
        self.vm, self.mir, self.src = vm, mir, mir.src
        self.n = 0
        self.by_obj = {}          # id(adt) -> N
        self.keep = []
        self.list_max = list_max
        self.names = names        # callable (gen, path) -> string value for identifier words
        self.strings = strings    # callable (gen, path) -> string value for literals
        self.numbers = numbers    # callable (gen, path) -> f64 value
        self._mindepth = {}
        self.force = {}           # path -> forced variant name / list length / (path + '?') -> 'Some' | 'None'
        self.flat = []            # path prefixes generated in their minimal shape regardless of depth
        self.deep = {}            # exact path -> depth to continue with below that node
        self.min_choices = {}     # enum type -> callable(path) -> list of variant names to range over where the minimal shape is used

    def nid(self):
        self.n += 1; return self.n

    # ---- grammar helpers
    def is_enum(self, ty): return ty in self.src.enums and (ty, self.src.enums[ty][0]) in self.src.variant_types if self.src.enums.get(ty) else False

    def min_depth(self, ty, seen=()):
        """depth of the shallowest value of a type (used to pick minimal shapes)"""
        if ty in self._mindepth: return self._mindepth[ty]
        if ty in seen: return 99
        head, args = type_head(ty)
        if head in SCALARS or ty in SCALARS: d = 0
        elif head in ('Vec', 'Option'): d = 0
        elif head in ('Box', 'Arc', 'Rc'): d = self.min_depth(args[0], seen + (ty,))
        elif head == 'WithRange': d = 1 + self.min_depth(args[0], seen + (ty,))
        elif self.is_enum(head):
            d = 1 + min(max([self.min_depth(t, seen + (ty,)) for _, t in self.src.variant_types[(head, v)]] or [0]) for v in self.src.enums[head])
        elif head in self.src.struct_types:
            d = 1 + max([self.min_depth(t, seen + (ty,)) for _, t in self.src.struct_types[head]] or [0])
        else: raise Unmodelled(f'astgen: unknown type {ty}')
        if not seen: self._mindepth[ty] = d
        return d

    def minimal_variant(self, ty):
        best = None
        for v in self.src.enums[ty]:
            d = max([self.min_depth(t) for _, t in self.src.variant_types[(ty, v)]] or [0])
            if best is None or d < best[0]: best = (d, v)
        return best[1]

    # ---- generation
    def gen(self, ty, depth, path='root'):
        """returns (VM value, reference description)"""
        vm = self.vm
        head, args = type_head(ty)
        if depth > 0 and any(path.startswith(p) for p in self.flat): depth = 0
        if path in self.deep: depth = self.deep[path]
        if ty == 'String' or head == 'String':
            f = self.names if ('Identifier' in path or 'name' in path or 'params' in path) else self.strings
            s = f(self, path) if f else SymStr(z3.String(f's.{path}'))
            return s, ('str', s)
        if ty == 'f64':
            x = self.numbers(self, path) if self.numbers else z3.FP(f'n.{path}', F64)
            return x, ('num', x)
        if ty == 'bool':
            b = z3.Bool(f'b.{path}'); return b, ('bool', b)
        if ty in ('isize', 'usize', 'u32'):
            v = z3.BitVec(f'i.{path}', 64 if ty != 'u32' else 32)
            if ty == 'isize': vm.assume(z3.And(v >= 1, v <= 1000))
            return v, ('int', v)
        if ty == 'SourceRange':
            nid = self.nid(); line = getattr(self, 'line', None)
            if line is not None: return Adt('SourceRange', 0, [Adt('SourceLocation', 0, [line, 2 * nid]), Adt('SourceLocation', 0, [line, 2 * nid + 1])]), ('range', nid)
            return Adt('SourceRange', 0, [Adt('SourceLocation', 0, [nid, 0]), Adt('SourceLocation', 0, [nid, 1])]), ('range', nid)
        if ty == 'SourceLocation':
            nid = self.nid(); line = getattr(self, 'line', None)
            return Adt('SourceLocation', 0, [line if line is not None else nid, 2 * nid if line is not None else 0]), ('loc', nid)
        if head == 'Box':
            v, d = self.gen(args[0], depth, path); return vm.new_box(v), d
        if head in ('Arc', 'Rc'):
            v, d = self.gen(args[0], depth, path); return RcVal(RcBox(v), head), d
        if head == 'Option':
            forced = self.force.get(path + '?')
            present = (forced == 'Some') if forced is not None else (vm.fork(2, note=f'{path}?') == 1 if depth > 0 else False)
            if not present: return Adt('Option', 0, []), None
            v, d = self.gen(args[0], depth, path); return Adt('Option', 1, [v]), d
        if head == 'Vec':
            forced = self.force.get(path)
            n = forced if isinstance(forced, int) else (vm.fork(self.list_max + 1, note=f'{path}.len') if depth > 0 else (1 if path.endswith('ProperIdentifier.0') else 0))
            # the first element ranges like its parent slot, further elements are minimal (order / completeness of list traversal)
            items = [self.gen(args[0], depth if i == 0 else 0, f'{path}[{i}]') for i in range(n)]
            return Adt('Vec', 0, [HList([v for v, _ in items])]), [d for _, d in items]
        if head == 'WithRange':
            inner, d = self.gen(args[0], depth, path)
            rng, rd = self.gen('SourceRange', 0, path)
            adt = Adt('WithRange', 0, [inner, rng])
            node = N('WithRange', None, self.nid(), {'inner': d, 'range': rd}, adt); self.reg(adt, node)
            return adt, node
        if self.is_enum(head):
            vs = self.src.enums[head]
            if all(not self.src.variant_types[(head, v)] for v in vs) and self.force.get(path) is None:
                # fieldless enum (operators, directions): the variant stays a solver variable
                tag = f'{head}@{path}'
                disc = z3.BitVec(tag, 64)
                vm.assume(z3.ULT(disc, len(vs))); vm.domains[disc.get_id()] = set(range(len(vs))); vm.keep.append(disc)
                se = SymEnum(head, disc, len(vs), lambda v: [], tag=tag)
                node = N(head, None, self.nid(), {}, se, extra={'tag': tag, 'disc': disc}); self.keep.append(se)
                return se, node
            forced = self.force.get(path)
            if forced is not None: vname = forced
            elif depth > 0: vname = vs[vm.fork(len(vs), note=path)]
            elif head in self.min_choices:
                cs = self.min_choices[head](path)
                vname = cs[vm.fork(len(cs), note=path)] if len(cs) > 1 else cs[0]
            else: vname = self.minimal_variant(head)
            ch, vals = {}, []
            for fname, fty in self.src.variant_types[(head, vname)]:
                v, d = self.gen(fty, depth - 1 if depth > 0 else 0, f'{path}.{vname}.{fname}')
                vals.append(v); ch[str(fname)] = d
            adt = Adt(head, vs.index(vname), vals)
            node = N(head, vname, self.nid(), ch, adt); self.reg(adt, node)
            return adt, node
        if head in self.src.struct_types:
            ch, vals = {}, []
            for fname, fty in self.src.struct_types[head]:
                v, d = self.gen(fty, depth, f'{path}.{head}.{fname}')
                vals.append(v); ch[str(fname)] = d
            adt = Adt(head, 0, vals)
            node = N(head, None, self.nid(), ch, adt); self.reg(adt, node)
            return adt, node
        raise Unmodelled(f'astgen: cannot generate {ty}')

    def reg(self, adt, node):
        self.by_obj[id(adt)] = node; self.keep.append(adt)

    def node_of(self, v):
        """reference node of a VM value (through references / boxes / Rc)"""
        vm = self.vm
        for _ in range(8):
            if isinstance(v, Ref): v = vm.ref_get(v)
            elif isinstance(v, RcVal): v = v.box.cell.v
            elif isinstance(v, Adt) and v.ty == 'Box': v = vm.ref_get(vm.box_ptr(v))
            else: break
        return self.by_obj.get(id(v))
