"""Host-side value representation of the MIR VM."""
import re
import z3

F64 = z3.Float64()
RNE = z3.RNE()


class Infeasible(Exception):
    pass


class Unmodelled(Exception):
    """the VM met something it has no semantics for: the run is INCONCLUSIVE, never a pass"""


class BoundExceeded(Exception):
    pass


class PanicEdge(Exception):
    """a panic (kind='panic') or undefined-behaviour (kind='ub') edge was reached on a feasible path"""

    def __init__(self, kind, msg, site=''):
        Exception.__init__(self, f'{kind}: {msg} @ {site}')
        self.kind, self.msg, self.site = kind, msg, site


class Cell:
    __slots__ = ('v', 'addr')
    _n = 0

    def __init__(self, v=None):
        self.v = v
        Cell._n += 1
        self.addr = 0x100000 + 64 * Cell._n

    def __repr__(self): return f'Cell({self.v!r})'


class Uninit:
    def __repr__(self): return 'UNINIT'


UNINIT = Uninit()


class Ref:
    """reference / raw pointer: a heap or stack cell plus a projection path into its value"""
    __slots__ = ('cell', 'path', 'off')

    def __init__(self, cell, path=(), off=0):
        self.cell, self.path, self.off = cell, path, off

    def __repr__(self): return f'Ref({self.path})'

    def same(self, o): return isinstance(o, Ref) and self.cell is o.cell and self.path == o.path and self.off == o.off


class Adt:
    __slots__ = ('ty', 'variant', 'fields')

    def __init__(self, ty, variant=0, fields=None):
        self.ty, self.variant, self.fields = ty, variant, ([] if fields is None else fields)

    def __repr__(self): return f'{self.ty}#{self.variant}{self.fields!r}'


class SymEnum:
    """enum value whose variant is a solver term; per-variant payloads are created on demand"""
    __slots__ = ('ty', 'disc', 'nvar', 'alts', 'factory', 'tag')

    def __init__(self, ty, disc, nvar, factory, tag=None):
        self.ty, self.disc, self.nvar, self.alts, self.factory, self.tag = ty, disc, nvar, {}, factory, tag

    def alt(self, v):
        a = self.alts.get(v)
        if a is None:
            a = Adt(self.ty, v, self.factory(v)); self.alts[v] = a
        return a

    def __repr__(self): return f'{self.ty}#?{self.disc}'


def tup(*fields): return Adt('()', 0, list(fields))


UNIT = Adt('()', 0, [])


class HList:
    """backing store of Vec / VecDeque / arrays / slices"""
    __slots__ = ('items',)

    def __init__(self, items): self.items = items

    def __repr__(self): return f'HList{self.items!r}'


class SliceRef:
    """&[T] / &mut [T]: reference to an HList plus bounds"""
    __slots__ = ('ref', 'start', 'end')

    def __init__(self, ref, start, end): self.ref, self.start, self.end = ref, start, end

    def __repr__(self): return f'Slice[{self.start}:{self.end}]'


class RcBox:
    __slots__ = ('cell', 'strong')

    def __init__(self, v): self.cell, self.strong = Cell(v), 1


class RcVal:
    __slots__ = ('box', 'kind')

    def __init__(self, box, kind='Rc'): self.box, self.kind = box, kind

    def __repr__(self): return f'{self.kind}({self.box.cell.v!r}; strong={self.box.strong})'


class Closure:
    __slots__ = ('fn', 'fields', 'subst')

    def __init__(self, fn, fields, subst): self.fn, self.fields, self.subst = fn, fields, subst

    def __repr__(self): return f'Closure({self.fn.name})'


class FnItem:
    __slots__ = ('text', 'subst')

    def __init__(self, text, subst): self.text, self.subst = text, subst

    def __repr__(self): return f'FnItem({self.text})'


class HostFn:
    """a harness-provided callable usable wherever the VM calls a closure (environment stub)"""
    __slots__ = ('fn', 'name')

    def __init__(self, fn, name='host'): self.fn, self.name = fn, name


class SymStr:
    """opaque string (String or &str): a z3 sequence term; all strings, unbounded"""
    __slots__ = ('term',)

    def __init__(self, term): self.term = term if not isinstance(term, str) else zs(term)

    def __repr__(self): return f'SymStr({self.term})'


class It:
    """lazy iterator object: kind + state"""
    __slots__ = ('kind', 'a')

    def __init__(self, kind, *a): self.kind, self.a = kind, list(a)

    def __repr__(self): return f'It:{self.kind}'


class HMap:
    """HashMap / BTreeMap: association list; `order` is the (possibly harness-chosen) iteration permutation"""
    __slots__ = ('entries', 'sorted', 'order_tag')

    def __init__(self, entries=None, sorted_=False, order_tag=None):
        self.entries, self.sorted, self.order_tag = (entries if entries is not None else []), sorted_, order_tag

    def __repr__(self): return f'HMap{self.entries!r}'


class Opaque:
    """an environment object the VM never looks into (Formatter, io handles, ...)"""
    __slots__ = ('kind', 'data')

    def __init__(self, kind, data=None): self.kind, self.data = kind, data

    def __repr__(self): return f'Opaque({self.kind})'


INT_TYPES = {'u8': (8, False), 'u16': (16, False), 'u32': (32, False), 'u64': (64, False), 'u128': (128, False), 'usize': (64, False),
             'i8': (8, True), 'i16': (16, True), 'i32': (32, True), 'i64': (64, True), 'i128': (128, True), 'isize': (64, True),
             'char': (32, False)}


def wrap_int(v, bits, signed):
    v &= (1 << bits) - 1
    if signed and v >> (bits - 1): v -= 1 << bits
    return v


def is_sym(v): return isinstance(v, z3.ExprRef)


def zs(s):
    """z3 string literal of a Python str (z3 interprets \\u{..} escapes in its input: escape backslashes and non-Latin-1)"""
    if s.isascii() and '\\' not in s and s.isprintable(): return z3.StringVal(s)
    return z3.StringVal(''.join(c if (32 <= ord(c) < 127 and c != '\\') else '\\u{%x}' % ord(c) for c in s))


_UESC = re.compile(r'\\u\{([0-9a-fA-F]+)\}')


def zstr(t):
    """Python str of a z3 string value (undoes z3's \\u{..} output escapes); terms built from seq.unit(char.from_bv ..)
    that model evaluation leaves unfolded are folded here"""
    if z3.is_string_value(t): return _UESC.sub(lambda m: chr(int(m.group(1), 16)), t.as_string())
    t = z3.simplify(t)
    if z3.is_string_value(t): return _UESC.sub(lambda m: chr(int(m.group(1), 16)), t.as_string())
    d = t.decl().name()
    if d == 'str.++': return ''.join(zstr(t.arg(i)) for i in range(t.num_args()))
    if d == 'seq.unit':
        c = t.arg(0)
        if c.decl().name() == 'char.from_bv':
            b = z3.simplify(c.arg(0))
            if z3.is_bv_value(b): return chr(b.as_long())
        if c.decl().name() == 'Char': return chr(c.params()[0]) if hasattr(c, 'params') else chr(int(str(c)))
    if d == 'seq.empty': return ''
    raise ValueError(f'not a string value: {t}')

