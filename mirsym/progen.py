"""Bounded-exhaustive program *shapes* for the program-level properties.  A shape is a Rockstar text with placeholders
(number literal 900k, string literal "§k"); the harness makes every placeholder (and every input line / stream fault) a
symbolic value, so one shape stands for all its instances and the solver decides every branch.  Shapes are enumerated on
the host, deterministically, from a small grammar up to a size bound (stated in the property's BOUNDS), and dealt to jobs
in fixed-size chunks; the job forks over its chunk."""
import itertools

# --------------------------------------------------------------------------------------------------- control flow (C04)
# statements: ('say',) ('err',) ('break',) ('continue',) ('if', then, else|None) ('while'|'until', body)


LOOPS = ('while', 'until'); ERR = True


def _stmts(n, depth, in_loop, maxlen):
    """all statements of size exactly n (n >= 1)"""
    out = []
    if n == 1:
        out += [('say',)]
        if in_loop: out += [('break',), ('continue',)]
        elif ERR: out += [('err',)]
        out += [('if', (), None)]                       # empty then, no else
        return out
    if depth <= 0: return out
    # if without else: then-block of size n-1 (>= 1)
    for b in _blocks(n - 1, depth - 1, in_loop, maxlen): out.append(('if', b, None))
    # if with else: else-block counts, either may be empty (size 0) but not both
    for k in range(0, n):
        for t in _blocks(k, depth - 1, in_loop, maxlen):
            for e in _blocks(n - 1 - k, depth - 1, in_loop, maxlen):
                if not t and not e: continue
                if e == () and t: pass
                out.append(('if', t, e))
    for kind in LOOPS:
        for b in _blocks(n - 1, depth - 1, True, maxlen): out.append((kind, b))
    return out


_BC = {}


def _blocks(n, depth, in_loop, maxlen):
    """all blocks (tuples of statements) of total size exactly n"""
    key = (n, depth, in_loop, maxlen, LOOPS, ERR)
    if key in _BC: return _BC[key]
    res = []
    if n == 0: res = [()]
    else:
        def rec(rem, acc):
            if rem == 0: res.append(tuple(acc)); return
            if len(acc) >= maxlen: return
            for k in range(1, rem + 1):
                for s in _stmts(k, depth, in_loop, maxlen):
                    if acc and acc[-1] == ('say',) and s == ('say',): continue      # two adjacent says add nothing
                    if acc and acc[-1][0] in ('break', 'continue') and s != ('say',): continue   # after a jump only a (dead) say
                    rec(rem - k, acc + [s])
        rec(n, [])
    _BC[key] = res
    return res


class _R:
    def __init__(self): self.lines, self.nh, self.nm, self.spec, self.depth = [], 0, 0, {}, 0

    def hole(self, **o):
        self.nh += 1
        if self.nh > 9: raise OverflowError('more than 9 placeholders')
        self.spec[f'n{self.nh}'] = o
        return f'900{self.nh}'

    def marker(self):
        self.nm += 1; return f'say {self.nm}'

    def cond(self, loopvar):
        if loopvar is None: return self.hole()
        return f'{loopvar} is {self.hole(lo=0, hi=3, integral=True)}'

    def block(self, b, loopvar):
        for s in b: self.stmt(s, loopvar)

    def stmt(self, s, loopvar):
        k = s[0]; L = self.lines
        if k == 'say': L.append(self.marker())
        elif k == 'err': L.append('say 1 at 1')
        elif k == 'break': L.append('Break')
        elif k == 'continue': L.append('Continue')
        elif k == 'if':
            L.append('If ' + self.cond(loopvar))
            self.block(s[1], loopvar)
            if s[2] is not None:
                L.append('Else'); self.block(s[2], loopvar)
                if not s[2]: L.append('')               # an empty block is itself one blank line
            elif not s[1]: L.append('')
            L.append('')
        else:
            v = 'C' + 'abcdef'[self.depth]; self.depth += 1
            L.append(f'{v} is 0')
            L.append(f'While {v} is less than 2' if k == 'while' else f'Until {v} is as high as 2')
            L.append(f'Build {v} up')
            self.block(s[1], v)
            L.append('')
            self.depth -= 1


def control_flow_shapes(size, depth=3, maxlen=3, loops=('while', 'until'), err=True, min_size=1):
    """[(text, spec)] for every top-level block of total size min_size..=size"""
    global LOOPS, ERR
    LOOPS, ERR = tuple(loops), err
    out = []
    for n in range(min_size, size + 1):
        for b in _blocks(n, depth, False, maxlen):
            r = _R()
            try: r.block(b, None)
            except OverflowError: continue
            r.lines.append(r.marker())
            out.append(('\n'.join(r.lines) + '\n', r.spec))
    return out


def multi_block_shapes(size, depth=3, maxlen=3):
    """every control-flow shape of total size 2..=size with a blank line (= a new top-level block) inserted at one or at every top-level boundary"""
    global LOOPS, ERR
    LOOPS, ERR = ('while', 'until'), True
    out = []
    for n in range(2, size + 1):
        for b in _blocks(n, depth, False, maxlen):
            if len(b) < 2: continue
            cuts = [(i,) for i in range(1, len(b))] + ([tuple(range(1, len(b)))] if len(b) > 2 else [])
            for cut in cuts:
                r = _R()
                try:
                    for i, st in enumerate(b):
                        if i in cut: r.lines.append('')
                        r.stmt(st, None)
                except OverflowError: continue
                r.lines.append(''); r.lines.append(r.marker())
                out.append(('\n'.join(r.lines) + '\n', r.spec))
    return out


def chunks(xs, n):
    return [xs[i:i + n] for i in range(0, len(xs), n)]


if __name__ == '__main__':
    import sys
    for n in range(1, 7):
        print(n, len(control_flow_shapes(n)), len(control_flow_shapes(n, loops=('while',), err=False)))
    for t, sp in control_flow_shapes(3)[-5:]: print(repr(t), sp)


# --------------------------------------------------------------------------------------- functions / scopes (C05)
BODY_ATOMS = ['Put 9003 into X', 'Put 9003 into Y', 'Put 9003 into Z', 'say X\nBuild it up', 'say Y\nPut 9003 into it', 'Z is 9003\nBuild it up',
              'say X', 'say Y', 'Build X up', 'Let X be with Y', 'say it',
              'C is 0\nWhile C is less than 2\nBuild C up\ngive back X\n', 'If 9003\ngive back Y\n', 'C is 0\nUntil C is 2\nBuild C up\nZ is 9003\nIf C is 1\nBreak\n\n']
PARAMS = [['X'], ['Y'], ['Z'], ['X', 'Y'], ['Y', 'X']]
ARGS = ['X', 'Y', '9005']
RETS = ['X', 'Y', 'it', 'X plus Y']


def _renumber(text):
    """placeholders that occur twice (an atom used twice) get distinct numbers: 9003 -> 9003, 9006, 9007 ...; returns (text, spec)"""
    import re
    seen = {}; nxt = [6]; spec = {}
    def sub(m):
        k = int(m.group(1))
        if k not in seen: seen[k] = True; spec[f'n{k}'] = {}; return m.group(0)
        n = nxt[0]; nxt[0] += 1
        if n > 9: raise OverflowError
        spec[f'n{n}'] = {}
        return f'900{n}'
    t = re.sub(r'\b900(\d)\b', sub, text)
    return t, spec


def function_shapes(max_body=1):
    """global X, Y; one function F(params) with a body of <= max_body atoms and a return; one call with arguments drawn
    from {X, Y, literal}; then the globals are printed"""
    out = []
    for params in PARAMS:
        for args in itertools.product(ARGS, repeat=len(params)):
            for nb in range(0, max_body + 1):
                for body in itertools.product(BODY_ATOMS, repeat=nb):
                    for ret in RETS:
                        lines = ['X is 9001', 'Y is 9002', 'F takes ' + ' and '.join(params)] + list(body) + ['give back ' + ret, '',
                                 'say F taking ' + ', '.join(args), 'say X', 'say Y']
                        try: out.append(_renumber('\n'.join(lines) + '\n'))
                        except OverflowError: pass
    return out


SCOPE_ATOMS = ['Z is 9002', 'Put 9003 into X', 'say it', 'Build it up', 'say X', 'say Z']


def scope_shapes(max_len=2):
    """global X; <= max_len statements, each an atom or an atom inside an if / a one-pass loop / a called function; then X and Z are printed"""
    stmts = list(SCOPE_ATOMS)
    for a in SCOPE_ATOMS:
        stmts.append(f'If 9004\n{a}\n')
        stmts.append(f'C is 0\nWhile C is less than 1\nBuild C up\n{a}\n')
        stmts.append(f'C is 0\nWhile C is less than 2\nBuild C up\n{a}\nBreak\n')
    out = []
    for n in range(1, max_len + 1):
        for seq in itertools.product(stmts, repeat=n):
            lines = ['X is 9001'] + list(seq) + ['say X', 'say Z']
            try: out.append(_renumber('\n'.join(lines) + '\n'))
            except OverflowError: pass
    return out


# ------------------------------------------------------------------------------------------------- input / output (C08)
IO_ATOMS = ['say "a"', 'say X', 'Listen to X', 'Listen']


def io_shapes(max_len=2, wrappers=None, min_len=1):
    """(wrappers: restrict the statement wrappers to these indices of {0 bare, 1 branch, 2 loop, 3 function statement, 4 function in
    an expression}; min_len: shortest sequence generated)  X holds a string; <= max_len I/O statements, each bare / in a taken branch / in a 2-pass loop / in a function called
    as a statement / in a function called inside an expression; finally X is printed"""
    stmts = []
    for k, a in enumerate(IO_ATOMS):
        stmts.append(a)
        stmts.append(f'If true\n{a}\n')
        stmts.append(f'C is 0\nWhile C is less than 2\nBuild C up\n{a}\n')
        stmts.append(('F', a, 'F taking 1'))
        stmts.append(('G', a, 'say G taking 1'))
    out = []
    sel = [i for i in range(len(stmts)) if wrappers is None or i % 5 in wrappers]
    for n in range(min_len, max_len + 1):
        for seq in itertools.product(sel, repeat=n):
            defs, body = [], []
            oc, ic = 1, 0                                  # calls on the output / input stream of a fault-free run with enough input
            for j, si in enumerate(seq):
                s = stmts[si]
                a = IO_ATOMS[si // 5]; mult = 2 if si % 5 == 2 else 1
                if a.startswith('say'): oc += mult
                else: ic += mult
                if si % 5 == 4: oc += 1                    # say G taking 1
                if isinstance(s, tuple):
                    name = f'{s[0]}{"abc"[j]}'
                    defs += [f'{name} takes P', s[1], 'give back 1', '']
                    body.append(s[2].replace(s[0] + ' taking', name + ' taking'))
                else: body.append(s)
            lines = ['X is "init"'] + defs + body + ['say X', 'say X plus 1']          # the second line shows whether X is still a string
            out.append(('\n'.join(lines) + '\n', {'out_calls': oc + 1, 'in_calls': ic}))
    return out


# ------------------------------------------------------------------- every statement on every value kind (C09)
KIND_PRELUDE = {
    'undefined-name': [],
    'mysterious': ['Put mysterious into X'],
    'null': ['Put null into X'],
    'boolean': ['Put 9001 is 9002 into X'],
    'number': ['Put 9001 into X'],
    'string': ['Put "§1" into X'],
    'array': ['Rock X with 9001, "§1"', 'Let X at "k" be 9002'],
    'empty-array': ['Rock X'],
    'function': ['X takes P', 'give back P', ''],
}
OPERAND = {'number': '9003', 'string': '"§2"', 'array': 'Y', 'null': 'null'}
OPERAND_PRELUDE = {'array': ['Rock Y with 9003, "§2"']}
# statement / expression forms with X in every operand slot; {Y} is the second operand
FORMS_1 = ['say X', 'say not X', 'say 0 minus X', 'Build X up', 'Knock X down, down', 'Turn up X', 'Turn down X', 'Turn round X', 'Cut X', 'Cut X into Z', 'Join X', 'Join X into Z',
           'Cast X', 'Cast X into Z', 'Rock X', 'Rock X like a lovestruck ladykiller', 'Roll X', 'Roll X into Z', 'say roll X', 'X taking 1', 'say X taking 1, 2', 'If X\nsay 1\n', 'While X\nsay 1\nbreak\n',
           'Until X\nsay 1\nbreak\n', 'Listen to X', 'give back X', 'X is a rockstar', 'X says hello', 'say X at 0 at 1', 'Let X at 0 at 1 be 2', 'Put X into X', 'Let X be X', 'say X is X', 'say X plus X',
           'Put X into W\nBuild W up\nsay W\nsay X', 'F takes P\nBuild P up\nRock P with 1\ngive back P\n\nsay F taking X\nsay X', 'say it', 'Let it at 1 be 1', 'Roll it', 'Rock it with 1',
           'Let X be with X', 'Let X be of X', 'Let X be without X', 'Let X be over X', 'Let X be with X, 1', 'Let X be with 1, X', 'Put X plus X into X', 'Let X at 0 be X', 'Let X be X at 0', 'Rock X with X', 'Build X up, up\nKnock X down']
FORMS_2 = ['say X at {Y}', 'say {Y} at X', 'say X plus {Y}', 'say {Y} plus X', 'say X minus {Y}', 'say {Y} minus X', 'say X times {Y}', 'say {Y} times X', 'say X over {Y}', 'say {Y} over X',
           'say X is {Y}', 'say X is not {Y}', 'say X is greater than {Y}', 'say {Y} is as low as X', 'say X and {Y}', 'say X or {Y}', 'say X nor {Y}', 'say X plus {Y}, {Y}', 'say X times {Y}, X',
           'Let X at {Y} be 1', 'Let Z at X be {Y}', 'Put {Y} into X', 'Let X be with {Y}', 'Let X be minus {Y}', 'Let X be times {Y}', 'Let X be over {Y}', 'Cut X with {Y}', 'Cut {Y} into Z with X',
           'Join X with {Y}', 'Cast X with {Y}', 'Cast {Y} into Z with X', 'Rock X with {Y}', 'Rock X with {Y}, X', 'Listen to X at {Y}', 'say X taking {Y}', 'Let X at {Y} at {Y} be 1',
           'Turn up X at {Y}', 'Build X up\nsay X at {Y}']


def _finish(lines):
    import re
    text = '\n'.join(lines) + '\n'
    spec = {}
    for m in re.finditer(r'\b900(\d)\b', text): spec[f'n{m.group(1)}'] = {}
    if 'n1' in spec and re.search(r' at X\b', text) and 'Put 9001 into X' in text: spec['n1'] = {'index': True}
    for m in re.finditer(r'§(\d)', text): spec[f's{m.group(1)}'] = {}
    return text, spec


def kind_shapes(operands=('number', 'string', 'array', 'null')):
    """[(text, spec, tag)]: X of every kind x every one-operand form, x every two-operand form with the other operand of every kind"""
    out = []
    for kind, pre in KIND_PRELUDE.items():
        for f in FORMS_1:
            t, sp = _finish(pre + [f, 'say X', 'say "end"'])
            out.append((t, sp))
        for f in FORMS_2:
            for ok in operands:
                t, sp = _finish(pre + OPERAND_PRELUDE.get(ok, []) + [f.replace('{Y}', OPERAND[ok]), 'say X', 'say "end"'])
                out.append((t, sp))
    return out


def poetic_length_shapes(nmax=40):
    """poetic number literals of 1..=nmax words (word lengths cycling 1..10), without a dot and with the dot after 1 / half / all-but-one
    of the words, in assignment, `like` push and `says`-free forms"""
    out = []
    for n in range(1, nmax + 1):
        words = ['abcdefghij'[:(i % 10) + 1] for i in range(n)]
        dots = {None, 1, n // 2, n - 1} - {0, n}
        for d in sorted(dots, key=lambda x: -1 if x is None else x):
            ws = list(words)
            if d is not None: ws[d - 1] = ws[d - 1] + '.'
            lit = ' '.join(ws)
            out.append((f'X is {lit}\nsay X\nRock Arr like {lit}\nsay Arr\n', {}))
    return out



# ------------------------------------------------------------------------- condition kinds (C04): truthiness of every kind
COND_VALUES = {'mysterious': 'mysterious', 'null': 'null', 'boolean': '9001 is 9002', 'number': '9001', 'string': '"§1"', 'empty-string': '""', 'array': None, 'empty-array': None}


def condition_kind_shapes():
    """X of every kind used as the whole condition of if / if-else / while / until (loops left by break after one pass), plain and negated"""
    out = []
    for kind, lit in COND_VALUES.items():
        pre = [f'Put {lit} into X'] if lit is not None else (['Rock X with 9001'] if kind == 'array' else ['Rock X'])
        for cond in ('X', 'not X'):
            lines = pre + [f'If {cond}', 'say 1', 'Else', 'say 2', '', f'While {cond}', 'say 3', 'Break', '', f'Until {cond}', 'say 4', 'Break', '', f'If {cond}', 'say 5', '', 'say 6']
            out.append(_finish(lines))
    return out


# ------------------------------------------------------------------------------------------------- arrays (C06)
ARRAY_ATOMS = ['Rock X with 9001', 'Rock X with 9001, 9002', 'Rock X', 'Roll X', 'Roll X into Y', 'say roll X', 'Let X at 0 be 9003', 'Let X at 2 be 9003', 'Let X at "k" be 9003', 'Let X at null be 9003',
               'Rock X with 9001, X', 'Rock X with 9002, X at 0', 'Let Y be X', 'Rock Y with 5', 'Let Y at 0 be 6', 'Roll Y', 'Let X at 1 be Y', 'Rock X with Y', 'Bump taking X', 'Put X at 0 into X',
               'say X at 0', 'say X at 1', 'say X at "k"', 'say X', 'say Y', 'say X at 0 at 0', 'Put X plus 1 into Z\nsay Z']


def array_shapes(max_len=2):
    """every sequence of <= max_len array statements (push / pop / indexed and keyed writes / copies and mutation of the copy / storing an array
    in an array / passing to a function that mutates its parameter); finally both arrays and an element are printed"""
    out = []
    pre = ['Bump takes L', 'Rock L with 7', 'Let L at 0 be 8', 'give back L', '']
    for n in range(1, max_len + 1):
        for seq in itertools.product(ARRAY_ATOMS, repeat=n):
            lines = pre + list(seq) + ['say X', 'say Y', 'say X at 0', 'say X at "k"']
            try: out.append(_renumber('\n'.join(lines) + '\n'))
            except OverflowError: pass
    return out
