"""fmt model: Display/Debug impls of crate types run from their MIR into a collecting Formatter; `format_args!` templates
(this nightly's byte-coded form) are decoded for plain `{}` / `{:?}` placeholders.  Width/precision/flags are Unmodelled."""
import re
import z3
from .mir import type_head
from .values import *
from .strings import *
from .std import path, path_rx, trait, some, NONE, ok, err, D, D1, conc, truth, call_trait, tyarg, char_string


class Fmt:
    """collecting formatter"""
    __slots__ = ('parts', 'alternate')

    def __init__(self): self.parts = []; self.alternate = False


def new_formatter(): return Ref(Cell(Opaque('Formatter', Fmt())))


def fmt_of(vm, r):
    f = r
    while isinstance(f, Ref): f = vm.ref_get(f)
    if not (isinstance(f, Opaque) and f.kind == 'Formatter'): raise Unmodelled(f'formatter? {f!r}')
    return f.data


def join_parts(vm, parts):
    if not parts: return const_str(vm, '')
    if all(isinstance(p, str) for p in parts): return const_str(vm, ''.join(parts))
    cur = None
    from .std_str import str_concat
    for p in parts:
        p = const_str(vm, p) if isinstance(p, str) else p
        cur = p if cur is None else str_concat(vm, cur, p)
    return cur


def push(vm, f, s):
    """append a string value (py str / SymStr / BStr) to formatter f"""
    if isinstance(s, BStr) and s.concrete() is not None: s = s.concrete()
    elif isinstance(s, SymStr):
        t = z3.simplify(s.term)
        if z3.is_string_value(t): s = zstr(t)
    if isinstance(s, str) and f.parts and isinstance(f.parts[-1], str): f.parts[-1] += s
    else: f.parts.append(s)


def display_into(vm, ty, ref, fref, debug=False):
    """`<ty as Display>::fmt(ref, fref)` (or Debug); returns Result<(), fmt::Error> Adt"""
    f = fmt_of(vm, fref)
    ty = ty.strip()
    v = ref
    t = ty
    while t.startswith('&'):
        t = t[1:].lstrip(); t = t[4:] if t.startswith('mut ') else t
        v = D1(vm, v)
    head = type_head(t)[0]
    tr = 'Debug' if debug else 'Display'
    # crate impl?
    if vm.mir.by_impl.get((tr, head, 'fmt')):
        target = v if isinstance(v, Ref) else Ref(Cell(v))
        return vm.call(f'<{t} as {tr}>::fmt', [target, fref], None, None, subst={})
    x = D(vm, v)
    if isinstance(x, (Adt, SymEnum)) and vm.mir.by_impl.get((tr, x.ty, 'fmt')):      # generic / impl Trait argument: runtime type
        tgt = v
        while isinstance(tgt, Ref) and isinstance(vm.ref_get(tgt), Ref): tgt = vm.ref_get(tgt)
        return vm.call(f'<{x.ty} as {tr}>::fmt', [tgt if isinstance(tgt, Ref) else Ref(Cell(x)), fref], None, None, subst={})
    if isinstance(x, RcVal):
        inner = type_head(t)[1]
        return display_into(vm, inner[0] if inner else '', Ref(x.box.cell), fref, debug)
    if isinstance(x, Adt) and x.ty == 'Box':
        inner = type_head(t)[1]
        return display_into(vm, inner[0] if inner else '', vm.box_ptr(x), fref, debug)
    if isinstance(x, Adt) and x.ty == 'Cow': x = D(vm, x.fields[0])
    if isinstance(x, (SymStr, BStr)):
        if debug: push(vm, f, '"'); push(vm, f, x); push(vm, f, '"')
        else: push(vm, f, x)
        return ok(UNIT)
    if t == 'f64' or isinstance(x, float) or z3.is_fp(x):
        from .std_str import fmt_float
        push(vm, f, fmt_float(vm, x)); return ok(UNIT)
    if isinstance(x, bool): push(vm, f, 'true' if x else 'false'); return ok(UNIT)
    if t == 'char':
        push(vm, f, char_string(vm, x)); return ok(UNIT)
    if isinstance(x, int): push(vm, f, str(x)); return ok(UNIT)
    if is_sym(x) and z3.is_bv(x):
        # symbolic integer: decimal rendering as an uninterpreted function of the value
        push(vm, f, SymStr(int_to_str(vm.bv(x, 64)))); return ok(UNIT)
    if isinstance(x, Opaque) and x.kind == 'Arguments':
        render_args(vm, x, fref); return ok(UNIT)
    raise Unmodelled(f'{tr} for {ty}: {x!r}')


int_to_str = z3.Function('int_to_string', z3.BitVecSort(64), STR)


def display_to_string(vm, ty, ref):
    fr = new_formatter()
    r = conc(vm, display_into(vm, ty, ref, fr))
    if r.variant == 1: raise PanicEdge('panic', 'a Display implementation returned an error (to_string panics)')
    return join_parts(vm, fmt_of(vm, fr).parts)


def decode_template(bs):
    """this nightly's format_args bytecode -> list of ('lit', str) | ('arg', index, flags)"""
    out, i, n, nxt = [], 0, len(bs), 0
    lit = bytearray()
    while i < n:
        b = bs[i]
        if b == 0: break
        if b < 0x80:
            lit += bytes(bs[i + 1:i + 1 + b]); i += 1 + b; continue
        if b == 0x80:     # long literal: u16 length
            ln = bs[i + 1] | (bs[i + 2] << 8); lit += bytes(bs[i + 3:i + 3 + ln]); i += 3 + ln; continue
        if lit: out.append(('lit', lit.decode('utf-8'))); lit = bytearray()
        if b == 0xC0:
            out.append(('arg', nxt, 0)); nxt += 1; i += 1; continue
        # placeholder with options: 0xC0 | bits, followed by option bytes
        flags = b & 0x3F
        i += 1
        opts = {}
        if flags & 1:      # flags word (u32)
            opts['flags'] = int.from_bytes(bytes(bs[i:i + 4]), 'little'); i += 4
        if flags & 2: opts['width'] = int.from_bytes(bytes(bs[i:i + 2]), 'little'); i += 2
        if flags & 4: opts['precision'] = int.from_bytes(bytes(bs[i:i + 2]), 'little'); i += 2
        if flags & 8: nxt = int.from_bytes(bytes(bs[i:i + 2]), 'little'); i += 2
        if flags & ~0xF: raise Unmodelled(f'format placeholder options {flags:#x}')
        out.append(('arg', nxt, opts)); nxt += 1
    if lit: out.append(('lit', lit.decode('utf-8')))
    return out


def render_args(vm, args, fref):
    f = fmt_of(vm, fref)
    tmpl, argv = args.data
    if isinstance(tmpl, str): push(vm, f, tmpl); return
    for p in decode_template(tmpl):
        if p[0] == 'lit': push(vm, f, p[1]); continue
        if p[2] and (p[2].get('width') or p[2].get('precision')): raise Unmodelled('format width/precision')
        a = argv[p[1]]
        kind, ty, ref = a.data
        if p[2] and p[2].get('flags'): f.alternate = True
        r = conc(vm, display_into(vm, ty, ref, fref, debug=(kind == 'debug')))
        f.alternate = False
        if r.variant == 1: raise Unmodelled('fmt::Error propagated inside write!')


@path('Arguments::new', 'Arguments::new_v1', 'Arguments::new_const', 'Arguments::from_str', 'Arguments::from_str_nonconst')
def _(vm, a, ci):
    t = a[0]
    if ci.method in ('from_str', 'from_str_nonconst', 'new_const'):
        s = D(vm, t)
        if isinstance(s, SliceRef): s = vm.ref_get(s.ref).items[s.start]
        return Opaque('Arguments', (zstr(z3.simplify(to_sym(s))), []))
    bs = vm.ref_get(t.ref).items[t.start:t.end] if isinstance(t, SliceRef) else None
    if bs is None: raise Unmodelled('format template ' + repr(t))
    argv = a[1] if len(a) > 1 else None
    items = []
    if argv is not None:
        x = D(vm, argv)
        items = x.items if isinstance(x, HList) else vm.ref_get(x.ref).items[x.start:x.end]
    return Opaque('Arguments', (bytes(bs), list(items)))


@path_rx(r'(?:fmt::)?(?:rt::)?Argument::new_(display|debug|lower_hex|upper_hex)')
def _(vm, a, ci):
    kind = ci.method[4:]
    if kind not in ('display', 'debug'): raise Unmodelled('format trait ' + kind)
    return Opaque('Argument', (kind, ci.fnargs[0] if ci.fnargs else '', a[0]))


@path('format', 'fmt::format', 'std::fmt::format', 'alloc::fmt::format', 'format::format_inner')
def _(vm, a, ci):
    fr = new_formatter(); render_args(vm, a[0], fr)
    return join_parts(vm, fmt_of(vm, fr).parts)


@path('Formatter::write_str')
def _(vm, a, ci):
    from .std_str import S
    push(vm, fmt_of(vm, a[0]), S(vm, a[1])); return ok(UNIT)


@path('Formatter::write_char')
def _(vm, a, ci): push(vm, fmt_of(vm, a[0]), char_string(vm, a[1])); return ok(UNIT)


@trait(('Formatter', 'Write', 'write_str'), ('String', 'Write', 'write_str'))
def _(vm, a, ci):
    from .std_str import S, str_concat
    tgt = a[0]; t = tgt
    while isinstance(t, Ref): t = vm.ref_get(t)
    if isinstance(t, Opaque): push(vm, t.data, S(vm, a[1]))
    else: vm.ref_set(tgt, str_concat(vm, t, S(vm, a[1])))
    return ok(UNIT)


@trait(('Formatter', 'Write', 'write_char'), ('String', 'Write', 'write_char'))
def _(vm, a, ci):
    from .std_str import str_concat
    tgt = a[0]; t = tgt
    while isinstance(t, Ref): t = vm.ref_get(t)
    if isinstance(t, Opaque): push(vm, t.data, char_string(vm, a[1]))
    else: vm.ref_set(tgt, str_concat(vm, t, char_string(vm, a[1])))
    return ok(UNIT)


@path('Formatter::write_fmt')
def _(vm, a, ci): render_args(vm, a[1], a[0]); return ok(UNIT)


@trait(('Formatter', 'Write', 'write_fmt'), ('String', 'Write', 'write_fmt'))
def _(vm, a, ci):
    tgt = a[0]; t = tgt
    while isinstance(t, Ref): t = vm.ref_get(t)
    if isinstance(t, Opaque): render_args(vm, a[1], a[0]); return ok(UNIT)
    fr = new_formatter(); render_args(vm, a[1], fr)
    from .std_str import str_concat
    vm.ref_set(tgt, str_concat(vm, t, join_parts(vm, fmt_of(vm, fr).parts)))
    return ok(UNIT)


@path('Formatter::alternate')
def _(vm, a, ci): return fmt_of(vm, a[0]).alternate


@path('Formatter::pad')
def _(vm, a, ci):
    from .std_str import S
    push(vm, fmt_of(vm, a[0]), S(vm, a[1])); return ok(UNIT)


@trait(('Display', 'fmt'), ('Debug', 'fmt'))
def _(vm, a, ci):
    return display_into(vm, ci.selfty, a[0], a[1], debug=(ci.trait == 'Debug'))


@path_rx(r'Formatter::debug_(tuple|struct)_field(\d)_finish')
def _(vm, a, ci):
    """derived Debug: Name(f1, f2) / Name { a: f1, .. } -- compact form only"""
    from .std_str import S
    f = fmt_of(vm, a[0])
    m = re.match(r'debug_(tuple|struct)_field(\d)_finish', ci.method)
    kind, n = m.group(1), int(m.group(2))
    push(vm, f, S(vm, a[1]))
    rest = a[2:]
    if kind == 'tuple':
        push(vm, f, '(')
        for i in range(n):
            if i: push(vm, f, ', ')
            debug_dyn(vm, rest[i], a[0])
        push(vm, f, ')')
    else:
        push(vm, f, ' { ')
        for i in range(n):
            if i: push(vm, f, ', ')
            push(vm, f, S(vm, rest[2 * i])); push(vm, f, ': ')
            debug_dyn(vm, rest[2 * i + 1], a[0])
        push(vm, f, ' }')
    return ok(UNIT)


def debug_dyn(vm, ref, fref):
    """Debug of a `&dyn Debug`: dispatch on the runtime value"""
    v = ref
    while isinstance(v, Ref): v = vm.ref_get(v)
    if isinstance(v, (Adt, SymEnum)) and vm.mir.by_impl.get(('Debug', v.ty, 'fmt')):
        inner = ref
        while isinstance(vm.ref_get(inner), Ref): inner = vm.ref_get(inner)
        vm.run_fn(vm.mir.by_impl[('Debug', v.ty, 'fmt')][0], [inner, fref], {}); return
    display_into(vm, '', ref, fref, debug=True)


@path('Formatter::debug_list', 'Formatter::debug_map', 'Formatter::debug_set', 'Formatter::debug_struct', 'Formatter::debug_tuple')
def _(vm, a, ci): raise Unmodelled('Debug builders')
