"""Minimal fmt model: Display/Debug of crate types are run from their MIR into a collecting Formatter;
`format!`/`write!` with plain `{}` pieces are assembled from the Arguments aggregate.  Anything else is Unmodelled."""
import re
import z3
from .values import *
from .strings import *
from .std import path, path_rx, trait, some, NONE, ok, err, D, D1, conc, truth, call_trait, tyarg


def display_to_string(vm, ty, ref):
    raise Unmodelled('Display::to_string for ' + ty)
