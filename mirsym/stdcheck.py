"""Conformance of the VM's std models with the real std: the native helper computes a fixed list of expressions with the real
library (op `stdcheck`), this module computes the same list through the model registry; any difference is an encoding
error (exit 2 for every property, nothing is claimed).  Run as part of every check's translator validation."""
import struct
from .values import *
from .strings import *
from . import std, std_iter, std_coll, std_str, std_fmt, std_io      # noqa: F401 (register the models)
from .std import MODELS, conc
from .resolve import CallInfo


def _ci(path, method=None, selfty=None, trait=None):
    ci = CallInfo()
    ci.callee = path; ci.method = method or path.split('::')[-1]; ci.selfty = selfty if selfty is not None else path.rsplit('::', 1)[0]
    ci.trait = trait; ci.targs = []; ci.fnargs = []; ci.tyargs = []; ci.subst = {}; ci.shape = path
    return ci


def P(vm, path, *args, **kw):
    f = MODELS.path.get(path)
    if f is None:
        for rx, g in MODELS.path_rx:
            if rx.fullmatch(path) or rx.search(path): f = g; break
    if f is None: raise Unmodelled('no model for ' + path)
    return f(vm, list(args), _ci(path, **kw))


def T(vm, head, trait, method, *args):
    f = MODELS.trait.get((head, trait, method)) or MODELS.trait.get(('*', trait, method))
    if f is None: raise Unmodelled(f'no model for <{head} as {trait}>::{method}')
    return f(vm, list(args), _ci(f'<{head} as {trait}>::{method}', method=method, selfty=head, trait=trait))


def bits(x): return struct.unpack('<Q', struct.pack('<d', x))[0]


def rdbg(vm, v):
    """Rust Debug rendering of a model result (only the shapes used below)"""
    if isinstance(v, Ref): v = vm.ref_get(v)
    if isinstance(v, bool): return 'true' if v else 'false'
    if isinstance(v, int): return str(v)
    if isinstance(v, BStr): return '"' + v.concrete().replace('\\', '\\\\').replace('"', '\\"').replace('\n', '\\n').replace('\t', '\\t') + '"'
    if isinstance(v, SymStr): return '"' + zstr(z3.simplify(v.term)) + '"'
    if isinstance(v, HList): return '[' + ', '.join(rdbg(vm, x) for x in v.items) + ']'
    if isinstance(v, SliceRef): return '[' + ', '.join(rdbg(vm, x) for x in vm.ref_get(v.ref).items[v.start:v.end]) + ']'
    if isinstance(v, Adt):
        if v.ty == 'Ordering': return ['Less', 'Equal', 'Greater'][v.variant]
        if v.ty == 'Option': return 'None' if v.variant == 0 else f'Some({rdbg(vm, v.fields[0])})'
        if v.ty == 'Result': return ('Ok(' if v.variant == 0 else 'Err(') + rdbg(vm, v.fields[0]) + ')'
        if v.ty == '()': return '(' + ', '.join(rdbg(vm, x) for x in v.fields) + ')' if v.fields else '()'
        if v.ty in ('Vec', 'VecDeque'): return rdbg(vm, v.fields[0])
    raise Unmodelled(f'rdbg of {v!r}')


def rchar(c): return "'" + chr(c) + "'"


import z3


def vm_list():
    from .vm import VM, Explorer
    vm = VM(None, Explorer()) if False else None
    from .vm import VM as _VM
    class _Mir:      # the models used here never touch the MIR
        fns = {}; by_impl = {}; by_name = {}; statics = {}; consts = {}
        class src: enums = {}; structs = {}; impls = {}
    vm = _VM(_Mir(), Explorer()); vm.str_mode = 'bounded'
    out = []
    fs = [0.0, -0.0, 1.5, -2.5, float('nan'), float('inf'), -float('inf'), 1e-300, 9.3e18]
    for a in fs:
        for b in fs:
            out.append('total_cmp ' + rdbg(vm, P(vm, '<impl f64>::total_cmp', a, b)))
            out.append('min ' + str(bits(P(vm, '<impl f64>::min', a, b))))
            out.append('max ' + str(bits(P(vm, '<impl f64>::max', a, b))))
            out.append('copysign ' + str(bits(P(vm, '<impl f64>::copysign', a, b))))
        out.append('signum ' + str(bits(P(vm, '<impl f64>::signum', a))))
        out.append('is_sign_positive ' + rdbg(vm, P(vm, '<impl f64>::is_sign_positive', a)))
        out.append('to_bits ' + str(P(vm, '<impl f64>::to_bits', a)))
        r_ = P(vm, '<impl f64>::sqrt', a); out.append('sqrt NaN' if r_ != r_ else 'sqrt ' + str(bits(r_)))
        if a == a: out.append('clamp ' + str(bits(P(vm, '<impl f64>::clamp', a, -1.0, 2.0))))
    consts = [vm.eval_const('core::f64::<impl f64>::' + n, None, 'f64') for n in ('EPSILON', 'MAX', 'MIN', 'MIN_POSITIVE')]
    out.append('consts ' + ' '.join(str(bits(c)) for c in consts))
    I64MAX, I64MIN = (1 << 63) - 1, -(1 << 63)
    for a in [0, 1, -1, 7, -7, I64MAX, I64MIN]:
        for m in ('wrapping_abs', 'unsigned_abs', 'checked_abs', 'checked_neg', 'wrapping_neg', 'signum'):
            out.append(f'{m} ' + rdbg(vm, P(vm, f'<impl i64>::{m}', a)))
        for b in [1, -1, 2, -3, 0]:
            out.append('checked_div ' + rdbg(vm, P(vm, '<impl i64>::checked_div', a, b)))
            out.append('checked_rem ' + rdbg(vm, P(vm, '<impl i64>::checked_rem', a, b)))
            if b != 0 and not (a == I64MIN and b == -1):
                out.append('rem_euclid ' + rdbg(vm, P(vm, '<impl i64>::rem_euclid', a, b)))
                out.append('div_euclid ' + rdbg(vm, P(vm, '<impl i64>::div_euclid', a, b)))
    for a in [0, 1, 2, 3, 8, 1023, (1 << 64) - 1]:
        for m in ('is_power_of_two', 'leading_zeros', 'trailing_zeros', 'count_ones', 'checked_neg'):
            out.append(f'{m} ' + rdbg(vm, P(vm, f'<impl usize>::{m}', a)))
    S_ = bstr_from_py
    for s in ['', 'a', 'abcabc', 'a,b,,c', 'héllo wörld', 'xx--xx', 'AbC']:
        for p in ['', 'a', 'b', ',', 'xx', 'bc', 'ö']:
            out.append('rsplit_once ' + rdbg(vm, P(vm, '<impl str>::rsplit_once', S_(s), S_(p))))
            out.append('replace ' + rdbg(vm, P(vm, '<impl str>::replace', S_(s), S_(p), S_('Z'))))
            out.append('replacen ' + rdbg(vm, P(vm, '<impl str>::replacen', S_(s), S_(p), S_('YY'), 1)))
        out.append('eq_ignore_ascii_case ' + rdbg(vm, P(vm, '<impl str>::eq_ignore_ascii_case', S_(s), S_('abc'))) + ' ' + rdbg(vm, P(vm, '<impl str>::eq_ignore_ascii_case', S_(s), S_(s.upper()))))
        out.append('repeat ' + rdbg(vm, P(vm, '<impl str>::repeat', S_(s), 2)))
        b = s.encode('utf-8')
        for k in [0, 1, 3]:
            if k > len(b): continue
            try: b[:k].decode('utf-8'); b[k:].decode('utf-8')
            except UnicodeDecodeError: continue
            out.append('split_at ' + rdbg(vm, P(vm, '<impl str>::split_at', S_(s), k)))
            c = Cell(S_(s)); tail = P(vm, 'String::split_off', Ref(c), k)
            out.append('split_off ' + rdbg(vm, c.v) + ' ' + rdbg(vm, tail))
            c = Cell(S_(s)); P(vm, 'String::insert', Ref(c), k, ord('Q')); P(vm, 'String::insert_str', Ref(c), k, S_('é!'))
            out.append('insert ' + rdbg(vm, c.v))
            c = Cell(S_(s)); P(vm, 'String::truncate', Ref(c), k)
            out.append('truncate ' + rdbg(vm, c.v))
            if k < len(b):
                c = Cell(S_(s)); ch = P(vm, 'String::remove', Ref(c), k)
                out.append('remove ' + rchar(ch) + ' ' + rdbg(vm, c.v))
    for d in [0, 5, 9, 10, 15, 35, 36]:
        def fd(r): return 'None' if r.variant == 0 else f'Some({rchar(r.fields[0])})'
        out.append('from_digit ' + fd(P(vm, '<impl char>::from_digit', d, 10)) + ' ' + fd(P(vm, '<impl char>::from_digit', d, 36)))
    def vec(xs): return Cell(Adt('Vec', 0, [HList(list(xs))]))
    def slc(c): return SliceRef(Ref(c, (0,)), 0, len(c.v.fields[0].items))
    odd = HostFn(lambda vm_, x: (vm_.ref_get(x) if isinstance(x, Ref) else x) % 2 == 1)
    for v in [[], [1], [1, 1, 2, 2, 1], [3, 1, 2], [5, 6, 7, 8, 9]]:
        c = vec(v); P(vm, 'Vec::retain', Ref(c), odd); out.append('retain ' + rdbg(vm, c.v))
        c = vec(v); P(vm, 'Vec::dedup', Ref(c)); out.append('dedup ' + rdbg(vm, c.v))
        for k in [0, 1, 2]:
            if k <= len(v):
                c = vec(v); t = P(vm, 'Vec::split_off', Ref(c), k); out.append('vec_split_off ' + rdbg(vm, c.v) + ' ' + rdbg(vm, t))
        for k in [1, 2, 3]:
            for m in ('windows', 'chunks'):
                c = vec(v); it = P(vm, f'<impl [T]>::{m}', slc(c), k)
                out.append(f'{m} [' + ', '.join(rdbg(vm, x) for x in std_iter.drain(vm, it)) + ']')
        c = vec(v); c2 = vec([1, 1]); c3 = vec([2])
        out.append('starts_with ' + rdbg(vm, P(vm, '<impl [T]>::starts_with', slc(c), slc(c2))) + ' ' + rdbg(vm, P(vm, '<impl [T]>::ends_with', slc(c), slc(c3))))
        it1 = std_iter.It('list', list(v), 0); it2 = std_iter.It('list', [1, 1, 2, 2, 1], 0)
        it3 = std_iter.It('list', list(v), 0); it4 = std_iter.It('list', list(v), 0)
        out.append('iter_eq ' + rdbg(vm, T(vm, '*', 'Iterator', 'eq', it1, it2)) + ' ' + rdbg(vm, T(vm, '*', 'Iterator', 'ne', it3, it4)))
        pk = T(vm, '*', 'Iterator', 'peekable', std_iter.It('list', list(v), 0)); pc = Cell(pk)
        def opt(r):
            r = conc(vm, r)
            if r.variant == 0: return 'None'
            x = r.fields[0]; x = vm.ref_get(x) if isinstance(x, Ref) else x
            return f'Some({x})'
        a_ = opt(P(vm, 'Peekable::peek', Ref(pc)))
        nx = std_iter.it_next(vm, Ref(pc)); b_ = 'None' if nx is None else f'Some({nx[0]})'
        def _dd(vm_, x):
            while isinstance(x, Ref): x = vm_.ref_get(x)
            return x
        is1 = HostFn(lambda vm_, x: _dd(vm_, x) == 1)
        c_ = opt(P(vm, 'Peekable::next_if', Ref(pc), is1))
        d_ = opt(P(vm, 'Peekable::peek', Ref(pc)))
        n_ = len(std_iter.drain(vm, Ref(pc)))
        out.append(f'peekable {a_} {b_} {c_} {d_} {n_}')
        if len(v) >= 2:
            c = vec(v); P(vm, '<impl [T]>::swap', slc(c), 0, len(v) - 1); out.append('swap ' + rdbg(vm, c.v))
    lists = [[], [1], [1, 1, 2, 2, 1], [1, 3, 5], [2, 2, 4, 9]]
    L = lambda xs: std_iter.It('list', list(xs), 0)
    ge = HostFn(lambda vm_, x, y: _d2(vm_, x) >= _d2(vm_, y))
    def _d2(vm_, x):
        while isinstance(x, Ref): x = vm_.ref_get(x)
        return x
    def lst(it): return '[' + ', '.join(rdbg(vm, x) for x in std_iter.drain(vm, it)) + ']'
    for a in lists:
        for b in lists:
            out.append('merge ' + lst(T(vm, '*', 'Itertools', 'merge', L(a), L(b))))
            out.append('merge_by ' + lst(T(vm, '*', 'Itertools', 'merge_by', L(a), L(b), ge)))
            out.append('interleave ' + lst(T(vm, '*', 'Itertools', 'interleave', L(a), L(b))))
        out.append('it_dedup ' + lst(T(vm, '*', 'Itertools', 'dedup', L(a))))
        out.append('unique ' + lst(T(vm, '*', 'Itertools', 'unique', L(a))))
        out.append('intersperse ' + lst(T(vm, '*', 'Itertools', 'intersperse', L(a), 0)))
        out.append('tuple_windows ' + lst(T(vm, '*', 'Itertools', 'tuple_windows', L(a))))
        out.append('all_equal ' + rdbg(vm, T(vm, '*', 'Itertools', 'all_equal', L(a))))
        out.append('sorted ' + lst(T(vm, '*', 'Itertools', 'sorted', L(a[::-1]))))
        out.append('join ' + rdbg(vm, T(vm, '*', 'Itertools', 'join', L([bstr_from_py(f's{x}') for x in a]), bstr_from_py('-'))))
    from .std_str import rust_fmt_f64, rust_parse_f64
    for x in [0.0, -0.0, 1.0, -1.5, 0.1, 0.1 + 0.2, 1e21, 1e-7, 123456789012345680000.0, 5e-324, 1.7976931348623157e308, 9007199254740993.0, 1e15, 1e16, 0.000001, 1234.5678, float('nan'), float('inf'), -float('inf'), 2.5e-10, 4.35, 100.0, 1e22, 1e23]:
        out.append('display ' + rust_fmt_f64(x))
    for t in ["1", "-1", "+1", "1.5", ".5", "5.", "1e3", "1E3", "1e+3", "1e-3", " 1", "1 ", "", ".", "-", "e5", "1e", "inf", "-inf", "infinity", "Infinity", "nan", "NaN", "-nan", "0x10", "1_000", "1.2.3", "--1", "1e400", "1e-400", "00012", "-.5e1", "\u0661"]:
        v = rust_parse_f64(t)
        out.append('parse ' + ('None' if v is None else 'Some("NaN")' if v != v else f'Some("{bits(v)}")'))
    def lstr(it): return '[' + ', '.join(rdbg(vm, x) for x in std_iter.drain(vm, it)) + ']'
    def optn(r): return 'None' if r.variant == 0 else f'Some({rdbg(vm, r.fields[0])})'
    for s_ in ["", "abc", "a,b,,c", "  x y  ", "héllo", "aXXbXXXc", "line1\nline2\n", "a\tb c"]:
        for p_ in ["", ",", "XX", "l", " "]:
            if p_: out.append('split ' + lstr(P(vm, '<impl str>::split', S_(s_), S_(p_))))
            out.append('find ' + optn(P(vm, '<impl str>::find', S_(s_), S_(p_))) + ' ' + optn(P(vm, '<impl str>::rfind', S_(s_), S_(p_))))
            out.append('strip ' + optn(P(vm, '<impl str>::strip_prefix', S_(s_), S_(p_))) + ' ' + optn(P(vm, '<impl str>::strip_suffix', S_(s_), S_(p_))))
            out.append('contains ' + ' '.join(rdbg(vm, P(vm, f'<impl str>::{m}', S_(s_), S_(p_))) for m in ('contains', 'starts_with', 'ends_with')))
            out.append('split_once ' + optn(P(vm, '<impl str>::split_once', S_(s_), S_(p_))))
        out.append('trim ' + ' '.join(rdbg(vm, P(vm, f'<impl str>::{m}', S_(s_))) for m in ('trim', 'trim_start', 'trim_end')))
        out.append('case ' + ' '.join(rdbg(vm, P(vm, f'<impl str>::{m}', S_(s_))) for m in ('to_lowercase', 'to_uppercase', 'to_ascii_uppercase')))
        out.append('lines ' + lstr(P(vm, '<impl str>::lines', S_(s_))))
        out.append('chars ' + str(len(std_iter.drain(vm, P(vm, '<impl str>::chars', S_(s_))))) + ' ' + str(P(vm, '<impl str>::len', S_(s_))))
    for s_ in ["", "aZ", "héllo", "Ж1 x", "a\u212ab"]:
        bs = std_iter.drain(vm, P(vm, '<impl str>::bytes', S_(s_)))
        out.append('bytes [' + ', '.join(str(b) for b in bs) + ']')
        def u8p(b): return '(' + ', '.join([rdbg(vm, P(vm, f'<impl u8>::{m}', b)) for m in ('is_ascii_alphabetic', 'is_ascii_digit', 'is_ascii', 'is_ascii_whitespace')] + [str(P(vm, '<impl u8>::to_ascii_uppercase', b))]) + ')'
        out.append('u8preds [' + ', '.join(u8p(b) for b in bs) + ']')
        tl = FnItem('core::char::methods::<impl char>::to_lowercase', {})
        fm = T(vm, '*', 'Iterator', 'flat_map', P(vm, '<impl str>::chars', S_(s_)), HostFn(lambda vm_, c: P(vm_, '<impl char>::to_lowercase', c)))
        out.append('flat_map "' + ''.join(chr(c) for c in std_iter.drain(vm, fm)) + '"')
        def og(r):
            r = conc(vm, r)
            if r.variant == 0: return 'None'
            x = r.fields[0]
            while isinstance(x, Ref): x = vm.ref_get(x)
            return f'Some({x})'
        out.append('byte_get ' + og(P(vm, '<impl [u8]>::get', S_(s_), 0)) + ' ' + og(P(vm, '<impl [u8]>::get', S_(s_), 2)) + ' ' + og(P(vm, '<impl [u8]>::first', S_(s_))))
        out.append('from_utf8 ' + rdbg(vm, P(vm, 'str::from_utf8', S_(s_))))
        ci_new = _ci('ArrayString::<4>::new', method='new', selfty='ArrayString<4>')
        f_as = [g for rx, g in MODELS.path_rx if rx.search('ArrayString::<4>::new')][0]
        a_ = Cell(f_as(vm, [], ci_new))
        rs = []
        for ch in s_:
            r_ = f_as(vm, [Ref(a_), ord(ch)], _ci('ArrayString::<4>::try_push', method='try_push', selfty='ArrayString<4>'))
            rs.append('true' if conc(vm, r_).variant == 0 else 'false')
        out.append('arraystring [' + ', '.join(rs) + '] ' + rdbg(vm, f_as(vm, [Ref(a_)], _ci('ArrayString::<4>::as_str', method='as_str', selfty='ArrayString<4>'))) + ' ' +
                   str(f_as(vm, [Ref(a_)], _ci('ArrayString::<4>::len', method='len', selfty='ArrayString<4>'))) + ' ' + rdbg(vm, f_as(vm, [Ref(a_)], _ci('ArrayString::<4>::is_full', method='is_full', selfty='ArrayString<4>'))))
    r, e = std.ok(3), std.err(4)
    inc = HostFn(lambda vm_, x: x + 1); is3 = HostFn(lambda vm_, x: x == 3); is5 = HostFn(lambda vm_, x: x == 5)
    out.append('result ' + ' '.join(rdbg(vm, x) for x in [P(vm, 'Result::and', r, e), P(vm, 'Result::and', e, r), P(vm, 'Result::or', r, e), P(vm, 'Result::or', e, r),
                                                         P(vm, 'Result::map_or', r, 9, inc), P(vm, 'Result::map_or', e, 9, inc), P(vm, 'Result::is_ok_and', r, is3), P(vm, 'Result::is_err_and', e, is5)]))
    return out


def check(native):
    """(agreeing, [mismatches])"""
    want = native.call({'op': 'stdcheck'}, timeout=30)
    if not isinstance(want, list): return 0, [{'stdcheck': 'native helper did not answer', 'got': str(want)[:200]}]
    try: got = vm_list()
    except Exception as e:
        import traceback
        return 0, [{'stdcheck': 'model evaluation failed', 'error': f'{type(e).__name__}: {e}', 'trace': traceback.format_exc()[-600:]}]
    bad = []
    if len(got) != len(want): bad.append({'stdcheck': 'list lengths differ', 'vm': len(got), 'native': len(want)})
    for i, (g, w) in enumerate(zip(got, want)):
        if g != w: bad.append({'stdcheck': i, 'vm': g, 'native': w})
    return len(want) - len(bad), bad[:10]
