"""Vec / VecDeque / slices / HashMap / BTreeMap models."""
import re
import z3
from .mir import type_head
from .values import *
from .strings import *
from .std import path, path_rx, trait, some, NONE, ok, err, D, D1, conc, truth, call_trait, tyarg, clone_of, values_eq, list_items
from .std_iter import It, it_next, drain, into_iter, hmap_iter, obj

SEQ = ('Vec', 'VecDeque', 'SmallVec', 'ArrayVec')


def seq(vm, r):
    """(HList, Ref-to-HList) of a sequence container referenced by r (or held by value)"""
    if isinstance(r, Ref):
        v = vm.ref_get(r)
        if isinstance(v, Adt) and v.ty in SEQ: return v.fields[0], Ref(r.cell, r.path + (0,))
        if isinstance(v, HList): return v, r
        if isinstance(v, Ref): return seq(vm, v)
        raise Unmodelled(f'sequence? {v!r}')
    if isinstance(r, Adt) and r.ty in SEQ: return r.fields[0], Ref(Cell(r), (0,))
    raise Unmodelled(f'sequence? {r!r}')


def slice_of(vm, r):
    if isinstance(r, SliceRef): return r
    hl, hr = seq(vm, r)
    return SliceRef(hr, 0, len(hl.items))


for _c in SEQ:
    def _mk(c=_c):
        @path(f'{c}::new', f'{c}::with_capacity', f'{c}::new_const')
        def _(vm, a, ci): return Adt(c, 0, [HList([])])

        @path(f'{c}::len')
        def _(vm, a, ci): return len(seq(vm, a[0])[0].items)

        @path(f'{c}::is_empty')
        def _(vm, a, ci): return len(seq(vm, a[0])[0].items) == 0

        @path(f'{c}::push', f'{c}::push_back')
        def _(vm, a, ci): seq(vm, a[0])[0].items.append(a[1]); return UNIT

        @path(f'{c}::push_unchecked')
        def _(vm, a, ci):
            hl = seq(vm, a[0])[0]
            cap = _capacity(ci)
            if cap is not None and len(hl.items) >= cap: raise PanicEdge('ub', f'{c}::push_unchecked beyond capacity {cap}')
            hl.items.append(a[1]); return UNIT

        @path(f'{c}::inline_size', f'{c}::capacity')
        def _(vm, a, ci):
            cap = _capacity(ci)
            return cap if cap is not None else max(8, len(seq(vm, a[0])[0].items))

        @path(f'{c}::try_push')
        def _(vm, a, ci):
            hl = seq(vm, a[0])[0]
            cap = _capacity(ci)
            if cap is not None and len(hl.items) >= cap: return err(Adt('CapacityError', 0, [a[1]]))
            hl.items.append(a[1]); return ok(UNIT)

        @path(f'{c}::push_front')
        def _(vm, a, ci): seq(vm, a[0])[0].items.insert(0, a[1]); return UNIT

        @path(f'{c}::pop', f'{c}::pop_back')
        def _(vm, a, ci):
            it = seq(vm, a[0])[0].items
            return some(it.pop()) if it else NONE()

        @path(f'{c}::pop_front')
        def _(vm, a, ci):
            it = seq(vm, a[0])[0].items
            return some(it.pop(0)) if it else NONE()

        @path(f'{c}::clear')
        def _(vm, a, ci):
            hl = seq(vm, a[0])[0]
            for x in hl.items: vm.drop_val(x)
            hl.items.clear(); return UNIT

        @path(f'{c}::truncate')
        def _(vm, a, ci):
            hl = seq(vm, a[0])[0]
            for x in hl.items[a[1]:]: vm.drop_val(x)
            del hl.items[a[1]:]; return UNIT

        @path(f'{c}::get', f'{c}::get_mut')
        def _(vm, a, ci):
            hl, hr = seq(vm, a[0]); i = a[1]
            return _get(vm, hl, hr, 0, len(hl.items), i)

        @path(f'{c}::front', f'{c}::first', f'{c}::front_mut', f'{c}::first_mut')
        def _(vm, a, ci):
            hl, hr = seq(vm, a[0])
            return some(Ref(hr.cell, hr.path + (0,))) if hl.items else NONE()

        @path(f'{c}::back', f'{c}::last', f'{c}::back_mut', f'{c}::last_mut')
        def _(vm, a, ci):
            hl, hr = seq(vm, a[0])
            return some(Ref(hr.cell, hr.path + (len(hl.items) - 1,))) if hl.items else NONE()

        @path(f'{c}::iter', f'{c}::iter_mut')
        def _(vm, a, ci):
            hl, hr = seq(vm, a[0]); return It('refs', hr, 0, len(hl.items))

        @path(f'{c}::into_iter')
        def _(vm, a, ci): return It('list', list(a[0].fields[0].items), 0)

        @path(f'{c}::drain')
        def _(vm, a, ci):
            hl = seq(vm, a[0])[0]; items = list(hl.items); hl.items.clear(); return It('list', items, 0)

        @path(f'{c}::resize_with')
        def _(vm, a, ci):
            hl = seq(vm, a[0])[0]; n = a[1]
            if not isinstance(n, int):
                # symbolic new length: only a bounded number of elements can be materialised
                bound = getattr(vm, 'resize_bound', 16)
                vm.assume(z3.ULE(n, bound))
                n = vm.concretize(n)
            if n > (1 << 40): raise PanicEdge('panic', 'capacity overflow / allocation failure in resize_with')
            if n < len(hl.items):
                for x in hl.items[n:]: vm.drop_val(x)
                del hl.items[n:]
            while len(hl.items) < n: hl.items.append(vm.call_value(a[2], []))
            return UNIT

        @path(f'{c}::resize')
        def _(vm, a, ci):
            hl = seq(vm, a[0])[0]; n = a[1]
            if not isinstance(n, int): n = vm.concretize(n)
            del hl.items[n:]
            while len(hl.items) < n: hl.items.append(vm.clone_val(a[2]))
            return UNIT

        @path(f'{c}::insert')
        def _(vm, a, ci):
            hl = seq(vm, a[0])[0]
            if a[1] > len(hl.items): raise PanicEdge('panic', 'insertion index out of bounds')
            hl.items.insert(a[1], a[2]); return UNIT

        @path(f'{c}::remove')
        def _(vm, a, ci):
            hl = seq(vm, a[0])[0]
            if a[1] >= len(hl.items):
                if c == 'VecDeque': return NONE()
                raise PanicEdge('panic', 'removal index out of bounds')
            v = hl.items.pop(a[1]); return some(v) if c == 'VecDeque' else v

        @path(f'{c}::retain', f'{c}::retain_mut')
        def _(vm, a, ci):
            hl, hr = seq(vm, a[0]); keep = []
            for i, x in enumerate(list(hl.items)):
                if truth(vm, vm.call_value(a[1], [Ref(hr.cell, hr.path + (i,))])): keep.append(hl.items[i])
                else: vm.drop_val(hl.items[i])
            hl.items[:] = keep; return UNIT

        @path(f'{c}::split_off')
        def _(vm, a, ci):
            hl = seq(vm, a[0])[0]; k = a[1]
            if not isinstance(k, int): raise Unmodelled('split_off with a symbolic index')
            if k > len(hl.items): raise PanicEdge('panic', 'split_off: at > len')
            tail = hl.items[k:]; del hl.items[k:]
            return Adt(c, 0, [HList(tail)])

        @path(f'{c}::dedup')
        def _(vm, a, ci):
            hl = seq(vm, a[0])[0]; out = []
            for x in hl.items:
                if out and truth(vm, values_eq(vm, tyarg(ci) or '', out[-1], x)): vm.drop_val(x)
                else: out.append(x)
            hl.items[:] = out; return UNIT

        @path(f'{c}::swap_remove')
        def _(vm, a, ci):
            hl = seq(vm, a[0])[0]
            if a[1] >= len(hl.items): raise PanicEdge('panic', 'swap_remove index out of bounds')
            v = hl.items[a[1]]; last = hl.items.pop()
            if a[1] < len(hl.items): hl.items[a[1]] = last
            return v

        @path(f'{c}::as_slice', f'{c}::as_mut_slice', f'{c}::make_contiguous')
        def _(vm, a, ci): return slice_of(vm, a[0])

        @path(f'{c}::extend_from_slice')
        def _(vm, a, ci):
            hl = seq(vm, a[0])[0]; s = a[1]
            hl.items.extend(vm.clone_val(x) for x in vm.ref_get(s.ref).items[s.start:s.end]); return UNIT

        @path(f'{c}::append')
        def _(vm, a, ci):
            hl = seq(vm, a[0])[0]; other = seq(vm, a[1])[0]
            hl.items.extend(other.items); other.items.clear(); return UNIT

        @path(f'{c}::reserve', f'{c}::shrink_to_fit', f'{c}::reserve_exact')
        def _(vm, a, ci): return UNIT

        @path(f'{c}::contains')
        def _(vm, a, ci):
            hl = seq(vm, a[0])[0]
            for x in hl.items:
                if truth(vm, values_eq(vm, tyarg(ci), x, a[1])): return True
            return False

        @path(f'{c}::into_boxed_slice')
        def _(vm, a, ci): return vm.new_box(a[0].fields[0])

        @path(f'{c}::set_len')
        def _(vm, a, ci):
            hl = seq(vm, a[0])[0]; del hl.items[a[1]:]; return UNIT
    _mk()


def _capacity(ci):
    a = type_head(ci.selfty)[1] if ci.selfty else []
    for x in a:
        m = re.fullmatch(r'(\d+)(?:_usize)?', x.strip())
        if m: return int(m.group(1))
        m = re.fullmatch(r'\[.*; (\d+)\]', x.strip())
        if m: return int(m.group(1))
    return None


def _get(vm, hl, hr, start, end, i):
    n = end - start
    if isinstance(i, int):
        return some(Ref(hr.cell, hr.path + (start + i,))) if 0 <= i < n else NONE()
    if isinstance(i, Adt) and i.ty.startswith('Range'):
        lo, hi = _range_bounds(i, n)
        if lo <= hi <= n: return some(SliceRef(hr, start + lo, start + hi))
        return NONE()
    # symbolic index: fork over in-range positions, then "out of range"
    for k in range(n):
        if truth(vm, i == k): return some(Ref(hr.cell, hr.path + (start + k,)))
    return NONE()


def _range_bounds(r, n):
    ty = r.ty
    if ty == 'Range': return r.fields[0], r.fields[1]
    if ty == 'RangeFrom': return r.fields[0], n
    if ty == 'RangeTo': return 0, r.fields[0]
    if ty == 'RangeFull': return 0, n
    if ty == 'RangeInclusive': return r.fields[0], r.fields[1] + 1
    if ty == 'RangeToInclusive': return 0, r.fields[0] + 1
    raise Unmodelled('range ' + ty)


@trait(('Vec', 'Index', 'index'), ('Vec', 'IndexMut', 'index_mut'), ('VecDeque', 'Index', 'index'), ('VecDeque', 'IndexMut', 'index_mut'),
       ('SmallVec', 'Index', 'index'), ('[]', 'Index', 'index'), ('[]', 'IndexMut', 'index_mut'), ('[;]', 'Index', 'index'))
def _(vm, a, ci):
    t0 = a[0]
    while isinstance(t0, Ref): t0 = vm.ref_get(t0)
    if isinstance(t0, (BStr, SymStr)) and isinstance(a[1], Adt) and a[1].ty.startswith('Range'):      # &[u8] view of text, sliced by a byte range
        from .std_str import slice_str
        if isinstance(t0, BStr):
            # bytes may be cut anywhere: only a cut on character boundaries is still (the byte view of) text; otherwise the plain bytes
            n = t0.nbytes()
            try: lo, hi = _range_bounds(a[1], n)
            except Unmodelled: lo = hi = None
            if isinstance(lo, int) and isinstance(hi, int):
                if not (0 <= lo <= hi <= n): raise PanicEdge('panic', f'range {lo}..{hi} out of range for slice of length {n}')
                if not (t0.is_boundary(lo) and t0.is_boundary(hi)):
                    from .stdcheck import P as _P
                    from .std_iter import drain
                    bs = drain(vm, _P(vm, '<impl str>::bytes', t0))
                    return SliceRef(Ref(Cell(HList(list(bs[lo:hi])))), 0, hi - lo)
        return slice_str(vm, t0, a[1])
    if isinstance(t0, BStr) and isinstance(a[1], int):          # one byte of the &[u8] view of text
        from .stdcheck import P as _P
        from .std_iter import drain
        bs = drain(vm, _P(vm, '<impl str>::bytes', t0))
        if not 0 <= a[1] < len(bs): raise PanicEdge('panic', f'index out of bounds: the len is {len(bs)} but the index is {a[1]}')
        return Ref(Cell(bs[a[1]]))
    s = slice_of(vm, a[0]); i = a[1]
    n = s.end - s.start
    if isinstance(i, Adt) and i.ty.startswith('Range'):
        lo, hi = _range_bounds(i, n)
        if not (0 <= lo <= hi <= n): raise PanicEdge('panic', f'slice index {lo}..{hi} out of range for length {n}')
        return SliceRef(s.ref, s.start + lo, s.start + hi)
    if not isinstance(i, int):
        if truth(vm, z3.UGE(i, n)): raise PanicEdge('panic', f'index out of bounds: the len is {n}')
        i = vm.concretize(i)
    if not 0 <= i < n: raise PanicEdge('panic', f'index out of bounds: the len is {n} but the index is {i}')
    return Ref(s.ref.cell, s.ref.path + (s.start + i,))


# ---- slices
@path_rx(r'<impl \[.*?\]>::(len|is_empty|iter|iter_mut|first|last|first_mut|last_mut|get|get_mut|get_unchecked|get_unchecked_mut|contains|to_vec|split_first|split_last|as_ptr|as_ptr_range|into_vec|concat|join|sort|sort_by|sort_by_key|sort_unstable|sort_unstable_by|sort_unstable_by_key|reverse|split_at|starts_with|ends_with|windows|chunks|chunks_exact|swap|fill|eq_ignore_ascii_case)')
def _(vm, a, ci):
    m = ci.method
    if m == 'into_vec': return Adt('Vec', 0, [vm.ref_get(vm.box_ptr(a[0]))])
    if m == 'eq_ignore_ascii_case':
        # [u8]: same length and bytewise equal after ASCII lower-casing (either side may be the byte view of a str)
        from .stdcheck import P as _P
        from .std_iter import drain
        from . import chartab
        def bytes_of(x):
            if isinstance(x, SymStr): raise Unmodelled('byte view of an opaque symbolic string: eq_ignore_ascii_case')
            if isinstance(x, BStr): return drain(vm, _P(vm, '<impl str>::bytes', x))
            sl = slice_of(vm, x); return [D(vm, v) for v in vm.ref_get(sl.ref).items[sl.start:sl.end]]
        xs, ys = bytes_of(a[0]), bytes_of(a[1])
        if len(xs) != len(ys): return False
        def wide(b): return b if isinstance(b, int) else (z3.ZeroExt(24, b) if b.size() == 8 else b)
        for x, y in zip(xs, ys):
            lx = chartab.case_map(vm, wide(x), True, True)[0]; ly = chartab.case_map(vm, wide(y), True, True)[0]
            if not truth(vm, lx == ly): return False
        return True
    s = slice_of(vm, a[0]) if not isinstance(a[0], (BStr, SymStr)) else a[0]
    if isinstance(s, BStr):       # &[u8] view of a str (as_bytes)
        if m == 'len': return s.nbytes()
        if m == 'is_empty': return s.nbytes() == 0
        if m == 'iter':
            from .stdcheck import P as _P
            from .std_iter import drain
            return It('list', [Ref(Cell(b)) for b in drain(vm, _P(vm, '<impl str>::bytes', s))], 0)      # slice::Iter yields references
        if m == 'to_vec': return s
        if m in ('get', 'first', 'last'):
            from .stdcheck import P as _P
            from .std_iter import drain
            bs = drain(vm, _P(vm, '<impl str>::bytes', s))
            i = a[1] if m == 'get' else (0 if m == 'first' else len(bs) - 1)
            if isinstance(i, Adt): return some(slice_str_bytes(vm, s, i)) if True else NONE()
            if not isinstance(i, int): raise Unmodelled('byte view of text indexed by a symbolic position')
            return some(Ref(Cell(bs[i]))) if 0 <= i < len(bs) else NONE()
        if m == 'as_ptr': return Ref(_bufcell(s.buf), (), s.start)
        if m == 'as_ptr_range': return Adt('Range', 0, [Ref(_bufcell(s.buf), (), s.start), Ref(_bufcell(s.buf), (), s.end)])
        raise Unmodelled('byte-slice method on str: ' + m)
    if isinstance(s, SymStr): raise Unmodelled('byte view of an opaque symbolic string: ' + m)
    items = vm.ref_get(s.ref).items; n = s.end - s.start
    if m == 'len': return n
    if m == 'is_empty': return n == 0
    if m in ('iter', 'iter_mut'): return It('refs', s.ref, s.start, s.end)
    if m in ('first', 'first_mut'): return some(Ref(s.ref.cell, s.ref.path + (s.start,))) if n else NONE()
    if m in ('last', 'last_mut'): return some(Ref(s.ref.cell, s.ref.path + (s.end - 1,))) if n else NONE()
    if m in ('get', 'get_mut'): return _get(vm, None, s.ref, s.start, s.end, a[1])
    if m in ('get_unchecked', 'get_unchecked_mut'):
        i = a[1]
        if isinstance(i, int):
            if not 0 <= i < n: raise PanicEdge('ub', f'get_unchecked({i}) on slice of length {n}')
            return Ref(s.ref.cell, s.ref.path + (s.start + i,))
        raise Unmodelled('get_unchecked with symbolic index')
    if m == 'contains':
        for x in items[s.start:s.end]:
            if truth(vm, values_eq(vm, '', x, a[1])): return True
        return False
    if m == 'to_vec': return Adt('Vec', 0, [HList([vm.clone_val(x) for x in items[s.start:s.end]])])
    if m == 'split_first':
        if not n: return NONE()
        return some(tup(Ref(s.ref.cell, s.ref.path + (s.start,)), SliceRef(s.ref, s.start + 1, s.end)))
    if m == 'split_last':
        if not n: return NONE()
        return some(tup(Ref(s.ref.cell, s.ref.path + (s.end - 1,)), SliceRef(s.ref, s.start, s.end - 1)))
    if m == 'reverse':
        items[s.start:s.end] = items[s.start:s.end][::-1]; return UNIT
    if m in ('sort', 'sort_unstable'):
        from .std import values_cmp
        import functools
        seg = items[s.start:s.end]
        seg.sort(key=functools.cmp_to_key(lambda x, y: values_cmp(vm, '', x, y, False)))
        items[s.start:s.end] = seg; return UNIT
    if m in ('sort_by_key', 'sort_unstable_by_key'):
        from .std import values_cmp
        seg = items[s.start:s.end]
        keyed = [(vm.call_value(a[1], [Ref(Cell(x))]), x) for x in seg]
        out = stable_sort(vm, keyed, lambda p, q: values_cmp(vm, '', p[0], q[0], False))
        items[s.start:s.end] = [x for _, x in out]; return UNIT
    if m in ('sort_by', 'sort_unstable_by'):
        seg = items[s.start:s.end]
        out = stable_sort(vm, seg, lambda p, q: conc(vm, vm.call_value(a[1], [Ref(Cell(p)), Ref(Cell(q))])).variant - 1)
        items[s.start:s.end] = out; return UNIT
    if m in ('join', 'concat'):
        from .std_str import S, str_concat
        parts = [S(vm, x) for x in items[s.start:s.end]]
        sep = S(vm, a[1]) if m == 'join' else None
        cur = None
        for i, pt in enumerate(parts):
            if i and sep is not None: cur = str_concat(vm, cur, sep)
            cur = pt if cur is None else str_concat(vm, cur, pt)
        return cur if cur is not None else const_str(vm, '')
    if m == 'split_at':
        k = a[1]
        if k > n: raise PanicEdge('panic', 'split_at: mid > len')
        return tup(SliceRef(s.ref, s.start, s.start + k), SliceRef(s.ref, s.start + k, s.end))
    if m in ('windows', 'chunks', 'chunks_exact'):
        k = a[1]
        if not isinstance(k, int): raise Unmodelled(f'{m} with a symbolic size')
        if k == 0: raise PanicEdge('panic', f'{m}: size must be non-zero')
        if m == 'windows': parts = [SliceRef(s.ref, s.start + i, s.start + i + k) for i in range(0, max(n - k + 1, 0))]
        else: parts = [SliceRef(s.ref, s.start + i, min(s.start + i + k, s.end)) for i in range(0, n, k) if m == 'chunks' or i + k <= n]
        return It('list', parts, 0)
    if m in ('starts_with', 'ends_with'):
        o = a[1]; oi = vm.ref_get(o.ref).items[o.start:o.end] if isinstance(o, SliceRef) else list_items(vm, o)
        if len(oi) > n: return False
        seg = items[s.start:s.start + len(oi)] if m == 'starts_with' else items[s.end - len(oi):s.end]
        return all(truth(vm, values_eq(vm, '', x, y)) for x, y in zip(seg, oi))
    if m == 'swap':
        i, j = a[1], a[2]
        if not (isinstance(i, int) and isinstance(j, int)): raise Unmodelled('slice swap with symbolic indices')
        if not (0 <= i < n and 0 <= j < n): raise PanicEdge('panic', 'slice swap: index out of bounds')
        items[s.start + i], items[s.start + j] = items[s.start + j], items[s.start + i]; return UNIT
    if m == 'fill':
        for i in range(s.start, s.end): items[i] = vm.clone_val(a[1])
        return UNIT
    raise Unmodelled('slice method ' + m)


_BUFCELLS = {}


def _bufcell(buf):
    c = _BUFCELLS.get(buf.id)
    if c is None or c.v is not buf: c = _BUFCELLS[buf.id] = Cell(buf)
    return c


def stable_sort(vm, items, cmp):
    """insertion sort = *the* stable order (any stable sort yields the same sequence); symbolic comparisons fork"""
    out = []
    for x in items:
        i = len(out)
        while i > 0 and cmp(out[i - 1], x) > 0: i -= 1
        out.insert(i, x)
    return out


@trait(('Box', 'IntoIterator', 'into_iter'))
def _(vm, a, ci): return into_iter(vm, vm.ref_get(vm.box_ptr(a[0])))


# ---- HashMap / BTreeMap
def key_eq(vm, kt, k1, k2, borrowed_ty=None):
    """key equality as the map sees it: Borrow + Eq.  For rrss's `dyn Key` borrowing the crate's own PartialEq is run."""
    if borrowed_ty and borrowed_ty.startswith('dyn '):
        f = vm.mir.by_impl.get(('PartialEq', borrowed_ty, 'eq'))
        if f:
            return vm.run_fn(f[0], [_as_ref(k1), _as_ref(k2)], {})
    return values_eq(vm, kt, k1, k2)


def _as_ref(v): return v if isinstance(v, Ref) else Ref(Cell(v))


def slice_str_bytes(vm, s, r):
    from .std_str import slice_str
    return slice_str(vm, s, r)


def hmap_find(vm, hm, kt, key, borrowed_ty=None):
    for i, (k, v) in enumerate(hm.entries):
        if truth(vm, key_eq(vm, kt, k, key, borrowed_ty)): return i
    return None


def hmap_insert(vm, hm, kt, key, val):
    i = hmap_find(vm, hm, kt, key)
    if i is not None:
        old = hm.entries[i][1]; hm.entries[i][1] = val; return some(old)
    hm.entries.append([key, val]); return NONE()


def hmref(vm, r):
    hm = vm.ref_get(r) if isinstance(r, Ref) else r
    if not isinstance(hm, HMap): raise Unmodelled(f'map? {hm!r}')
    return hm


for _c in ('HashMap', 'BTreeMap', 'HashSet', 'BTreeSet'):
    def _mk(c=_c):
        isset = c.endswith('Set')

        @path(f'{c}::new', f'{c}::with_capacity')
        def _(vm, a, ci): return HMap([], c.startswith('BTree'), vm.fresh('hs' if isset else 'hm'))

        @path(f'{c}::len')
        def _(vm, a, ci): return len(hmref(vm, a[0]).entries)

        @path(f'{c}::is_empty')
        def _(vm, a, ci): return len(hmref(vm, a[0]).entries) == 0

        @path(f'{c}::insert')
        def _(vm, a, ci):
            hm = hmref(vm, a[0])
            if isset:
                i = hmap_find(vm, hm, tyarg(ci), a[1])
                if i is not None: return False
                hm.entries.append([a[1], UNIT]); return True
            return hmap_insert(vm, hm, tyarg(ci), a[1], a[2])

        @path(f'{c}::retain')
        def _(vm, a, ci):
            hm = hmref(vm, a[0]); r = a[0]; keep = []
            for i, e in enumerate(list(hm.entries)):
                args = [Ref(r.cell, r.path + (('e', i, 0),))] + ([] if isset else [Ref(r.cell, r.path + (('e', i, 1),))])
                if truth(vm, vm.call_value(a[1], args)): keep.append(e)
            hm.entries[:] = keep; return UNIT

        @path(f'{c}::remove_entry')
        def _(vm, a, ci):
            hm = hmref(vm, a[0]); q = ci.fnargs[0] if ci.fnargs else None
            i = hmap_find(vm, hm, tyarg(ci), a[1], q)
            if i is None: return NONE()
            e = hm.entries.pop(i); return some(tup(e[0], e[1]))

        @path(f'{c}::get', f'{c}::get_mut', f'{c}::contains_key', f'{c}::contains', f'{c}::remove', f'{c}::get_key_value')
        def _(vm, a, ci):
            hm = hmref(vm, a[0]); q = ci.fnargs[0] if ci.fnargs else None
            i = hmap_find(vm, hm, tyarg(ci), a[1], q)
            m = ci.method
            if m in ('contains_key', 'contains'): return i is not None
            if i is None: return NONE()
            if m == 'remove':
                e = hm.entries.pop(i); vm.drop_val(e[0]); return some(e[1]) if not isset else True
            r = a[0]
            if m == 'get_key_value': return some(tup(Ref(r.cell, r.path + (('e', i, 0),)), Ref(r.cell, r.path + (('e', i, 1),))))
            return some(Ref(r.cell, r.path + (('e', i, 1 if not isset else 0),)))

        @path(f'{c}::entry')
        def _(vm, a, ci):
            hm = hmref(vm, a[0]); i = hmap_find(vm, hm, tyarg(ci), a[1])
            # Entry::Occupied(OccupiedEntry) | Entry::Vacant(VacantEntry): programs may match on the variant and use the payload
            # std declares hash_map::Entry as { Occupied, Vacant } and btree_map::Entry as { Vacant, Occupied }
            occ = i is not None; btree = c.startswith('BTree')
            return Adt('Entry', (0 if occ else 1) if not btree else (1 if occ else 0), [Adt('OccupiedEntry' if i is not None else 'VacantEntry', 0, [a[0], a[1], i])])

        @path(f'{c}::values', f'{c}::values_mut', f'{c}::keys', f'{c}::iter', f'{c}::iter_mut')
        def _(vm, a, ci):
            what = {'values': 'values', 'values_mut': 'values', 'keys': 'keys', 'iter': 'iter' if not isset else 'keys', 'iter_mut': 'iter'}[ci.method]
            return hmap_iter(vm, a[0], what)

        @path(f'{c}::clear')
        def _(vm, a, ci): hmref(vm, a[0]).entries.clear(); return UNIT
    _mk()


@path('Entry::or_default', 'Entry::or_insert', 'Entry::or_insert_with', 'Entry::or_insert_with_key', 'Entry::and_modify', 'Entry::key')
def _(vm, a, ci):
    e = a[0] if isinstance(a[0], Adt) and a[0].ty == 'Entry' else D(vm, a[0])
    r, key, i = e.fields[0].fields
    hm = hmref(vm, r)
    if ci.method == 'key': return Ref(Cell(key)) if i is None else Ref(r.cell, r.path + (('e', i, 0),))
    if ci.method == 'and_modify':
        if i is not None: vm.call_value(a[1], [Ref(r.cell, r.path + (('e', i, 1),))])
        return e
    if i is None:
        if ci.method == 'or_default':
            vt = type_head(ci.selfty)[1][-1] if ci.selfty else ''
            v = call_trait(vm, vt, 'Default', 'default', [])
        elif ci.method == 'or_insert': v = a[1]
        elif ci.method == 'or_insert_with_key': v = vm.call_value(a[1], [Ref(Cell(key))])
        else: v = vm.call_value(a[1], [])
        hm.entries.append([key, v]); i = len(hm.entries) - 1
    else:
        vm.drop_val(key)
        if ci.method == 'or_insert': vm.drop_val(a[1])
    return Ref(r.cell, r.path + (('e', i, 1),))


@path('VacantEntry::insert', 'VacantEntry::key', 'VacantEntry::into_key', 'VacantEntry::insert_entry')
def _(vm, a, ci):
    e = a[0] if isinstance(a[0], Adt) and a[0].ty == 'VacantEntry' else D(vm, a[0])
    r, key, i = e.fields
    if ci.method == 'key': return Ref(Cell(key))
    if ci.method == 'into_key': return key
    hm = hmref(vm, r)
    hm.entries.append([key, a[1]]); i = len(hm.entries) - 1
    if ci.method == 'insert_entry': return Adt('OccupiedEntry', 0, [r, vm.clone_val(key), i])
    return Ref(r.cell, r.path + (('e', i, 1),))


@path('OccupiedEntry::get', 'OccupiedEntry::get_mut', 'OccupiedEntry::into_mut', 'OccupiedEntry::key', 'OccupiedEntry::insert', 'OccupiedEntry::remove', 'OccupiedEntry::remove_entry')
def _(vm, a, ci):
    e = a[0] if isinstance(a[0], Adt) and a[0].ty == 'OccupiedEntry' else D(vm, a[0])
    r, key, i = e.fields
    hm = hmref(vm, r); m = ci.method
    if m in ('get', 'get_mut', 'into_mut'): return Ref(r.cell, r.path + (('e', i, 1),))
    if m == 'key': return Ref(r.cell, r.path + (('e', i, 0),))
    if m == 'insert':
        old = hm.entries[i][1]; hm.entries[i][1] = a[1]; return old
    ent = hm.entries.pop(i)
    if m == 'remove': vm.drop_val(ent[0]); return ent[1]
    return tup(ent[0], ent[1])
