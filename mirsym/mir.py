"""Parsing of `-Zunpretty=mir` text and of the source facts the MIR text does not carry
(enum variant order, impl headers behind `impl at file:line`, generic parameter names, associated types)."""
import re, os, glob, hashlib

# ------------------------------------------------------------------ text utilities
OPEN, CLOSE = '([{<', ')]}'


def _skip_quote(s, i):
    """s[i] is ' or " -- return index one past the literal, or i+1 for a lifetime tick."""
    c = s[i]
    if c == '"':
        j = i + 1
        while j < len(s):
            if s[j] == '\\': j += 2; continue
            if s[j] == '"': return j + 1
            j += 1
        return len(s)
    # tick: char literal or lifetime
    if s[i + 1:i + 2] == '\\':
        j = s.find("'", i + 3 if s[i + 2:i + 3] == "'" else i + 2)
        return j + 1 if j >= 0 else i + 1
    if s[i + 2:i + 3] == "'": return i + 3
    return i + 1


def split_top(s, sep=','):
    out, depth, start, i, n = [], 0, 0, 0, len(s)
    while i < n:
        c = s[i]
        if c == '"' or c == "'":
            i = _skip_quote(s, i); continue
        if c in OPEN: depth += 1
        elif c in CLOSE: depth -= 1
        elif c == '>' and s[i - 1] not in '-=': depth -= 1
        elif c == sep and depth == 0:
            out.append(s[start:i].strip()); start = i + 1
        i += 1
    last = s[start:].strip()
    if last: out.append(last)
    return out


def find_top(s, ch, start=0):
    """index of first top-level occurrence of ch (not inside brackets / literals), or -1"""
    depth, i, n = 0, start, len(s)
    while i < n:
        c = s[i]
        if c == ch and depth == 0: return i
        if c == '"' or c == "'":
            i = _skip_quote(s, i); continue
        if c in OPEN: depth += 1
        elif c in CLOSE: depth -= 1
        elif c == '>' and s[i - 1] not in '-=': depth -= 1
        i += 1
    return -1


def match_close(s, i):
    """s[i] is an opening bracket; return index of its matching close."""
    depth, n = 0, len(s)
    while i < n:
        c = s[i]
        if c == '"' or c == "'":
            i = _skip_quote(s, i); continue
        if c in OPEN: depth += 1
        elif c in CLOSE or (c == '>' and s[i - 1] not in '-='):
            depth -= 1
            if depth == 0: return i
        i += 1
    return -1


_LIFE = re.compile(r"'[a-z_]\w*\b(?!')")
_MODPATH = re.compile(r"(?<![\w:>])(?:[a-z_][a-z0-9_]*::)+(?=[A-Z{\[(]|<impl [^<>]*>::|dyn |impl )")


def canon(t):
    """canonical type / callee text: no lifetimes, no module prefixes before a type name."""
    if "'" in t:
        t = re.sub(r"for<[^>]*> ?", '', t)
        t = re.sub(r"&'[a-z_]\w* ", '&', t)
        t = re.sub(r"::<'[a-z_]\w*>", '', t)
        t = re.sub(r"<'[a-z_]\w*>", '', t)
        t = re.sub(r"<'[a-z_]\w*, ", '<', t)
        t = re.sub(r", '[a-z_]\w*(?=[,>])", '', t)
        t = re.sub(r" \+ '[a-z_]\w*", '', t)
        t = t.replace('::<>', '')
    t = _MODPATH.sub('', t)
    return t


def type_head(t):
    """`Foo<A, B>` -> ('Foo', ['A', 'B']);  `&mut T` -> ('&mut', ['T']); tuples -> ('()', [...])"""
    t = t.strip()
    if t.startswith('&mut '): return '&mut', [t[5:]]
    if t.startswith('&'): return '&', [t[1:]]
    if t.startswith('*const '): return '*const', [t[7:]]
    if t.startswith('*mut '): return '*mut', [t[5:]]
    if t.startswith('('): return '()', split_top(t[1:match_close(t, 0)])
    if t.startswith('['):
        inner = t[1:-1]; k = find_top(inner, ';')
        return ('[]', [inner]) if k < 0 else ('[;]', [inner[:k].strip(), inner[k + 1:].strip()])
    if t.startswith('{closure@'): return t, []
    if t.startswith('<'):   # qualified path <T as Tr>::Assoc
        return t, []
    k = t.find('<')
    if k < 0: return t, []
    e = match_close(t, k)
    if e != len(t) - 1: return t, []     # e.g. Foo<A>::Bar
    head = t[:k]
    if head.endswith('::'): head = head[:-2]
    return head, split_top(t[k + 1:e])


def unify(pat, ty, generics, out):
    """match type pattern `pat` (mentioning names in `generics`) against concrete `ty`; fill out."""
    pat, ty = pat.strip(), ty.strip()
    if pat in generics:
        if pat in out and out[pat] != ty: return False
        out[pat] = ty; return True
    if pat == ty: return True
    ph, pa = type_head(pat); th, ta = type_head(ty)
    if ph != th or len(pa) != len(ta): return False
    if not pa: return ph == th
    return all(unify(a, b, generics, out) for a, b in zip(pa, ta))


# ------------------------------------------------------------------ source facts
STD_ENUMS = {
    'Option': ['None', 'Some'], 'Result': ['Ok', 'Err'], 'ControlFlow': ['Continue', 'Break'],
    'Cow': ['Borrowed', 'Owned'], 'Ordering': ['Less', 'Equal', 'Greater'], 'Bound': ['Included', 'Excluded', 'Unbounded'],
    'Entry': ['Occupied', 'Vacant'], 'Either': ['Left', 'Right'], 'FpCategory': ['Nan', 'Infinite', 'Zero', 'Subnormal', 'Normal'],
    'Infallible': [], 'Alignment': ['Left', 'Right', 'Center', 'Unknown'],
}


class Impl:
    __slots__ = ('file', 'line', 'generics', 'trait', 'trait_args', 'self_ty', 'assoc', 'end_line', 'derive', 'bound_into')

    def __init__(self): self.bound_into = None

    def __repr__(self): return f'Impl({self.trait} for {self.self_ty} @{self.file}:{self.line})'


class Source:
    """facts read from the current working tree's source text (regenerated on every run)"""

    def __init__(self, root):
        self.root = root
        self.files = {}
        self.enums = dict(STD_ENUMS)          # name -> [variant names]
        self.enum_fields = {}                   # (enum, variant) -> [field names] | int arity
        self.structs = {}                       # name -> [field names]
        self.struct_generics = {}               # name -> [type parameter names]
        self.struct_types = {}                  # name -> [(field name | index, type text)]
        self.variant_types = {}                 # (enum, variant) -> [(field name | index, type text)]
        self.fn_generics = {}                   # (file, fn name, line) -> [generic names]
        self.fn_defs = {}                       # fn name -> [(file, line, generics, argnames)]
        self.impls = {}                         # (file, line) -> Impl
        self.traits = {}                        # trait name -> {'assoc': [...], 'generics': [...]}
        self.aliases = {}                       # type alias name -> target type text (non-generic aliases)
        for p in sorted(glob.glob(root + '/src/**/*.rs', recursive=True)):
            rel = os.path.relpath(p, root)
            txt = open(p, encoding='utf-8').read()
            self.files[rel] = txt.split('\n')
            self._scan(rel, txt)

    @staticmethod
    def _strip_comments(txt):
        # keep line structure; remove // comments (not inside strings: good enough for declarations)
        return re.sub(r'(?m)^(\s*)//.*$', r'\1', txt)

    def _block_end(self, txt, i):
        """txt[i] == '{' -> index after matching '}' (string/char aware)"""
        d, n = 0, len(txt)
        while i < n:
            c = txt[i]
            if c == '"':
                i = _skip_quote(txt, i); continue
            if c == "'":
                j = _skip_quote(txt, i)
                i = j; continue
            if c == '/' and txt[i + 1:i + 2] == '/':
                i = txt.find('\n', i); i = n if i < 0 else i; continue
            if c == '{': d += 1
            elif c == '}':
                d -= 1
                if d == 0: return i + 1
            i += 1
        return n

    def _scan(self, rel, txt):
        clean = txt
        for m in re.finditer(r'\benum (\w+)\s*(?:<[^>{]*>)?\s*\{', clean):
            e = self._block_end(clean, m.end() - 1); body = clean[m.end():e - 1]
            body = re.sub(r'//[^\n]*', '', body)
            vs = []
            for part in split_top(body):
                part = re.sub(r'#\[[^\]]*\]\s*', '', part).strip()
                mm = re.match(r'(\w+)\s*(\(|\{)?', part)
                if not mm: continue
                vs.append(mm.group(1))
                if mm.group(2) == '(':
                    tys = split_top(part[mm.end():match_close(part, mm.end() - 1)])
                    self.enum_fields[(m.group(1), mm.group(1))] = len(tys)
                    self.variant_types[(m.group(1), mm.group(1))] = [(i, canon(' '.join(re.sub(r'^pub(?:\([^)]*\))? ', '', t.strip()).split()))) for i, t in enumerate(tys)]
                elif mm.group(2) == '{':
                    inner = part[mm.end():match_close(part, mm.end() - 1)]
                    self.enum_fields[(m.group(1), mm.group(1))] = [re.match(r'(?:pub(?:\([^)]*\))? )?(\w+)', x.strip()).group(1) for x in split_top(inner)]
                    self.variant_types[(m.group(1), mm.group(1))] = [(re.match(r'(?:pub(?:\([^)]*\))? )?(\w+)', x.strip()).group(1), canon(' '.join(x.split(':', 1)[1].split()))) for x in split_top(inner)]
                else:
                    self.enum_fields[(m.group(1), mm.group(1))] = 0
                    self.variant_types[(m.group(1), mm.group(1))] = []
            self.enums[m.group(1)] = vs
        for m in re.finditer(r'\bstruct (\w+)\s*(<[^>{(;]*>)?', clean):
            if m.group(2):
                gs = [re.match(r'\w+', g.strip()).group(0) for g in split_top(m.group(2)[1:-1]) if g.strip() and not g.strip().startswith("'")]
                self.struct_generics[m.group(1)] = gs
        for m in re.finditer(r'\bstruct (\w+)\s*(?:<[^>{(;]*>)?\s*(\{|\(|;)', clean):
            if m.group(2) == '{':
                e = self._block_end(clean, m.end() - 1); body = re.sub(r'//[^\n]*', '', clean[m.end():e - 1])
                names = []; tys = []
                for part in split_top(body):
                    part = re.sub(r'#\[[^\]]*\]\s*', '', part).strip()
                    mm = re.match(r'(?:pub(?:\([^)]*\))? )?(\w+)\s*:', part)
                    if mm: names.append(mm.group(1)); tys.append((mm.group(1), canon(' '.join(part[mm.end():].split()))))
                self.structs[m.group(1)] = names; self.struct_types[m.group(1)] = tys
            elif m.group(2) == '(':
                e = match_close(clean, m.end() - 1)
                parts = split_top(clean[m.end():e])
                self.structs[m.group(1)] = list(range(len(parts)))
                self.struct_types[m.group(1)] = [(i, canon(' '.join(re.sub(r'^pub(?:\([^)]*\))? ', '', t.strip()).split()))) for i, t in enumerate(parts)]
            else:
                self.structs[m.group(1)] = []
        # impl headers
        for m in re.finditer(r'(?m)^[ \t]*(?:unsafe )?impl\b', clean):
            line = clean.count('\n', 0, m.start()) + 1
            b = clean.find('{', m.end())
            # where clauses may contain braces? no.  header = text up to '{'
            header = ' '.join(clean[m.end():b].split())
            if '$' in header: continue          # an impl inside a macro_rules! body: its instances are not readable from the source text (a harness that needs one ends inconclusive)
            im = Impl(); im.file, im.line, im.derive = rel, line, False
            gens = []
            if header.startswith('<'):
                e = match_close(header, 0)
                for g in split_top(header[1:e]):
                    g = g.strip()
                    if g.startswith("'"): continue
                    g = re.sub(r'^const ', '', g)
                    gens.append(re.match(r'\w+', g).group(0))
                header = header[e + 1:].strip()
            header = re.split(r'\bwhere\b', header)[0].strip()
            k = -1
            d = 0
            for i2 in range(len(header)):
                c = header[i2]
                if c in '<(': d += 1
                elif c in ')' or (c == '>' and header[i2 - 1] not in '-='): d -= 1
                elif d == 0 and header.startswith(' for ', i2): k = i2; break
            if k >= 0:
                tr, st = header[:k].strip(), header[k + 5:].strip()
                th, ta = type_head(canon(tr))
                im.trait, im.trait_args = th.split('::')[-1], ta
            else:
                st = header; im.trait, im.trait_args = None, []
            im.self_ty = canon(st); im.generics = gens
            e = self._block_end(clean, b); body = clean[b:e]
            im.end_line = clean.count('\n', 0, e) + 1
            im.assoc = {am.group(1): canon(' '.join(am.group(2).split())) for am in re.finditer(r'\btype (\w+)(?:<[^>]*>)?\s*=\s*([^;]+);', body)}
            self.impls[(rel, line)] = im
        for m in re.finditer(r'(?m)^[ \t]*(?:pub(?:\([^)]*\))? )?(?:unsafe )?trait (\w+)\s*(<[^>{]*>)?', clean):
            self.traits[m.group(1)] = {'file': rel, 'line': clean.count('\n', 0, m.start()) + 1}
        for m in re.finditer(r'(?m)^(?:pub(?:\([^)]*\))? )?type (\w+)\s*=\s*([^;]+);', clean):
            self.aliases[m.group(1)] = canon(' '.join(m.group(2).split()))
        # fn definitions with generics
        for m in re.finditer(r'\bfn (\w+)\s*(<)?', clean):
            line = clean.count('\n', 0, m.start()) + 1
            gens = []; pos = m.end()
            if m.group(2):
                e = match_close(clean, m.end() - 1)
                for g in split_top(clean[m.end():e]):
                    g = ' '.join(g.split())
                    if g.startswith("'") or not g: continue
                    g = re.sub(r'^const ', '', g)
                    gens.append(re.match(r'\w+', g).group(0))
                pos = e + 1
            p0 = clean.find('(', pos)
            if p0 < 0: continue
            p1 = match_close(clean, p0)
            args = ' '.join(clean[p0 + 1:p1].split())
            # anonymous `impl Trait` parameters become trailing generics, in order of appearance
            nimpl = len(re.findall(r'\bimpl\b', args))
            self.fn_defs.setdefault(m.group(1), []).append((rel, line, gens, nimpl))

    def derive_info(self, file, line, c0, c1):
        """`impl at file:line:c0: line:c1` that points into a #[derive(...)] list"""
        lines = self.files[file]; text = lines[line - 1]
        tr = text[c0 - 1:c1 - 1]
        for k in range(line - 1, min(line + 8, len(lines))):
            t2 = re.search(r'\b(?:struct|enum) (\w+)\s*(<[^>{(;]*>)?', lines[k])
            if t2:
                gens = []
                if t2.group(2):
                    for g in split_top(t2.group(2)[1:-1]):
                        if not g.startswith("'"): gens.append(re.match(r'\w+', g).group(0))
                return tr, t2.group(1), gens
        return tr, None, []


# ------------------------------------------------------------------ MIR
class Fn:
    __slots__ = ('name', 'argtypes', 'ret', 'locals', 'blocks', 'text_hash', 'nargs', 'impl', 'method', 'generics',
                 'is_closure', 'promoted', 'parsed', 'closure_ty', 'closure_kind', 'nlines', 'subst_re', 'callcache')

    def __repr__(self): return f'Fn({self.name})'


_FN_HEAD = re.compile(r'^fn (.*) \{$')
_PROM_HEAD = re.compile(r'^const (.*)::promoted\[(\d+)\]: (.*) = \{$')
_STATIC_HEAD = re.compile(r'^static (?:mut )?([\w:]+): (.*) = \{$')
_CONST_HEAD = re.compile(r'^const ([\w:]+): (.*) = \{$')
_CONST_LINE = re.compile(r'^const ([\w:{}#<> ]+?): ([^=]+?) = const (.+);$')
_LET = re.compile(r'^\s*let (?:mut )?(_\d+): (.*);$')
_BB = re.compile(r'^    (bb\d+)(?: \(cleanup\))?: \{$')
_IMPL_AT = re.compile(r'<impl at (src/[\w/]+\.rs):(\d+):(\d+): (\d+):(\d+)>')


class Mir:
    def __init__(self, text, source):
        self.src = source
        self.fns = {}            # full MIR name -> Fn
        self.closures = {}       # '{closure@file:l:c: l:c}' -> Fn
        self.by_impl = {}        # (trait|None, self head, method) -> [Fn]
        self.by_name = {}        # last path segment -> [Fn]   (free functions, trait default methods, ctors)
        self.statics = {}
        self.consts = {}                        # const items with a body: last path segment -> [Fn]
        self.const_lits = {}                    # one-line const items (`const N: usize = const 40_usize;`): last path segment -> [(type, literal text)]
        self._parse(text)

    def _parse(self, text):
        lines = text.split('\n')
        i, n = 0, len(lines); last_fn = None
        while i < n:
            l = lines[i]
            m = _FN_HEAD.match(l); pm = None; sm = None; cm = None
            if not m:
                pm = _PROM_HEAD.match(l)
                if not pm: sm = _STATIC_HEAD.match(l)
                if not pm and not sm: cm = _CONST_HEAD.match(l)
            if not (m or pm or sm or cm):
                lm = _CONST_LINE.match(l)
                if lm: self.const_lits.setdefault(lm.group(1).split('::')[-1], []).append((canon(lm.group(2).strip()), lm.group(3).strip()))
                i += 1; continue
            j = i + 1
            while lines[j] != '}': j += 1
            body = lines[i + 1:j]
            f = Fn(); f.promoted = {}; f.parsed = {}; f.callcache = {}
            f.text_hash = hashlib.sha1('\n'.join(lines[i:j]).encode()).hexdigest()[:12]; f.nlines = j - i
            if m:
                head = m.group(1)
                k = find_top(head, '(')
                f.name = head[:k]
                e = match_close(head, k)
                args = split_top(head[k + 1:e])
                f.argtypes = [canon(a.split(': ', 1)[1]) if ': ' in a else '' for a in args]
                rest = head[e + 1:].strip()
                f.ret = canon(rest[3:].strip()) if rest.startswith('->') else '()'
            elif pm:
                f.name = f'{last_fn.name}::promoted[{pm.group(2)}]' if last_fn else pm.group(1)
                f.argtypes = []; f.ret = canon(pm.group(3))
            elif cm:
                f.name = 'const ' + cm.group(1); f.argtypes = []; f.ret = canon(cm.group(2))
            else:
                f.name = 'static ' + sm.group(1); f.argtypes = []; f.ret = canon(sm.group(2))
            f.nargs = len(f.argtypes)
            f.locals = {'_0': f.ret}
            for a_i, t in enumerate(f.argtypes): f.locals[f'_{a_i + 1}'] = t
            blocks = {}; cur = None
            for bl in body:
                lm = _LET.match(bl)
                if lm: f.locals[lm.group(1)] = canon(lm.group(2)); continue
                bm = _BB.match(bl)
                if bm: cur = []; blocks[bm.group(1)] = cur; continue
                if cur is not None:
                    s = bl.strip()
                    if s == '}': cur = None
                    elif s: cur.append(s)
            f.blocks = blocks
            f.is_closure = '{closure#' in f.name.rsplit('::promoted', 1)[0].split('::')[-1] if m else False
            f.impl = None; f.method = f.name.split('::')[-1]; f.generics = None; f.closure_ty = None; f.closure_kind = None
            f.subst_re = None
            if m and f.name in self.fns:
                prev = self.fns[f.name]
                if prev.argtypes == f.argtypes and prev.ret == f.ret and prev.text_hash == f.text_hash: i = j + 1; continue        # the dump repeats some items verbatim: keep the first
                # same path, different signature: instances of an impl generated by a macro (one span, several types)
                k = 2
                while f'{f.name}#{k}' in self.fns: k += 1
                f.name = f'{f.name}#{k}'
            self.fns[f.name] = f
            if pm and last_fn is not None: last_fn.promoted[int(pm.group(2))] = f
            if sm: self.statics[sm.group(1).split('::')[-1]] = f
            if cm: self.consts.setdefault(cm.group(1).split('::')[-1], []).append(f)
            if m:
                last_fn = f
                self._index(f)
            elif cm or sm:
                last_fn = f          # promoteds printed after a const / static item belong to that item, not to the function before it
            i = j + 1

    def _index(self, f):
        name = f.name
        if f.is_closure:
            t = f.argtypes[0]; kind = 'once'
            if t.startswith('&mut '): t, kind = t[5:], 'mut'
            elif t.startswith('&'): t, kind = t[1:], 'ref'
            f.closure_ty, f.closure_kind = t, kind
            self.closures[t] = f
        im = _IMPL_AT.search(name)
        if im:
            file, l, c0, l1, c1 = im.group(1), int(im.group(2)), int(im.group(3)), int(im.group(4)), int(im.group(5))
            impl = self.src.impls.get((file, l))
            line_txt = self.src.files[file][l - 1] if file in self.src.files else ''
            if '$' in line_txt and re.search(r'\bimpl\b', line_txt):
                # impl written inside a macro_rules! body: its self type / trait are recovered from the instance's signature
                k0 = line_txt.index('impl') + 4
                gens_txt = ''
                if line_txt[k0:k0 + 1] == '<':
                    e0 = match_close(line_txt, k0); gens_txt = line_txt[k0 + 1:e0]; k0 = e0 + 1
                mm = re.match(r'\s+(\w+)(?:<([^>]*)>)?\s+for\b', line_txt[k0:])
                impl = Impl(); impl.file, impl.line, impl.derive, impl.assoc, impl.end_line = file, l, False, {}, l
                impl.generics = [re.match(r'\w+', g.strip()).group(0) for g in split_top(gens_txt) if g.strip() and not g.strip().startswith("'")]
                impl.trait = mm.group(1) if mm else None
                impl.trait_args = [x.strip() for x in (mm.group(2) or '').split(',') if x.strip()] if mm else []
                bm = re.search(r'<T as Into<([^>]+(?:<[^<>]*>)?)>>::into', '\n'.join(l2 for b in f.blocks.values() for l2 in b))
                impl.bound_into = canon(bm.group(1)) if bm else None
                impl.self_ty = f.ret if (impl.trait == 'From') else (f.argtypes[0].lstrip('&') if f.argtypes else None)
            if '$' in line_txt and impl is not None and impl.file == file and impl.line == l and impl.end_line == l and not impl.derive and impl.assoc == {} and re.search(r'\bimpl\b', line_txt):
                pass
            elif impl is None or not re.match(r'\s*(?:unsafe )?impl\b', line_txt[c0 - 1:] if c0 - 1 < len(line_txt) else ''):
                tr, ty, gens = self.src.derive_info(file, l, c0, c1)
                impl = Impl(); impl.file, impl.line, impl.generics, impl.trait, impl.trait_args = file, l, gens, tr.split('::')[-1], []
                impl.self_ty = ty + ('<' + ', '.join(gens) + '>' if gens else '') if ty else None
                impl.assoc = {}; impl.derive = True; impl.end_line = l
                if impl.trait == 'From' and f.argtypes: impl.trait_args = [f.argtypes[0]]       # derive_more::From: one impl per variant
            f.impl = impl
            rest = re.sub(r'#\d+$', '', name[im.end():])            # ::method or ::method::{closure#0} ...
            segs = [s for s in rest.split('::') if s]
            f.method = segs[0] if segs else ''
            if not f.is_closure and len(segs) == 1 and impl.self_ty:
                if impl.self_ty in self.src.aliases: impl.self_ty = self.src.aliases[impl.self_ty]     # `impl Alias { .. }`
                head = type_head(impl.self_ty)[0]
                self.by_impl.setdefault((impl.trait, head, f.method), []).append(f)
        if not f.is_closure and not im:
            self.by_name.setdefault(name.split('::')[-1], []).append(f)

    # generic parameter names of a function, in rustc's order: impl generics, then fn generics, then `impl Trait` args
    def generics_of(self, f):
        if f.generics is not None: return f.generics
        gens = []
        base = f
        name = f.name
        if f.is_closure:
            # closures inherit the generics of their parent item
            pname = re.sub(r'(::\{closure#\d+\})+$', '', name)
            parent = self.fns.get(pname)
            f.generics = self.generics_of(parent) if parent else []
            return f.generics
        if f.impl is not None:
            gens += list(f.impl.generics)
        elif '::' in name and name.split('::')[-2] in self.src.traits:
            gens.append('Self')
        defs = self.src.fn_defs.get(f.method, [])
        cand = None
        if f.impl is not None and not f.impl.derive:
            for d in defs:
                if d[0] == f.impl.file and f.impl.line <= d[1] <= f.impl.end_line: cand = d; break
        elif f.impl is None:
            tr = name.split('::')[-2] if '::' in name else None
            if tr in self.src.traits:
                for d in defs:
                    if d[0] == self.src.traits[tr]['file']: cand = d; break
            elif len(defs) == 1: cand = defs[0]
            elif defs:
                # nested fn (e.g. `op` inside binary_operator_fold) or same name in several modules: prefer free fns whose
                # module appears in the MIR name
                mods = name.split('::')[:-1]
                for d in defs:
                    if any(mm and mm in d[0] for mm in mods): cand = d; break
                if cand is None: cand = defs[0]
        if cand:
            gens += cand[2]
            gens += [f'impl#{k}' for k in range(cand[3])]
        f.generics = gens
        return gens
