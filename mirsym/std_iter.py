"""Lazy iterator adaptors and consumers (std::iter + the itertools methods rrss uses)."""
import re
import z3
from .mir import type_head
from .values import *
from .strings import *
from .std import path, path_rx, trait, some, NONE, ok, err, D, D1, conc, truth, call_trait, tyarg, clone_of, values_eq, list_items


def obj(vm, it):
    while isinstance(it, Ref): it = vm.ref_get(it)
    return it


def it_next(vm, it):
    """advance any iterator value; returns None or a 1-tuple (item,)"""
    it = obj(vm, it)
    if isinstance(it, CharIdx): return charidx_next(vm, it, True)
    if isinstance(it, Adt) and it.ty == 'Range':          # a Range used as an iterator in place ((0..n).try_for_each(..), for over &mut range)
        lo, hi = it.fields
        if isinstance(lo, int) and isinstance(hi, int):
            if lo >= hi: return None
        else:
            bits = lo.size() if is_sym(lo) else hi.size()
            if not truth(vm, vm.bv(lo, bits) < vm.bv(hi, bits)): return None          # Range<isize> / <i64>: signed; usize bounds in this crate stay far below 2^63
        it.fields[0] = lo + 1; return (lo,)
    if not isinstance(it, It):
        if isinstance(it, (Adt, SymEnum)):      # a crate type implementing Iterator
            if not vm.mir.by_impl.get(('Iterator', it.ty, 'next')): raise Unmodelled(f'next on a non-iterator value {it!r}'[:200])
            r = conc(vm, call_trait(vm, it.ty, 'Iterator', 'next', [Ref(Cell(it))]))
            return (r.fields[0],) if r.variant == 1 else None
        raise Unmodelled(f'next on {it!r}')
    k, a = it.kind, it.a
    if k == 'list':          # owned list of items
        if a[1] >= len(a[0]): return None
        a[1] += 1; return (a[0][a[1] - 1],)
    if k == 'refs':          # references into a container: a[0] = Ref to HList, a[1] = pos, a[2] = end
        if a[1] >= a[2]: return None
        a[1] += 1; r = a[0]; return (Ref(r.cell, r.path + (a[1] - 1,)),)
    if k == 'once':
        if a[0] is None: return None
        v, a[0] = a[0], None; return (v,)
    if k == 'empty': return None
    if k == 'chain':
        if a[0] is not None:
            r = it_next(vm, a[0])
            if r is not None: return r
            a[0] = None
        return it_next(vm, a[1]) if a[1] is not None else None
    if k == 'map':
        r = it_next(vm, a[0])
        return None if r is None else (vm.call_value(a[1], [r[0]]),)
    if k == 'filter':
        while True:
            r = it_next(vm, a[0])
            if r is None: return None
            if truth(vm, vm.call_value(a[1], [Ref(Cell(r[0]))])): return r
    if k == 'filter_map':
        while True:
            r = it_next(vm, a[0])
            if r is None: return None
            o = conc(vm, vm.call_value(a[1], [r[0]]))
            if o.variant == 1: return (o.fields[0],)
    if k == 'enumerate':
        r = it_next(vm, a[0])
        if r is None: return None
        a[1] += 1; return (tup(a[1] - 1, r[0]),)
    if k == 'zip':
        x = it_next(vm, a[0])
        if x is None: return None
        y = it_next(vm, a[1])
        if y is None: return None
        return (tup(x[0], y[0]),)
    if k == 'cloned':
        r = it_next(vm, a[0])
        return None if r is None else (clone_of(vm, a[1], r[0]),)
    if k == 'inspect':
        r = it_next(vm, a[0])
        if r is not None: vm.call_value(a[1], [Ref(Cell(r[0]))])
        return r
    if k == 'peekable':
        if a[1] is not None:
            p, a[1] = a[1], None; return p if p != () else None
        return it_next(vm, a[0])
    if k == 'take':
        if a[1] <= 0: return None
        a[1] -= 1; return it_next(vm, a[0])
    if k == 'skip':
        while a[1] > 0:
            a[1] -= 1
            if it_next(vm, a[0]) is None: return None
        return it_next(vm, a[0])
    if k == 'take_while':
        if a[2]: return None
        r = it_next(vm, a[0])
        if r is None: return None
        if truth(vm, vm.call_value(a[1], [Ref(Cell(r[0]))])): return r
        a[2] = True; return None
    if k == 'skip_while':
        while True:
            r = it_next(vm, a[0])
            if r is None: return None
            if a[2]: return r
            if not truth(vm, vm.call_value(a[1], [Ref(Cell(r[0]))])): a[2] = True; return r
    if k == 'take_while_ref':
        inner = obj(vm, a[0])
        save = vm.clone_val(inner)
        r = it_next(vm, inner)
        if r is None: return None
        if truth(vm, vm.call_value(a[1], [Ref(Cell(r[0]))])): return r
        restore_iter(inner, save); return None
    if k == 'rev':
        return it_next_back(vm, a[0])
    if k == 'repeat_n':
        if a[1] <= 0: return None
        a[1] -= 1; return (vm.clone_val(a[0]),)
    if k == 'repeat': return (vm.clone_val(a[0]),)
    if k == 'repeat_with': return (vm.call_value(a[0], []),)
    if k == 'from_fn':
        r = conc(vm, vm.call_value(a[0], []))
        return (r.fields[0],) if r.variant == 1 else None
    if k == 'successors':
        cur = a[0]
        if cur is None: return None
        nx = conc(vm, vm.call_value(a[1], [Ref(Cell(cur))]))
        a[0] = nx.fields[0] if nx.variant == 1 else None
        return (cur,)
    if k == 'repeat_n_sym':
        # symbolic count: split on its feasible values (bounded), then behave like repeat_n
        n = vm.concretize(a[1], limit=24)
        if n > 4096: raise PanicEdge('panic', f'repeat_n with a count of {n}: allocation beyond modest resource bounds')
        it.kind = 'repeat_n'; it.a[1] = n
        return it_next(vm, it)
    if k == 'flatten':
        while True:
            if a[1] is not None:
                r = it_next(vm, a[1])
                if r is not None: return r
                a[1] = None
            r = it_next(vm, a[0])
            if r is None: return None
            a[1] = into_iter(vm, r[0])
    if k == 'chars':         # over a BStr
        s, pos = a
        cs = s.chars()
        if pos >= len(cs): return None
        a[1] += 1; return (cs[pos],)
    if k == 'symchars':
        from .std_str import as_bounded_iter
        as_bounded_iter(vm, it)
        return it_next(vm, it)
    if k == 'range':
        lo, hi = a
        if isinstance(lo, int) and isinstance(hi, int):
            if lo >= hi: return None
            a[0] += 1; return (lo,)
        if not truth(vm, z3.ULT(lo, hi) if True else lo < hi): return None
        a[0] = lo + 1; return (lo,)
    if k == 'hmap':          # a[0]=HMap, a[1]=order (list of indices), a[2]=pos, a[3]=what
        if a[2] >= len(a[1]): return None
        i = a[1][a[2]]; a[2] += 1
        return (hmap_item(vm, a[0], i, a[3], a[4]),)
    if k == 'split':
        return split_next(vm, it)
    if k == 'successors':
        cur = a[0]
        if cur is None: return None
        nxt = conc(vm, vm.call_value(a[1], [Ref(Cell(cur))]))
        a[0] = nxt.fields[0] if nxt.variant == 1 else None
        return (cur,)
    if k == 'from_fn':
        r = conc(vm, vm.call_value(a[0], []))
        return (r.fields[0],) if r.variant == 1 else None
    raise Unmodelled('iterator kind ' + k)


def restore_iter(dst, src):
    if isinstance(dst, CharIdx): dst.pos, dst.back = src.pos, src.back; return
    if isinstance(dst, It): dst.a[:] = src.a; return
    if isinstance(dst, Adt) and isinstance(src, Adt): dst.variant = src.variant; dst.fields[:] = src.fields; return
    raise Unmodelled('restore iterator ' + repr(dst))


def it_next_back(vm, it):
    it = obj(vm, it)
    if isinstance(it, CharIdx): return charidx_next(vm, it, True, back=True)
    k, a = it.kind, it.a
    if k == 'list':
        if a[1] >= len(a[0]): return None
        return (a[0].pop(),)
    if k == 'refs':
        if a[1] >= a[2]: return None
        a[2] -= 1; r = a[0]; return (Ref(r.cell, r.path + (a[2],)),)
    if k == 'chars':
        s, pos = a
        cs = s.chars()
        if pos >= len(cs): return None
        c = cs[-1]; w = s.buf.widths[s.buf.cidx(s.start) + len(cs) - 1]
        a[0] = BStr(s.buf, s.start, s.end - w); return (c,)
    if k == 'map':
        r = it_next_back(vm, a[0]); return None if r is None else (vm.call_value(a[1], [r[0]]),)
    if k == 'rev': return it_next(vm, a[0])
    if k == 'enumerate':
        rest = []
        raise Unmodelled('enumerate().rev()')
    if k == 'chain':
        if a[1] is not None:
            r = it_next_back(vm, a[1])
            if r is not None: return r
            a[1] = None
        return it_next_back(vm, a[0]) if a[0] is not None else None
    raise Unmodelled('next_back on ' + k)


def charidx_next(vm, ci, with_index, back=False):
    s = ci.s; b = s.buf
    if ci.pos >= ci.back: return None
    if back:
        i = b.cidx(ci.back) - 1; ci.back = b.offs[i]
        return (tup(b.offs[i] - ci.base, b.cps[i]),)
    i = b.cidx(ci.pos); ci.pos += b.widths[i]
    return (tup(b.offs[i] - ci.base, b.cps[i]),)


def hmap_item(vm, hm_ref, i, what, mut):
    hm = obj(vm, hm_ref)
    if what == 'values': return Ref(hm_ref.cell, hm_ref.path + (('e', i, 1),)) if isinstance(hm_ref, Ref) else hm.entries[i][1]
    if what == 'keys': return Ref(hm_ref.cell, hm_ref.path + (('e', i, 0),)) if isinstance(hm_ref, Ref) else hm.entries[i][0]
    if what == 'iter':
        return tup(Ref(hm_ref.cell, hm_ref.path + (('e', i, 0),)), Ref(hm_ref.cell, hm_ref.path + (('e', i, 1),)))
    if what == 'into': return tup(hm.entries[i][0], hm.entries[i][1])
    raise Unmodelled('hmap iter ' + what)


def into_iter(vm, v):
    """IntoIterator::into_iter on a value"""
    if isinstance(v, (It, CharIdx)): return v
    if isinstance(v, Ref):
        t = vm.ref_get(v)
        if isinstance(t, (It, CharIdx)): return v           # &mut I
        if isinstance(t, Adt) and t.ty in ('Vec', 'VecDeque', 'SmallVec', 'ArrayVec'):
            return It('refs', Ref(v.cell, v.path + (0,)), 0, len(t.fields[0].items))
        if isinstance(t, HList): return It('refs', v, 0, len(t.items))
        if isinstance(t, HMap): return hmap_iter(vm, v, 'iter')
        if isinstance(t, Adt) and t.ty == 'Option':
            return It('list', [Ref(v.cell, v.path + (0,))] if t.variant == 1 else [], 0)
        if isinstance(t, (Adt, SymEnum)): return v          # &mut CrateIterator
    if isinstance(v, SliceRef): return It('refs', v.ref, v.start, v.end)
    if isinstance(v, Adt) and v.ty in ('Vec', 'VecDeque', 'SmallVec', 'ArrayVec'): return It('list', list(v.fields[0].items), 0)
    if isinstance(v, HList): return It('list', list(v.items), 0)
    if isinstance(v, Adt) and v.ty == 'Option': return It('list', list(v.fields) if v.variant == 1 else [], 0)
    if isinstance(v, Adt) and v.ty in ('Range',): return It('range', v.fields[0], v.fields[1])
    if isinstance(v, HMap):
        if str(v.order_tag).startswith('hs') or (v.entries and all(x is UNIT for _, x in v.entries)): return It('list', [k for k, _ in ordered_entries(vm, v)], 0)      # a set yields its elements
        return It('list', [tup(k, x) for k, x in ordered_entries(vm, v)], 0)
    if isinstance(v, (Adt, SymEnum)): return v               # crate iterator by value
    raise Unmodelled(f'into_iter of {v!r}')


def hmap_order(vm, hm):
    """iteration order of a hash map: environment nondeterminism.  A harness may install `vm.hash_order(hm) -> permutation`;
    by default BTreeMaps iterate sorted (concrete keys only) and HashMaps fork over all permutations (<= 3 entries)."""
    n = len(hm.entries)
    if hm.sorted:
        keys = [e[0] for e in hm.entries]
        try: return sorted(range(n), key=lambda i: _sort_key(keys[i]))
        except TypeError: raise Unmodelled('BTreeMap with symbolic keys')
    h = getattr(vm, 'hash_order', None)
    if h is not None: return h(vm, hm)
    if n <= 1: return list(range(n))
    import itertools
    perms = list(itertools.permutations(range(n)))
    if len(perms) > 6: raise BoundExceeded('hash map iteration order over more than 3 entries')
    return list(perms[vm.fork(len(perms), note='hash-order')])


def _sort_key(k):
    if isinstance(k, (int, float, bool)): return (0, k)
    if isinstance(k, SymStr): return (1, zstr(z3.simplify(k.term)))
    if isinstance(k, BStr):
        c = k.concrete()
        if c is None: raise TypeError
        return (1, c)
    if isinstance(k, Adt): return (2, k.variant, tuple(_sort_key(f) for f in k.fields))
    if isinstance(k, HList): return (3, tuple(_sort_key(f) for f in k.items))
    raise TypeError


def ordered_entries(vm, hm): return [hm.entries[i] for i in hmap_order(vm, hm)]


def hmap_iter(vm, ref, what, mut=False):
    hm = obj(vm, ref)
    return It('hmap', ref, hmap_order(vm, hm), 0, what, mut)


# ------------------------------------------------------------------ constructors
@path('once', 'iter::once', 'std::iter::once')
def _(vm, a, ci): return It('once', a[0])


@path('empty', 'iter::empty', 'std::iter::empty')
def _(vm, a, ci): return It('empty')


@path('repeat_n', 'itertools::repeat_n', 'std::iter::repeat_n', 'iter::repeat_n')
def _(vm, a, ci):
    n = a[1]
    if not isinstance(n, int):
        return It('repeat_n_sym', a[0], n)
    return It('repeat_n', a[0], n)


@path('repeat', 'iter::repeat', 'std::iter::repeat')
def _(vm, a, ci): return It('repeat', a[0])


@path('repeat_with', 'iter::repeat_with', 'std::iter::repeat_with')
def _(vm, a, ci): return It('repeat_with', a[0])


@path('from_fn', 'iter::from_fn', 'std::iter::from_fn')
def _(vm, a, ci): return It('from_fn', a[0])


@path('successors', 'iter::successors', 'std::iter::successors')
def _(vm, a, ci):
    first = conc(vm, a[0])
    return It('successors', first.fields[0] if first.variant == 1 else None, a[1])


@path('successors', 'iter::successors', 'std::iter::successors')
def _(vm, a, ci):
    o = conc(vm, a[0]); return It('successors', o.fields[0] if o.variant == 1 else None, a[1])


@path('from_fn', 'iter::from_fn', 'std::iter::from_fn')
def _(vm, a, ci): return It('from_fn', a[0])


@trait(('IntoIterator', 'into_iter'))
def _(vm, a, ci): return into_iter(vm, a[0])


# ------------------------------------------------------------------ adaptors
@trait(('Iterator', 'map'))
def _(vm, a, ci): return It('map', a[0], a[1])


@trait(('Iterator', 'chain'))
def _(vm, a, ci): return It('chain', a[0], into_iter(vm, a[1]))


@trait(('Iterator', 'filter'))
def _(vm, a, ci): return It('filter', a[0], a[1])


@trait(('Iterator', 'filter_map'))
def _(vm, a, ci): return It('filter_map', a[0], a[1])


@trait(('Iterator', 'enumerate'))
def _(vm, a, ci): return It('enumerate', a[0], 0)


@trait(('Iterator', 'zip'))
def _(vm, a, ci): return It('zip', a[0], into_iter(vm, a[1]))


@trait(('Iterator', 'cloned'), ('Iterator', 'copied'))
def _(vm, a, ci): return It('cloned', a[0], '')


@trait(('Iterator', 'inspect'))
def _(vm, a, ci): return It('inspect', a[0], a[1])


@path_rx(r'Peekable(?:::<.*>)?::(?:peek|peek_mut|next_if|next_if_eq)$')
def _(vm, a, ci):
    it = obj(vm, a[0])
    if not (isinstance(it, It) and it.kind == 'peekable'): raise Unmodelled(f'peek on {it!r}'[:100])
    if it.a[1] is None:
        r = it_next(vm, it.a[0]); it.a[1] = r if r is not None else ()
    p = it.a[1]
    if ci.method in ('peek', 'peek_mut'):
        if p == (): return NONE()
        cell = Cell(p[0]); it.a[1] = _PeekSlot(cell)
        return some(Ref(cell))
    # next_if / next_if_eq
    if p == (): return NONE()
    hit = truth(vm, vm.call_value(a[1], [Ref(Cell(p[0]))])) if ci.method == 'next_if' else truth(vm, values_eq(vm, '', p[0], D(vm, a[1])))
    if hit: it.a[1] = None; return some(p[0])
    return NONE()


class _PeekSlot(tuple):
    """peeked item held in a cell (so that peek_mut writes are seen by next)"""
    def __new__(cls, cell):
        t = tuple.__new__(cls, (None,)); t.cell = cell; return t

    def __getitem__(self, i): return self.cell.v


@trait(('Iterator', 'peekable'))
def _(vm, a, ci): return It('peekable', a[0], None)


@trait(('Iterator', 'take'))
def _(vm, a, ci): return It('take', a[0], a[1])


@trait(('Iterator', 'skip'))
def _(vm, a, ci): return It('skip', a[0], a[1])


@trait(('Iterator', 'take_while'))
def _(vm, a, ci): return It('take_while', a[0], a[1], False)


@trait(('Iterator', 'skip_while'))
def _(vm, a, ci): return It('skip_while', a[0], a[1], False)


@trait(('Itertools', 'take_while_ref'))
def _(vm, a, ci): return It('take_while_ref', a[0], a[1])


@trait(('Iterator', 'rev'))
def _(vm, a, ci): return It('rev', a[0])


@trait(('Iterator', 'flatten'))
def _(vm, a, ci):
    if isinstance(a[0], It) and a[0].kind == 'repeat_n_sym': return It('flat_repeat_sym', a[0].a[0], a[0].a[1])
    return It('flatten', a[0], None)


@trait(('Iterator', 'flat_map'))
def _(vm, a, ci): return It('flatten', It('map', a[0], a[1]), None)


@trait(('Iterator', 'by_ref'))
def _(vm, a, ci): return a[0]


@trait(('Iterator', 'fuse'))
def _(vm, a, ci): return a[0]


@path('Peekable::peek')
def _(vm, a, ci):
    p = obj(vm, a[0])
    if p.a[1] is None:
        r = it_next(vm, p.a[0]); p.a[1] = r if r is not None else ()
    if p.a[1] == (): return NONE()
    c = Cell(p.a[1][0]); return some(Ref(c))


# ------------------------------------------------------------------ consumers
@trait(('Iterator', 'next'))
def _(vm, a, ci):
    r = it_next(vm, a[0])
    return NONE() if r is None else some(r[0])


@trait(('DoubleEndedIterator', 'next_back'))
def _(vm, a, ci):
    r = it_next_back(vm, a[0])
    return NONE() if r is None else some(r[0])


@trait(('Iterator', 'try_fold'))
def _(vm, a, ci):
    it, acc, f = a
    # R is the closure's return type: Result / Option / ControlFlow -- decided on the returned value
    while True:
        r = it_next(vm, it)
        if r is None:
            rty = ci.fnargs[2] if len(ci.fnargs) > 2 else ''
            h = type_head(rty)[0]
            if h == 'Option': return some(acc)
            if h == 'ControlFlow': return Adt('ControlFlow', 0, [acc])
            return ok(acc)
        res = conc(vm, vm.call_value(f, [acc, r[0]]))
        if res.ty == 'Result':
            if res.variant == 1: return res
            acc = res.fields[0]
        elif res.ty == 'Option':
            if res.variant == 0: return res
            acc = res.fields[0]
        elif res.ty == 'ControlFlow':
            if res.variant == 1: return res
            acc = res.fields[0]
        else: raise Unmodelled('try_fold over ' + res.ty)


@trait(('Iterator', 'try_for_each'))
def _(vm, a, ci):
    it, f = a
    # R is the closure's return type (fn generic args: F, R): Result<(), E> / Option<()> / ControlFlow<B, ()>
    while True:
        r = it_next(vm, it)
        if r is None:
            rty = ci.fnargs[1] if len(ci.fnargs) > 1 else ''
            h = type_head(rty)[0]
            if h == 'Option': return some(UNIT)
            if h == 'ControlFlow': return Adt('ControlFlow', 0, [UNIT])
            return ok(UNIT)
        res = conc(vm, vm.call_value(f, [r[0]]))
        if res.ty == 'Result':
            if res.variant == 1: return res
        elif res.ty == 'Option':
            if res.variant == 0: return res
        elif res.ty == 'ControlFlow':
            if res.variant == 1: return res
        else: raise Unmodelled('try_for_each over ' + res.ty)


@trait(('Iterator', 'fold'))
def _(vm, a, ci):
    it, acc, f = a
    while True:
        r = it_next(vm, it)
        if r is None: return acc
        acc = vm.call_value(f, [acc, r[0]])


@trait(('Iterator', 'for_each'))
def _(vm, a, ci):
    while True:
        r = it_next(vm, a[0])
        if r is None: return UNIT
        vm.call_value(a[1], [r[0]])


@trait(('Iterator', 'all'))
def _(vm, a, ci):
    while True:
        r = it_next(vm, a[0])
        if r is None: return True
        if not truth(vm, vm.call_value(a[1], [r[0]])): return False


@trait(('Iterator', 'any'))
def _(vm, a, ci):
    while True:
        r = it_next(vm, a[0])
        if r is None: return False
        if truth(vm, vm.call_value(a[1], [r[0]])): return True


@trait(('Iterator', 'find'))
def _(vm, a, ci):
    while True:
        r = it_next(vm, a[0])
        if r is None: return NONE()
        if truth(vm, vm.call_value(a[1], [Ref(Cell(r[0]))])): return some(r[0])


@trait(('Iterator', 'find_map'))
def _(vm, a, ci):
    while True:
        r = it_next(vm, a[0])
        if r is None: return NONE()
        o = conc(vm, vm.call_value(a[1], [r[0]]))
        if o.variant == 1: return o


@trait(('Iterator', 'position'))
def _(vm, a, ci):
    i = 0
    while True:
        r = it_next(vm, a[0])
        if r is None: return NONE()
        if truth(vm, vm.call_value(a[1], [r[0]])): return some(i)
        i += 1


@trait(('Iterator', 'count'))
def _(vm, a, ci):
    n = 0
    while it_next(vm, a[0]) is not None: n += 1
    return n


@trait(('ExactSizeIterator', 'len'))
def _(vm, a, ci):
    def n(it):
        it = obj(vm, it)
        if not isinstance(it, It): raise Unmodelled(f'ExactSizeIterator::len on {it!r}'[:120])
        k, x = it.kind, it.a
        if k == 'list': return len(x[0]) - x[1]
        if k == 'refs': return x[2] - x[1]
        if k == 'once': return 0 if x[0] is None else 1
        if k == 'empty': return 0
        if k in ('map', 'rev', 'enumerate', 'cloned', 'copied', 'inspect'): return n(x[0])
        if k == 'chain': return (n(x[0]) if x[0] is not None else 0) + (n(x[1]) if x[1] is not None else 0)
        raise Unmodelled('ExactSizeIterator::len on iterator kind ' + k)
    return n(a[0])


@trait(('Iterator', 'eq'), ('Iterator', 'ne'), ('Iterator', 'eq_by'))
def _(vm, a, ci):
    """lexicographic equality of two iterators (elements compared by PartialEq, or by the closure for eq_by)"""
    other = into_iter(vm, a[1]) if not isinstance(obj(vm, a[1]), (It,)) else a[1]
    res = True
    while True:
        x, y = it_next(vm, a[0]), it_next(vm, other)
        if x is None or y is None:
            res = x is None and y is None; break
        if ci.method == 'eq_by': e = truth(vm, vm.call_value(a[2], [x[0], y[0]]))
        else: e = truth(vm, values_eq(vm, (ci.targs[0] if getattr(ci, 'targs', None) else '') or '', x[0], y[0]))
        if not e: res = False; break
    return (not res) if ci.method == 'ne' else res


@trait(('Iterator', 'last'))
def _(vm, a, ci):
    last = None
    while True:
        r = it_next(vm, a[0])
        if r is None: return NONE() if last is None else some(last[0])
        last = r


@trait(('Iterator', 'nth'))
def _(vm, a, ci):
    n = a[1]
    it = obj(vm, a[0])
    if not isinstance(n, int):
        # bounded: iterate, comparing the symbolic index against each position
        i = 0
        while True:
            r = it_next(vm, it)
            if r is None: return NONE()
            if truth(vm, n == i): return some(r[0])
            i += 1
    for _ in range(n):
        if it_next(vm, it) is None: return NONE()
    r = it_next(vm, it)
    return NONE() if r is None else some(r[0])


@trait(('Iterator', 'sum'))
def _(vm, a, ci):
    ty = ci.fnargs[0] if ci.fnargs else 'f64'
    return call_trait(vm, ty, 'Sum', 'sum', [a[0]])


@trait(('Iterator', 'max'), ('Iterator', 'min'))
def _(vm, a, ci):
    from .std import values_cmp
    best = None
    while True:
        r = it_next(vm, a[0])
        if r is None: return NONE() if best is None else some(best)
        if best is None: best = r[0]; continue
        c = values_cmp(vm, '', r[0], best, False)
        if (ci.method == 'max' and c >= 0) or (ci.method == 'min' and c < 0): best = r[0]


def drain(vm, it):
    out = []
    while True:
        r = it_next(vm, it)
        if r is None: return out
        out.append(r[0])
        if len(out) > 10000: raise BoundExceeded('iterator longer than 10000 items')


def collect_string(vm, it):
    """collect::<String>() / String::from_iter over chars or strs"""
    it = obj(vm, it)
    parts = flatten_str_iter(vm, it)
    if parts is not None:
        terms = [to_sym(p) if not is_sym(p) else p for p in parts]
        if not terms: return const_str(vm, '')
        if len(terms) == 1: return SymStr(terms[0])
        return SymStr(z3.simplify(z3.Concat(*terms)))
    items = drain(vm, it)
    if getattr(vm, 'str_mode', 'opaque') == 'bounded' or all(isinstance(x, int) for x in items if not isinstance(x, (BStr, SymStr))):
        cps = []
        sym = False
        for x in items:
            x = D(vm, x)
            if isinstance(x, BStr): cps.extend(zip(x.chars(), [x.buf.widths[x.buf.cidx(x.start) + i] for i in range(len(x.chars()))]))
            elif isinstance(x, SymStr): sym = True; break
            else: cps.append((x, utf8_len(x) if isinstance(x, int) else None))
        if not sym:
            if any(w is None for _, w in cps): raise Unmodelled('collecting symbolic chars of unknown width')
            if getattr(vm, 'str_mode', 'opaque') == 'bounded' or any(is_sym(c) for c, _ in cps):
                return BStr(Buf([c for c, _ in cps], [w for _, w in cps]))
            return const_str(vm, ''.join(chr(c) for c, _ in cps))
    terms = []
    for x in items:
        x = D(vm, x)
        terms.append(to_sym(x) if isinstance(x, (SymStr, BStr)) else (zs(chr(x)) if isinstance(x, int) else char_to_str(x)))
    return SymStr(z3.simplify(z3.Concat(*terms))) if len(terms) > 1 else SymStr(terms[0]) if terms else const_str(vm, '')


def flatten_str_iter(vm, it):
    """if `it` is built only from whole-string char iterators (chars/chain/flatten of repeat), return the list of string
    parts whose concatenation it yields -- lets opaque strings flow through `a.chars().chain(b.chars()).collect()`"""
    if not isinstance(it, It): return None
    if it.kind == 'symchars': return [it.a[0]]
    if it.kind == 'chars' and it.a[1] == 0: return [it.a[0]]
    if it.kind == 'chain':
        l = flatten_str_iter(vm, it.a[0]) if it.a[0] is not None else []
        r = flatten_str_iter(vm, it.a[1]) if it.a[1] is not None else []
        return None if l is None or r is None else l + r
    if it.kind == 'flat_repeat_sym':
        inner = flatten_str_iter(vm, it.a[0])
        if inner is None or len(inner) != 1: return None
        return [str_repeat(to_sym(inner[0]), it.a[1])]
    if it.kind == 'flatten' and isinstance(it.a[0], It) and it.a[0].kind == 'repeat_n' and it.a[1] is None:
        inner = flatten_str_iter(vm, it.a[0].a[0])
        if inner is None: return None
        if it.a[0].a[1] > 64:
            if len(inner) != 1: return None
            return [str_repeat(to_sym(inner[0]), z3.BitVecVal(it.a[0].a[1], 64))]
        return inner * it.a[0].a[1]
    return None


@trait(('Iterator', 'collect'), ('FromIterator', 'from_iter'))
def _(vm, a, ci):
    target = ci.fnargs[0] if ci.method == 'collect' else ci.selfty
    return collect_into(vm, target, a[0])


def collect_into(vm, target, it):
    head, ta = type_head(target)
    if head == 'String': return collect_string(vm, it)
    if head in ('Vec', 'VecDeque', 'SmallVec', 'ArrayVec'): return Adt(head, 0, [HList(drain(vm, into_iter(vm, it)))])
    if head in ('HashMap', 'BTreeMap'):
        from .std_coll import hmap_insert
        hm = HMap([], head == 'BTreeMap', vm.fresh('hm'))
        for kv in drain(vm, into_iter(vm, it)): hmap_insert(vm, hm, ta[0], kv.fields[0], kv.fields[1])
        return hm
    if head in ('HashSet', 'BTreeSet'):
        from .std_coll import hmap_find
        hm = HMap([], head == 'BTreeSet', vm.fresh('hs'))
        for k in drain(vm, into_iter(vm, it)):
            if hmap_find(vm, hm, ta[0] if ta else '', k) is None: hm.entries.append([k, UNIT])
        return hm
    if head in ('Result', 'Option'):
        out = []
        inner = into_iter(vm, it)
        while True:
            r = it_next(vm, inner)
            if r is None: break
            x = conc(vm, r[0])
            if head == 'Result' and x.variant == 1: return x
            if head == 'Option' and x.variant == 0: return x
            out.append(x.fields[0])
        v = collect_into(vm, ta[0], It('list', out, 0))
        return ok(v) if head == 'Result' else some(v)
    if head == 'Box' and ta and ta[0].startswith('['): return vm.new_box(HList(drain(vm, into_iter(vm, it))))
    if head == '()': drain(vm, it); return UNIT
    raise Unmodelled('collect into ' + target)


@trait(('Itertools', 'join'))
def _(vm, a, ci):
    it, sep = a
    items = [D(vm, x) for x in drain(vm, it)]
    sep = D(vm, sep)
    # items are Display: strings here (Rc<String> / &String / &str)
    strs = []
    for x in items:
        if isinstance(x, RcVal): x = x.box.cell.v
        if not isinstance(x, (SymStr, BStr)): raise Unmodelled(f'Itertools::join over {x!r}')
        strs.append(x)
    if all(isinstance(s, BStr) for s in strs + [sep]) and getattr(vm, 'str_mode', 'opaque') == 'bounded':
        cps, ws = [], []
        for i, s in enumerate(strs):
            if i:
                cps += sep.chars(); ws += _widths(sep)
            cps += s.chars(); ws += _widths(s)
        return BStr(Buf(cps, ws))
    terms = []
    for i, s in enumerate(strs):
        if i: terms.append(to_sym(sep))
        terms.append(to_sym(s))
    if not terms: return const_str(vm, '')
    return SymStr(z3.simplify(z3.Concat(*terms))) if len(terms) > 1 else SymStr(terms[0])


def _widths(s):
    b = s.buf; i0 = b.cidx(s.start); return b.widths[i0:i0 + len(s.chars())]


@trait(('Itertools', 'collect_vec'))
def _(vm, a, ci): return Adt('Vec', 0, [HList(drain(vm, a[0]))])


@trait(('Itertools', 'merge'), ('Itertools', 'merge_by'))
def _(vm, a, ci):
    """itertools merge: repeatedly take the smaller head (ties: the left one); eager here (bounded inputs)"""
    from .std import values_cmp
    xs = drain(vm, a[0]); ys = drain(vm, into_iter(vm, a[1]))
    def left_first(x, y):
        if ci.method == 'merge_by': return truth(vm, vm.call_value(a[2], [Ref(Cell(x)), Ref(Cell(y))]))
        c = values_cmp(vm, '', x, y, True); return c is not None and c <= 0
    out, i, j = [], 0, 0
    while i < len(xs) and j < len(ys):
        if left_first(xs[i], ys[j]): out.append(xs[i]); i += 1
        else: out.append(ys[j]); j += 1
    return It('list', out + xs[i:] + ys[j:], 0)


@trait(('Itertools', 'dedup'), ('Itertools', 'dedup_by'), ('Itertools', 'unique'), ('Itertools', 'unique_by'))
def _(vm, a, ci):
    xs = drain(vm, a[0]); out = []; keys = []
    for x in xs:
        if ci.method == 'dedup': dup = bool(out) and truth(vm, values_eq(vm, '', out[-1], x))
        elif ci.method == 'dedup_by': dup = bool(out) and truth(vm, vm.call_value(a[1], [Ref(Cell(out[-1])), Ref(Cell(x))]))
        else:
            k = x if ci.method == 'unique' else vm.call_value(a[1], [Ref(Cell(x))])
            dup = any(truth(vm, values_eq(vm, '', k0, k)) for k0 in keys)
            if not dup: keys.append(k)
        if not dup: out.append(x)
    return It('list', out, 0)


@trait(('Itertools', 'interleave'), ('Itertools', 'intersperse'), ('Itertools', 'tuple_windows'), ('Itertools', 'all_equal'), ('Itertools', 'exactly_one'), ('Itertools', 'at_most_one'))
def _(vm, a, ci):
    m = ci.method
    xs = drain(vm, a[0])
    if m == 'interleave':
        ys = drain(vm, into_iter(vm, a[1])); out = []
        for i in range(max(len(xs), len(ys))):
            if i < len(xs): out.append(xs[i])
            if i < len(ys): out.append(ys[i])
        return It('list', out, 0)
    if m == 'intersperse':
        out = []
        for i, x in enumerate(xs):
            if i: out.append(vm.clone_val(a[1]))
            out.append(x)
        return It('list', out, 0)
    if m == 'tuple_windows':
        k = 2
        mm = re.search(r'\((.*)\)', ci.callee or '')
        return It('list', [tup(*[vm.clone_val(v) for v in xs[i:i + k]]) for i in range(0, max(len(xs) - k + 1, 0))], 0)
    if m == 'all_equal': return all(truth(vm, values_eq(vm, '', xs[0], x)) for x in xs[1:]) if xs else True
    if m == 'exactly_one': return ok(xs[0]) if len(xs) == 1 else err(It('list', xs, 0))
    if m == 'at_most_one': return ok(some(xs[0]) if xs else NONE()) if len(xs) <= 1 else err(It('list', xs, 0))
    raise Unmodelled('Itertools::' + m)


@trait(('Itertools', 'sorted_unstable'), ('Itertools', 'sorted'))
def _(vm, a, ci):
    from .std import values_cmp
    import functools
    items = drain(vm, a[0])
    items.sort(key=functools.cmp_to_key(lambda x, y: values_cmp(vm, '', x, y, False)))
    return It('list', items, 0)


@trait(('Extend', 'extend'))
def _(vm, a, ci):
    tgt = vm.ref_get(a[0])
    items = drain(vm, into_iter(vm, a[1]))
    if isinstance(tgt, Adt) and tgt.ty in ('Vec', 'VecDeque', 'SmallVec', 'ArrayVec'):
        tgt.fields[0].items.extend(items); return UNIT
    if isinstance(tgt, HMap):
        from .std_coll import hmap_insert
        kt = tyarg(ci)
        for kv in items: hmap_insert(vm, tgt, kt, kv.fields[0], kv.fields[1])
        return UNIT
    if isinstance(tgt, (SymStr, BStr)):
        from .std_str import str_concat
        cur = tgt
        for x in items:
            x = D(vm, x)
            cur = str_concat(vm, cur, x if isinstance(x, (SymStr, BStr)) else const_str(vm, chr(x)))
        vm.ref_set(a[0], cur); return UNIT
    raise Unmodelled(f'extend on {tgt!r}')


@trait(('Itertools', 'sorted_by_key'), ('Itertools', 'sorted_unstable_by_key'), ('Itertools', 'sorted_by_cached_key'))
def _(vm, a, ci):
    from .std import values_cmp
    from .std_coll import stable_sort
    items = drain(vm, a[0])
    keyed = [(vm.call_value(a[1], [Ref(Cell(x))]), x) for x in items]
    kt = ci.fnargs[0] if ci.fnargs else ''
    out = stable_sort(vm, keyed, lambda p, q: values_cmp(vm, kt, p[0], q[0], False))
    return It('list', [x for _, x in out], 0)


@trait(('Itertools', 'sorted_by'), ('Itertools', 'sorted_unstable_by'))
def _(vm, a, ci):
    from .std_coll import stable_sort
    items = drain(vm, a[0])
    out = stable_sort(vm, items, lambda p, q: conc(vm, vm.call_value(a[1], [Ref(Cell(p)), Ref(Cell(q))])).variant - 1)
    return It('list', out, 0)
