"""Reference interpreter for the Rockstar subset used by the program-level harnesses (C04, C05, C08, C09, C15).
It walks the *same* parsed AST value the real interpreter executes (VM Adts, read by variant / field name), keeps its own
scope stack, and evaluates operators with the reference coercion table of C03.  Symbolic payloads flow through as z3 terms;
wherever it needs a decision it calls vm.branch, which shares the path's decisions with the real run."""
import z3
from .values import *
from .strings import *
from .std import conc
from .props import C03
from .props.C03 import V, U, N, B, NUM, S, A


class RErr(Exception):
    def __init__(self, cls, detail=''): Exception.__init__(self, f'{cls} {detail}'); self.cls = cls


class Crash(Exception):
    """the reference semantics has no defined behaviour here (an expected crash site of the real code)"""


class Arr:
    def __init__(self, seq=None, dic=None): self.seq, self.dic = (seq or []), (dic or [])     # dic: [[key V, value V]]

    def __getitem__(self, i):
        if i == 0: return len(self.seq)
        raise IndexError

    def copy(self): return Arr([copy_v(x) for x in self.seq], [[k, copy_v(v)] for k, v in self.dic])


def copy_v(v): return V(A, v.p.copy()) if v.kind == A else V(v.kind, v.p)


UNDEF = lambda: V(U)


class Names:
    def __init__(self, mir): self.e = mir.src.enums; self.s = mir.src.structs

    def variant(self, adt): return self.e[adt.ty][adt.variant]

    def field(self, adt, name): return adt.fields[self.s[adt.ty].index(name)]


class RefInterp:
    def __init__(self, vm, mir, stdin_lines=(), out_fail_at=None, in_fail_at=None, max_iter=None):
        self.vm, self.mir, self.nm = vm, mir, Names(mir)
        self.scopes = [{}]
        self.last = None
        self.out = []            # texts written (z3 String terms)
        self.out_calls = 0; self.in_calls = 0; self.events = []
        self.stdin = list(stdin_lines); self.in_pos = 0
        self.out_fail_at, self.in_fail_at = out_fail_at, in_fail_at
        self.max_iter = max_iter
        self.hooks = {}          # id(expression Adt) -> callable() -> V   (stubbed conditions)

    # ---- AST access
    def deref(self, v):
        vm = self.vm
        for _ in range(6):
            if isinstance(v, Ref): v = vm.ref_get(v)
            elif isinstance(v, RcVal): v = v.box.cell.v
            elif isinstance(v, Adt) and v.ty == 'Box': v = vm.ref_get(vm.box_ptr(v))
            else: break
        return v

    def f(self, adt, name): return self.deref(self.nm.field(self.deref(adt), name))

    def var(self, adt): return self.nm.variant(self.deref(adt))

    def items(self, vec): return [self.deref(x) for x in self.deref(vec).fields[0].items]

    def opt(self, o):
        o = self.deref(o); return None if o.variant == 0 else self.deref(o.fields[0])

    def key(self, vn):
        vn = self.deref(vn); kind = self.var(vn); inner = self.deref(vn.fields[0])
        def w(s):
            from .std_str import S as STR_, _bounded
            t = _bounded(self.vm, STR_(self.vm, s)).concrete()
            if t is None: raise Unmodelled('reference interpreter: symbolic identifier text')
            return lower_rust(t)
        if kind == 'Simple': words = (w(inner.fields[0]),)
        elif kind == 'Common': words = (w(inner.fields[0]), w(inner.fields[1]))
        else: words = tuple(w(x) for x in self.items(inner.fields[0]))
        return (kind, words)

    # ---- environment
    def lookup_var(self, key, set_last=True):
        if set_last: self.last = key
        for sc in reversed(self.scopes):
            if key in sc:
                e = sc[key]
                if e[0] == 'var': return e
                raise RErr('EnvironmentError', 'ExpectedVarFoundFunc')
        raise RErr('EnvironmentError', 'NameNotFound')

    def lookup_or_create(self, key):
        try: return self.lookup_var(key)
        except RErr:
            self.last = key
            sc = self.scopes[-1]
            if key in sc: raise RErr('EnvironmentError', 'DuplicateSymbol')
            sc[key] = ['var', UNDEF()]; return sc[key]

    def lookup_func(self, key):
        for sc in reversed(self.scopes):
            if key in sc:
                e = sc[key]
                if e[0] == 'func': return e[1]
                raise RErr('EnvironmentError', 'ExpectedFuncFoundVar')
        raise RErr('EnvironmentError', 'NameNotFound')

    def last_access(self):
        if self.last is None: raise RErr('EnvironmentError', 'MissingPronounReferent')
        return self.lookup_var(self.last, set_last=False)

    def pop_scope(self):
        if len(self.scopes) <= 1: raise Crash('pop_scope on the outermost scope')
        self.scopes.pop(); self.last = None

    # ---- values
    def truthy(self, v):
        t = C03.ref_truthy(v)
        return t if isinstance(t, bool) else self.vm.branch(t)

    def text(self, v):
        return C03.text_of(self.vm, C03.decay(v))

    def index(self, arr, key):
        if arr.kind == S:
            if key.kind != NUM: raise RErr('ValError', 'InvalidKey')
            raise Unmodelled('reference interpreter: indexing into a string')
        if arr.kind != A: raise RErr('ValError', 'NotIndexable')
        if key.kind == A: raise RErr('ValError', 'InvalidKey')
        if key.kind == NUM:
            i = self.usize(key.p)
            return copy_v(arr.p.seq[i]) if i < len(arr.p.seq) else UNDEF()
        for k, v in arr.p.dic:
            if self.key_eq(k, key): return copy_v(v)
        return UNDEF()

    def usize(self, x):
        if isinstance(x, float):
            if x != x or x <= 0: return 0
            return int(min(x, 2.0 ** 64 - 1))
        c = self.vm.cast(x, 'usize', 'FloatToInt', 'f64')
        return self.vm.concretize(c) if not isinstance(c, int) else c

    def key_eq(self, a, b):
        if a.kind != b.kind: return False
        if a.kind in (U, N): return True
        e = (C03.Bt(a.p) == C03.Bt(b.p)) if a.kind == B else (C03.Sv(a.p) == C03.Sv(b.p))
        e = z3.simplify(e)
        return True if z3.is_true(e) else False if z3.is_false(e) else self.vm.branch(e)

    def index_or_insert(self, box, key):
        """returns a setter/getter pair on the slot (box = ['var', V] style holder list [.., V] at index 1)"""
        v = box[1]
        if v.kind == U: v = box[1] = V(A, Arr())
        if v.kind == S: raise RErr('ValError', 'IndexNotAssignable')
        if v.kind != A: raise RErr('ValError', 'NotIndexable')
        if key.kind == A: raise RErr('ValError', 'InvalidKey')
        arr = v.p
        if key.kind == NUM:
            i = self.usize(key.p)
            if i >= (1 << 59): raise RErr('ValError', 'InvalidKey')
            if i > 4096: raise Unmodelled('reference interpreter: huge index')
            while len(arr.seq) <= i: arr.seq.append(UNDEF())
            return SlotSeq(arr, i)
        for e in arr.dic:
            if self.key_eq(e[0], key): return SlotDic(e)
        e = [V(key.kind, key.p), UNDEF()]; arr.dic.append(e); return SlotDic(e)

    # ---- expressions
    def eval(self, e):
        e = self.deref(e)
        h = self.hooks.get(id(e))
        if h is not None: return h()
        v = self.var(e)
        if v == 'PrimaryExpression': return self.primary(e.fields[0])
        if v == 'UnaryExpression':
            u = self.deref(e.fields[0]); x = self.eval(self.f(u, 'operand')); op = self.var(self.f(u, 'operator'))
            if op == 'Minus':
                if x.kind != NUM: raise RErr('ValError', 'InvalidOperationForType')
                return V(NUM, -x.p if isinstance(x.p, float) else z3.fpNeg(x.p))
            t = C03.ref_truthy(x)
            return V(B, (not t) if isinstance(t, bool) else z3.Not(t))
        b = self.deref(e.fields[0]); lhs = self.eval(self.f(b, 'lhs')); op = self.var(self.f(b, 'operator'))
        el = self.f(b, 'rhs')
        rhs = [self.f(el, 'first')] + self.items(self.nm.field(el, 'rest'))
        return self.fold(op, lhs, rhs)

    def fold(self, op, acc, rhs_exprs):
        for r in rhs_exprs:
            res = C03.ref_binop(self.vm, op, acc, lambda r=r: self.eval(r))
            if res[0] == 'err': raise RErr('ValError', 'InvalidComparison')
            if res[1] is None: raise Unmodelled('reference interpreter: array == array')
            acc = res[1]
        return acc

    def primary(self, p):
        p = self.deref(p); v = self.var(p); c = self.deref(p.fields[0])
        if v == 'Literal':
            lit = self.deref(c.fields[0]); k = self.var(lit)
            if k == 'Mysterious': return V(U)
            if k == 'Null': return V(N)
            if k == 'Boolean': return V(B, lit.fields[0])
            if k == 'Number': return V(NUM, lit.fields[0])
            return V(S, to_sym(self.strval(lit.fields[0])))
        if v == 'Identifier': return self.read_identifier(c)
        if v == 'ArraySubscript':
            arr = self.primary(self.f(c, 'array')); sub = self.primary(self.f(c, 'subscript'))
            return self.index(arr, sub)
        if v == 'FunctionCall': return self.call(c)
        # ArrayPop
        back = []
        self.write_primary(self.f(c, 'array'), lambda slot: back.append(self.pop(slot)))
        return back[0]

    def strval(self, s):
        from .std_str import S as STR_
        return STR_(self.vm, s)

    def read_identifier(self, w):
        i = self.deref(self.deref(w).fields[0])
        if self.var(i) == 'Pronoun': return copy_v(self.last_access()[1])
        return copy_v(self.lookup_var(self.key(i.fields[0]))[1])

    def pop(self, slot):
        v = slot.get()
        if v.kind != A: raise RErr('ValError', 'InvalidOperationForType')
        return v.p.seq.pop(0) if v.p.seq else UNDEF()

    def call(self, fc):
        data = self.lookup_func(self.key(self.deref(self.f(fc, 'name')).fields[0]))
        params = self.items(self.nm.field(self.deref(data), 'params')); args = self.items(self.nm.field(self.deref(fc), 'args'))
        if len(params) != len(args): raise RErr('ProduceValError', 'WrongNumberOfFunctionArguments')
        vals = [self.eval(a) for a in args]
        table = {}
        for p, v in zip(params, vals):
            k = self.key(self.deref(p).fields[0])
            if k in table: raise RErr('EnvironmentError', 'DuplicateFunctionArgName')
            table[k] = ['var', v]
        self.scopes.append(table)
        ex = Exec(self)
        ex.block(self.f(data, 'body'))
        self.pop_scope()
        return ex.ret if ex.ret is not None else UNDEF()

    # ---- writes
    def write_lhs(self, lhs, fn):
        lhs = self.deref(lhs)
        if self.var(lhs) == 'Identifier': return self.write_identifier(lhs.fields[0], fn)
        return self.write_subscript(lhs.fields[0], fn)

    def write_identifier(self, w, fn):
        i = self.deref(self.deref(w).fields[0])
        box = self.last_access() if self.var(i) == 'Pronoun' else self.lookup_or_create(self.key(i.fields[0]))
        fn(SlotBox(box))

    def write_primary(self, p, fn):
        p = self.deref(p); v = self.var(p)
        if v == 'Identifier': return self.write_identifier(p.fields[0], fn)
        if v == 'ArraySubscript': return self.write_subscript(p.fields[0], fn)
        if v == 'Literal': raise RErr('WriteValError', 'ValueNotWritable')
        raise Unmodelled('reference interpreter: write through a call / pop expression')

    def write_subscript(self, a, fn):
        a = self.deref(a)
        subs = [self.primary(self.f(a, 'subscript'))]
        arr = self.f(a, 'array')
        while True:
            v = self.var(arr)
            if v == 'Identifier':
                i = self.deref(self.deref(arr.fields[0]).fields[0])
                box = self.last_access() if self.var(i) == 'Pronoun' else self.lookup_or_create(self.key(i.fields[0]))
                slot = SlotBox(box)
                while subs:
                    holder = [None, slot.get()]
                    s2 = self.index_or_insert(holder, subs.pop())
                    if holder[1] is not slot.get(): slot.set(holder[1])
                    slot = s2
                fn(slot); return
            if v == 'ArraySubscript':
                a2 = self.deref(arr.fields[0]); subs.append(self.primary(self.f(a2, 'subscript'))); arr = self.f(a2, 'array')
            else: raise RErr('WriteValError', 'ValueNotWritable')

    # ---- i/o
    def output(self, text):
        k = self.out_calls; self.out_calls += 1; self.events.append('out')
        if self.out_fail_at is not None and k >= self.out_fail_at: raise RErr('EnvironmentError', 'IOError')
        self.out.append(z3.Concat(text, zs('\n')))

    def input(self):
        k = self.in_calls; self.in_calls += 1; self.events.append('in')
        if self.in_fail_at is not None and k >= self.in_fail_at: raise RErr('EnvironmentError', 'IOError')
        if self.in_pos >= len(self.stdin): return zs('')
        line, has_nl = self.stdin[self.in_pos]; self.in_pos += 1
        return line          # stored without its terminator (the harness passes (text, terminated?))


class SlotBox:
    def __init__(self, box): self.box = box
    def get(self): return self.box[1]
    def set(self, v): self.box[1] = v


class SlotSeq:
    def __init__(self, arr, i): self.arr, self.i = arr, i
    def get(self): return self.arr.seq[self.i]
    def set(self, v): self.arr.seq[self.i] = v


class SlotDic:
    def __init__(self, e): self.e = e
    def get(self): return self.e[1]
    def set(self, v): self.e[1] = v


class Exec:
    """one ExecStmt: control-flow state + pending return value"""
    def __init__(self, ri): self.ri = ri; self.state = 'Normal'; self.ret = None

    def program(self, prog):
        ri = self.ri
        for b in ri.items(ri.nm.field(ri.deref(prog), 'code')):
            self.block(b)
            if self.state != 'Normal': break          # an exit that reaches the top level ends the program

    def block(self, b):
        ri = self.ri; b = ri.deref(b)
        if ri.var(b) == 'Empty': return
        for s in ri.items(b.fields[0]):
            self.statement(s)
            if self.state != 'Normal': break

    def statement(self, s):
        ri = self.ri; s = ri.deref(s); k = ri.var(s); p = ri.deref(s.fields[0])
        getattr(self, 's_' + k)(p)

    def assign(self, dest, val):
        self.ri.write_lhs(dest, lambda slot: slot.set(copy_v(val)))

    def s_Assignment(self, a):
        ri = self.ri
        el = ri.deref(ri.f(a, 'value').fields[0]); first = ri.f(el, 'first'); rest = ri.items(ri.nm.field(el, 'rest'))
        op = ri.opt(ri.nm.field(a, 'operator')); dest = ri.f(a, 'dest')
        if op is not None:
            d = ri.deref(dest)
            lhs = ri.read_identifier(d.fields[0]) if ri.var(d) == 'Identifier' else ri.index(ri.primary(ri.f(d.fields[0], 'array')), ri.primary(ri.f(d.fields[0], 'subscript')))
            val = ri.fold(ri.var(op), lhs, [first] + rest)
        elif rest: raise RErr('ExecError', 'NonCompoundAssignmentExpressionListInvalid')
        else: val = ri.eval(first)
        self.assign(dest, val)

    def s_PoeticAssignment(self, p):
        ri = self.ri; a = ri.deref(p.fields[0])
        if ri.var(p) == 'Number':
            r = ri.f(a, 'rhs')
            if ri.var(r) == 'Expression': val = ri.eval(r.fields[0])
            else: val = V(NUM, self.poetic(r.fields[0]))
            self.assign(ri.f(a, 'dest'), val)
        else:
            self.assign(ri.f(a, 'dest'), V(S, to_sym(ri.strval(ri.nm.field(a, 'rhs')))))

    def poetic(self, lit):
        ri = self.ri
        from .props.C11 import reference_value
        ej = []
        for e in ri.items(ri.nm.field(ri.deref(lit), 'elems')):
            k = ri.var(e)
            if k == 'Dot': ej.append(['d'])
            else:
                from .std_str import _bounded
                ej.append(['w' if k == 'Word' else 's', _bounded(ri.vm, ri.strval(e.fields[0])).concrete()])
        v = reference_value(ej)
        if v is None: raise Crash('ill-formed poetic literal')
        return v

    def s_If(self, i):
        ri = self.ri
        c = ri.truthy(ri.eval(ri.f(i, 'condition')))
        ri.scopes.append({})
        if c: self.block(ri.f(i, 'then_block'))
        else:
            e = ri.opt(ri.nm.field(i, 'else_block'))
            if e is not None: self.block(e)
        ri.pop_scope()

    def loop(self, w, invert):
        ri = self.ri; n = 0
        while invert != ri.truthy(ri.eval(ri.f(w, 'condition'))):
            n += 1
            if ri.max_iter is not None and n > ri.max_iter: raise Unmodelled('reference interpreter: loop bound exceeded')
            ri.scopes.append({}); self.block(ri.f(w, 'block')); ri.pop_scope()
            if self.state == 'Continuing': self.state = 'Normal'
            elif self.state == 'Breaking': self.state = 'Normal'; break
            elif self.state == 'Returning': break

    def s_While(self, w): self.loop(w, False)
    def s_Until(self, w): self.loop(w, True)

    def incdec(self, x, sign):
        ri = self.ri
        amt = ri.nm.field(x, 'amount')
        def do(slot):
            v = slot.get()
            if v.kind == N: v = V(NUM, 0.0)
            if v.kind == B:
                if isinstance(amt, int): odd = amt % 2 != 0
                else: odd = ri.vm.branch(z3.URem(amt, 2) != 0)
                slot.set(V(B, (z3.Not(C03.Bt(v.p)) if not isinstance(v.p, bool) else (not v.p)) if odd else v.p))
            elif v.kind == NUM:
                a = float(amt) if isinstance(amt, int) else z3.fpSignedToFP(RNE, amt, F64)
                slot.set(V(NUM, ri.vm.fbinop('Add' if sign > 0 else 'Sub', v.p, a)))
            else: raise RErr('ValError', 'InvalidOperationForType')
        ri.write_identifier(ri.nm.field(x, 'dest'), do)

    def s_Inc(self, i): self.incdec(i, 1)
    def s_Dec(self, d): self.incdec(d, -1)

    def s_Input(self, i):
        ri = self.ri
        text = ri.input()
        d = ri.f(i, 'dest')
        if ri.var(d) == 'Some': self.assign(d.fields[0], V(S, text))

    def s_Output(self, o):
        ri = self.ri
        v = ri.eval(ri.f(o, 'value'))
        ri.output(ri.text(v))

    def s_Continue(self, c):
        if self.state != 'Normal': raise Crash('continue while a control-flow exit is pending')
        self.state = 'Continuing'

    def s_Break(self, c):
        if self.state != 'Normal': raise Crash('break while a control-flow exit is pending')
        self.state = 'Breaking'

    def s_Return(self, r):
        if self.ret is not None or self.state != 'Normal': raise Crash('return while a return is pending')
        self.ret = self.ri.eval(self.ri.f(r, 'value')); self.state = 'Returning'

    def s_Function(self, f):
        ri = self.ri
        k = ri.key(ri.deref(ri.f(f, 'name')).fields[0])
        sc = ri.scopes[-1]
        if k in sc: raise RErr('EnvironmentError', 'DuplicateSymbol')
        sc[k] = ['func', ri.f(f, 'data')]

    def s_FunctionCall(self, f): self.ri.call(f)

    def s_ArrayPush(self, a):
        ri = self.ri
        v = ri.opt(ri.nm.field(a, 'value')); vals = []
        if v is not None:
            if ri.var(v) == 'ExpressionList':
                el = ri.deref(v.fields[0])
                for e in [ri.f(el, 'first')] + ri.items(ri.nm.field(el, 'rest')): vals.append(ri.eval(e))
            else: vals.append(V(NUM, self.poetic(v.fields[0])))
        def do(slot):
            cur = slot.get()
            if cur.kind != A: cur = V(A, Arr([] if cur.kind == U else [cur])); slot.set(cur)
            items = [copy_v(x) for x in vals]          # all list items are values taken before the array changes (an item may mention the target)
            cur.p.seq.extend(items)
        ri.write_primary(ri.f(a, 'array'), do)

    def s_ArrayPop(self, a):
        ri = self.ri
        back = []
        ri.write_primary(ri.f(ri.f(a, 'expr'), 'array'), lambda slot: back.append(ri.pop(slot)))
        d = ri.opt(ri.nm.field(a, 'dest'))
        if d is not None: self.assign(d, back[0])

    def s_Rounding(self, r):
        ri = self.ri
        d = ri.var(ri.f(r, 'direction')); e = ri.f(r, 'operand')
        if ri.var(e) != 'PrimaryExpression': raise Unmodelled('reference interpreter: rounding a compound expression')
        def do(slot):
            v = slot.get()
            if v.kind != NUM: raise RErr('ValError', 'InvalidOperationForType')
            x = v.p
            mode = {'Up': z3.RTP(), 'Down': z3.RTN(), 'Nearest': z3.RNA()}[d]
            slot.set(V(NUM, z3.fpRoundToIntegral(mode, ri.vm.fp(x))))
        ri.write_primary(e.fields[0], do)

    def s_Mutation(self, m):
        raise Unmodelled('reference interpreter: cut / join / cast statements (kernel level: C07)')


def lower_rust(s):
    from . import chartab
    out = []
    for ch in s:
        if ord(ch) < 128: out.append(ch.lower())
        else:
            t = chartab.table().get(ord(ch))
            if t is None: raise Unmodelled(f'reference interpreter: case mapping of U+{ord(ch):04X}')
            out.append(''.join(chr(c) for c in t['lower']))
    return ''.join(out)
