"""Trusted std models (DESIGN.md §2.4): registry + core (Option/Result/Cow/Rc/Box/mem/cmp/Clone/Default/convert)."""
import re, math
import z3
from .mir import type_head, split_top, canon
from .values import *
from .strings import *


class Models:
    def __init__(self):
        self.path = {}        # shape -> fn
        self.trait = {}       # (self head | '*', trait, method) -> fn
        self.path_rx = []

    def lookup_path(self, ci):
        f = self.path.get(ci.shape)
        if f is not None: return f, ci.shape
        for rx, fn in self.path_rx:
            if rx.fullmatch(ci.shape): return fn, ci.shape
        return None

    def lookup_trait(self, ci):
        head = type_head(ci.selfty)[0] if ci.selfty else '*'
        for k in ((head, ci.trait, ci.method), ('*', ci.trait, ci.method)):
            f = self.trait.get(k)
            if f is not None: return f, f'<{k[0]} as {ci.trait}>::{ci.method}'
        return None


MODELS = Models()


def path(*shapes):
    def deco(fn):
        for s in shapes: MODELS.path[s] = fn
        return fn
    return deco


def path_rx(rx):
    def deco(fn):
        MODELS.path_rx.append((re.compile(rx), fn)); return fn
    return deco


def trait(*keys):
    def deco(fn):
        for k in keys:
            if len(k) == 2: k = ('*',) + tuple(k)
            MODELS.trait[tuple(k)] = fn
        return fn
    return deco


def install(vm):
    vm.models = MODELS
    from . import std_iter, std_coll, std_str, std_fmt, std_io   # noqa: F401  (register their models)


# ------------------------------------------------------------------ helpers
def some(v): return Adt('Option', 1, [v])


NONE = lambda: Adt('Option', 0, [])
def ok(v): return Adt('Result', 0, [v])
def err(v): return Adt('Result', 1, [v])


def D(vm, v):
    """auto-deref references"""
    while isinstance(v, Ref): v = vm.ref_get(v)
    return v


def D1(vm, v):
    return vm.ref_get(v) if isinstance(v, Ref) else v


def conc(vm, v):
    """force the variant of a possibly symbolic enum value (forks)"""
    if isinstance(v, SymEnum):
        d = z3.simplify(v.disc)
        if z3.is_bv_value(d): return v.alt(d.as_long())
        dom = vm.domains.get(v.disc.get_id())
        cand = sorted(dom) if dom is not None else list(range(v.nvar))
        k = cand[0] if len(cand) == 1 else cand[vm.choose([v.disc == i for i in cand])]
        vm.domains[v.disc.get_id()] = {k}
        return v.alt(k)
    return v


def call_trait(vm, ty, tr, meth, args, targs=''):
    return vm.call(f'<{ty} as {tr}{targs}>::{meth}', args, None, None, subst={})


def tyarg(ci, i=0):
    """i-th generic argument of the call's self type"""
    if ci.selfty is None: return ''
    a = type_head(ci.selfty)[1]
    return a[i] if i < len(a) else ''


def truth(vm, b):
    """branch on a bool-like"""
    return vm.branch(b)


# ------------------------------------------------------------------ Option
@path('Option::map')
def _(vm, a, ci):
    o = conc(vm, a[0])
    return some(vm.call_value(a[1], [o.fields[0]])) if o.variant == 1 else NONE()


@path('Option::and_then')
def _(vm, a, ci):
    o = conc(vm, a[0])
    return vm.call_value(a[1], [o.fields[0]]) if o.variant == 1 else NONE()


@path('Option::or_else')
def _(vm, a, ci):
    o = conc(vm, a[0])
    return o if o.variant == 1 else vm.call_value(a[1], [])


@path('Option::or')
def _(vm, a, ci):
    o = conc(vm, a[0])
    if o.variant == 1: vm.drop_val(a[1]); return o
    return a[1]


@path('Option::unwrap_or')
def _(vm, a, ci):
    o = conc(vm, a[0])
    if o.variant == 1: vm.drop_val(a[1]); return o.fields[0]
    return a[1]


@path('Option::unwrap_or_else')
def _(vm, a, ci):
    o = conc(vm, a[0])
    return o.fields[0] if o.variant == 1 else vm.call_value(a[1], [])


@path('Option::unwrap_or_default')
def _(vm, a, ci):
    o = conc(vm, a[0])
    return o.fields[0] if o.variant == 1 else call_trait(vm, tyarg(ci), 'Default', 'default', [])


@path('Option::map_or')
def _(vm, a, ci):
    o = conc(vm, a[0])
    if o.variant == 1: return vm.call_value(a[2], [o.fields[0]])
    return a[1]


@path('Option::map_or_else')
def _(vm, a, ci):
    o = conc(vm, a[0])
    return vm.call_value(a[2], [o.fields[0]]) if o.variant == 1 else vm.call_value(a[1], [])


@path('Option::ok_or_else')
def _(vm, a, ci):
    o = conc(vm, a[0])
    return ok(o.fields[0]) if o.variant == 1 else err(vm.call_value(a[1], []))


@path('Option::ok_or')
def _(vm, a, ci):
    o = conc(vm, a[0])
    if o.variant == 1: vm.drop_val(a[1]); return ok(o.fields[0])
    return err(a[1])


@path('Option::filter')
def _(vm, a, ci):
    o = conc(vm, a[0])
    if o.variant == 0: return o
    if truth(vm, vm.call_value(a[1], [Ref(Cell(o), (0,))])): return o
    vm.drop_val(o); return NONE()


@path('Option::is_some', 'Option::is_none')
def _(vm, a, ci):
    o = conc(vm, D1(vm, a[0]))
    return (o.variant == 1) == ci.method.endswith('some')


@path('Option::is_some_and')
def _(vm, a, ci):
    o = conc(vm, a[0])
    return o.variant == 1 and truth(vm, vm.call_value(a[1], [o.fields[0]]))


@path('Option::unwrap', 'Option::expect')
def _(vm, a, ci):
    o = conc(vm, a[0])
    if o.variant == 0: raise PanicEdge('panic', f'Option::{ci.method} on None')
    return o.fields[0]


@path('Option::unwrap_unchecked')
def _(vm, a, ci):
    o = conc(vm, a[0])
    if o.variant == 0: raise PanicEdge('ub', 'Option::unwrap_unchecked on None')
    return o.fields[0]


@path('Option::as_ref', 'Option::as_mut')
def _(vm, a, ci):
    r = a[0]; o = vm.ref_get(r)
    if isinstance(o, SymEnum):
        o2 = conc(vm, o)
        return some(Ref(r.cell, r.path + (('as', 1), 0))) if o2.variant == 1 else NONE()
    return some(Ref(r.cell, r.path + (0,))) if o.variant == 1 else NONE()


@path('Option::as_deref')
def _(vm, a, ci):
    r = a[0]; o = conc(vm, vm.ref_get(r))
    if o.variant == 0: return NONE()
    inner = o.fields[0]
    return some(deref_value(vm, Ref(r.cell, r.path + (0,)), inner))


@path('Option::take')
def _(vm, a, ci):
    o = vm.ref_get(a[0]); vm.ref_set(a[0], NONE()); return o


@path('Option::replace')
def _(vm, a, ci):
    o = vm.ref_get(a[0]); vm.ref_set(a[0], some(a[1])); return o


@path('Option::insert', 'Option::get_or_insert_with')
def _(vm, a, ci):
    r = a[0]; o = conc(vm, vm.ref_get(r))
    if ci.method == 'insert' or o.variant == 0:
        v = a[1] if ci.method == 'insert' else vm.call_value(a[1], [])
        vm.ref_set(r, some(v))
    return Ref(r.cell, r.path + (0,))


@path('Option::ok')
def _(vm, a, ci): return a[0]


@path('Option::transpose')
def _(vm, a, ci):
    o = conc(vm, a[0])
    if o.variant == 0: return ok(NONE())
    r = conc(vm, o.fields[0])
    return ok(some(r.fields[0])) if r.variant == 0 else err(r.fields[0])


@path('Option::cloned', 'Option::copied')
def _(vm, a, ci):
    o = conc(vm, a[0])
    if o.variant == 0: return o
    ty = tyarg(ci)
    inner = ty[1:] if ty.startswith('&') else ty
    if inner.startswith('mut '): inner = inner[4:]
    return some(clone_of(vm, inner, o.fields[0]))


@path('Option::zip')
def _(vm, a, ci):
    x, y = conc(vm, a[0]), conc(vm, a[1])
    return some(tup(x.fields[0], y.fields[0])) if x.variant == 1 and y.variant == 1 else NONE()


@path('Option::xor')
def _(vm, a, ci):
    x, y = conc(vm, a[0]), conc(vm, a[1])
    if x.variant == 1 and y.variant == 0: return x
    if x.variant == 0 and y.variant == 1: return y
    return NONE()


@path('Option::and')
def _(vm, a, ci):
    x = conc(vm, a[0])
    return a[1] if x.variant == 1 else NONE()


@path('Option::iter', 'Option::into_iter')
def _(vm, a, ci):
    o = conc(vm, D1(vm, a[0])) if ci.method == 'iter' else conc(vm, a[0])
    if o.variant == 0: return It('list', [], 0)
    return It('list', [Ref(a[0].cell, a[0].path + (0,)) if ci.method == 'iter' else o.fields[0]], 0)


# ------------------------------------------------------------------ Result
@path('Result::map')
def _(vm, a, ci):
    r = conc(vm, a[0])
    return ok(vm.call_value(a[1], [r.fields[0]])) if r.variant == 0 else r


@path('Result::map_err')
def _(vm, a, ci):
    r = conc(vm, a[0])
    return err(vm.call_value(a[1], [r.fields[0]])) if r.variant == 1 else r


@path('Result::and')
def _(vm, a, ci):
    r = conc(vm, a[0])
    return a[1] if r.variant == 0 else r


@path('Result::or')
def _(vm, a, ci):
    r = conc(vm, a[0])
    return a[1] if r.variant == 1 else r


@path('Result::map_or')
def _(vm, a, ci):
    r = conc(vm, a[0])
    return vm.call_value(a[2], [r.fields[0]]) if r.variant == 0 else a[1]


@path('Result::map_or_else')
def _(vm, a, ci):
    r = conc(vm, a[0])
    return vm.call_value(a[2], [r.fields[0]]) if r.variant == 0 else vm.call_value(a[1], [r.fields[0]])


@path('Result::is_ok_and', 'Result::is_err_and')
def _(vm, a, ci):
    r = conc(vm, a[0]); want = 0 if ci.method == 'is_ok_and' else 1
    return vm.call_value(a[1], [r.fields[0]]) if r.variant == want else False


@path('Result::inspect', 'Result::inspect_err', 'Option::inspect')
def _(vm, a, ci):
    r = conc(vm, a[0])
    hit = (r.variant == 1) if (ci.method == 'inspect_err' or (ci.selfty or '').startswith('Option')) else (r.variant == 0)
    if hit: vm.call_value(a[1], [Ref(Cell(r.fields[0]))])
    return r


@path('Option::is_none_or')
def _(vm, a, ci):
    o = conc(vm, a[0])
    return True if o.variant == 0 else vm.call_value(a[1], [o.fields[0]])


@path('Result::and_then')
def _(vm, a, ci):
    r = conc(vm, a[0])
    return vm.call_value(a[1], [r.fields[0]]) if r.variant == 0 else r


@path('Result::or_else')
def _(vm, a, ci):
    r = conc(vm, a[0])
    return vm.call_value(a[1], [r.fields[0]]) if r.variant == 1 else r


@path('Result::ok')
def _(vm, a, ci):
    r = conc(vm, a[0])
    if r.variant == 0: return some(r.fields[0])
    vm.drop_val(r.fields[0]); return NONE()


@path('Result::err')
def _(vm, a, ci):
    r = conc(vm, a[0])
    if r.variant == 1: return some(r.fields[0])
    vm.drop_val(r.fields[0]); return NONE()


@path('Result::is_ok', 'Result::is_err')
def _(vm, a, ci):
    r = conc(vm, D1(vm, a[0]))
    return (r.variant == 0) == (ci.method == 'is_ok')


@path('Result::unwrap', 'Result::expect')
def _(vm, a, ci):
    r = conc(vm, a[0])
    if r.variant == 1: raise PanicEdge('panic', f'Result::{ci.method} on Err')
    return r.fields[0]


@path('Result::unwrap_err', 'Result::expect_err')
def _(vm, a, ci):
    r = conc(vm, a[0])
    if r.variant == 0: raise PanicEdge('panic', f'Result::{ci.method} on Ok')
    return r.fields[0]


@path('Result::unwrap_or')
def _(vm, a, ci):
    r = conc(vm, a[0])
    return r.fields[0] if r.variant == 0 else a[1]


@path('Result::unwrap_or_else')
def _(vm, a, ci):
    r = conc(vm, a[0])
    return r.fields[0] if r.variant == 0 else vm.call_value(a[1], [r.fields[0]])


@path('Result::unwrap_or_default')
def _(vm, a, ci):
    r = conc(vm, a[0])
    return r.fields[0] if r.variant == 0 else call_trait(vm, tyarg(ci), 'Default', 'default', [])


@path('Result::as_ref', 'Result::as_mut')
def _(vm, a, ci):
    r = a[0]; o = conc(vm, vm.ref_get(r))
    sub = (('as', o.variant), 0) if isinstance(vm.ref_get(r), SymEnum) else (0,)
    return Adt('Result', o.variant, [Ref(r.cell, r.path + sub)])


@path('Result::transpose')
def _(vm, a, ci):
    r = conc(vm, a[0])
    if r.variant == 1: return some(err(r.fields[0]))
    o = conc(vm, r.fields[0])
    return some(ok(o.fields[0])) if o.variant == 1 else NONE()


@path('Result::unwrap_unchecked')
def _(vm, a, ci):
    r = conc(vm, a[0])
    if r.variant == 1: raise PanicEdge('ub', 'Result::unwrap_unchecked on Err')
    return r.fields[0]


# unchecked_unwrap crate: debug build panics, release build is UB.  Both are crash edges for the totality checks.
@trait(('Option', 'UncheckedUnwrap', 'unchecked_unwrap'), ('Option', 'UncheckedUnwrap', 'unchecked_expect'))
def _(vm, a, ci):
    o = conc(vm, a[0])
    if o.variant == 0: raise PanicEdge('ub', 'unchecked_unwrap on None (debug: panic, release: UB)')
    return o.fields[0]


@trait(('Result', 'UncheckedUnwrap', 'unchecked_unwrap'), ('Result', 'UncheckedUnwrap', 'unchecked_expect'))
def _(vm, a, ci):
    r = conc(vm, a[0])
    if r.variant == 1: raise PanicEdge('ub', 'unchecked_unwrap on Err (debug: panic, release: UB)')
    return r.fields[0]


# ------------------------------------------------------------------ Try / ControlFlow
@trait(('Result', 'Try', 'branch'))
def _(vm, a, ci):
    r = conc(vm, a[0])
    return Adt('ControlFlow', 0, [r.fields[0]]) if r.variant == 0 else Adt('ControlFlow', 1, [err(r.fields[0])])


@trait(('Option', 'Try', 'branch'))
def _(vm, a, ci):
    o = conc(vm, a[0])
    return Adt('ControlFlow', 0, [o.fields[0]]) if o.variant == 1 else Adt('ControlFlow', 1, [NONE()])


@trait(('Result', 'FromResidual', 'from_residual'))
def _(vm, a, ci):
    e = a[0].fields[0]
    # `?` converts the error with From: target error type is the 2nd arg of the self type
    want = tyarg(ci, 1)
    m = re.match(r'Result<Infallible, (.*)>$', ci.targs[0]) if ci.targs else None
    have = m.group(1) if m else want
    if want and have and want != have:
        e = vm.call(f'<{want} as From<{have}>>::from', [e], None, None, subst={})
    return err(e)


@trait(('Option', 'FromResidual', 'from_residual'))
def _(vm, a, ci): return NONE()


@trait(('Result', 'Try', 'from_output'))
def _(vm, a, ci): return ok(a[0])


@trait(('Option', 'Try', 'from_output'))
def _(vm, a, ci): return some(a[0])


# ------------------------------------------------------------------ Cow / Borrow / AsRef / Deref
def deref_value(vm, place_ref, v):
    """result of Deref::deref on the value `v` stored at `place_ref`"""
    if isinstance(v, RcVal): return Ref(v.box.cell)
    if isinstance(v, Adt) and v.ty == 'Box': return vm.box_ptr(v)
    if isinstance(v, (SymStr, BStr)): return v                      # String -> &str
    if isinstance(v, Adt) and v.ty in ('Vec', 'VecDeque', 'SmallVec', 'ArrayVec'):
        return SliceRef(Ref(place_ref.cell, place_ref.path + (0,)), 0, len(v.fields[0].items))
    if isinstance(v, Adt) and v.ty == 'Cow':
        if v.variant == 0: return v.fields[0]
        inner = v.fields[0]
        if isinstance(inner, (SymStr, BStr)): return inner
        return Ref(place_ref.cell, place_ref.path + (0,))
    if isinstance(v, (Ref, SliceRef)): return v
    if isinstance(v, Adt) and v.ty == 'ManuallyDrop': return Ref(place_ref.cell, place_ref.path + (0,))
    raise Unmodelled(f'Deref of {v!r}')


@trait(('Deref', 'deref'), ('DerefMut', 'deref_mut'), ('Cow', 'AsRef', 'as_ref'), ('Cow', 'Borrow', 'borrow'),
       ('Rc', 'AsRef', 'as_ref'), ('Rc', 'Borrow', 'borrow'), ('Box', 'AsRef', 'as_ref'), ('Box', 'AsMut', 'as_mut'),
       ('String', 'AsRef', 'as_ref'), ('String', 'Borrow', 'borrow'), ('Vec', 'AsRef', 'as_ref'), ('Vec', 'Borrow', 'borrow'))
def _(vm, a, ci):
    r = a[0]
    v = vm.ref_get(r) if isinstance(r, Ref) else r
    if isinstance(v, Opaque) and v.kind == 'static': return lazy_static_value(vm, v.data)
    if isinstance(v, SymEnum): v = conc(vm, v)
    if not isinstance(r, Ref): r = Ref(Cell(v))
    return deref_value(vm, r, v)


def lazy_static_value(vm, ty):
    """lazy_static!: the real initialiser's MIR is run once (concretely) and its value shared, read-only, by all paths"""
    cache = vm.mir.__dict__.setdefault('_lazy_values', {})
    if ty not in cache:
        fs = vm.mir.by_name.get('__static_ref_initialize', [])
        if len(fs) != 1: raise Unmodelled(f'lazy_static {ty}: expected exactly one initialiser in the MIR, found {len(fs)}')
        from .vm import VM, Explorer
        sub = VM(vm.mir, Explorer()); sub.str_mode = 'bounded'
        cache[ty] = Cell(sub.run_fn(fs[0], [], {}))
    return Ref(cache[ty])


@trait(('str', 'AsRef', 'as_ref'), ('&', 'AsRef', 'as_ref'), ('str', 'Borrow', 'borrow'), ('&', 'Borrow', 'borrow'),
       ('*', 'Borrow', 'borrow'), ('*', 'BorrowMut', 'borrow_mut'), ('*', 'AsRef', 'as_ref'))
def _(vm, a, ci): return a[0]


@path('Cow::into_owned')
def _(vm, a, ci):
    c = conc(vm, a[0])
    if c.variant == 1: return c.fields[0]
    return clone_of(vm, tyarg(ci), c.fields[0])


@path('Cow::is_borrowed', 'Cow::is_owned')
def _(vm, a, ci):
    c = conc(vm, D1(vm, a[0])); return (c.variant == 0) == (ci.method == 'is_borrowed')


@path('Cow::to_mut')
def _(vm, a, ci):
    r = a[0]; c = conc(vm, vm.ref_get(r))
    if c.variant == 0: vm.ref_set(r, Adt('Cow', 1, [clone_of(vm, tyarg(ci), c.fields[0])]))
    return Ref(r.cell, r.path + (0,))


# ------------------------------------------------------------------ Clone / Default / conversions
def clone_of(vm, ty, refv):
    """`<ty as Clone>::clone(refv)` / ToOwned"""
    v = D1(vm, refv)
    if isinstance(v, (SymStr, BStr, int, float, bool)) or is_sym(v): return v
    head = type_head(ty)[0] if ty else (v.ty if isinstance(v, (Adt, SymEnum)) else '')
    fs = vm.mir.by_impl.get(('Clone', head, 'clone'))
    if fs and not fs[0].impl.derive:
        return vm.run_fn(fs[0], [refv if isinstance(refv, Ref) else Ref(Cell(v))], {})
    return vm.clone_val(v)


@trait(('Clone', 'clone'), ('ToOwned', 'to_owned'))
def _(vm, a, ci):
    return clone_of(vm, ci.selfty, a[0])


@trait(('Clone', 'clone_from'))
def _(vm, a, ci):
    vm.ref_set(a[0], clone_of(vm, ci.selfty, a[1])); return UNIT


_DEFAULTS = {'bool': False, 'f64': 0.0, 'usize': 0, 'u32': 0, 'u64': 0, 'i32': 0, 'i64': 0, 'isize': 0, 'u8': 0, '()': UNIT, 'char': 0}


@trait(('Default', 'default'))
def _(vm, a, ci):
    ty = ci.selfty; head, ta = type_head(ty)
    if ty in _DEFAULTS: return _DEFAULTS[ty]
    if head == 'Option': return NONE()
    if head == 'String': return const_str(vm, '')
    if head in ('Vec', 'VecDeque'): return Adt(head, 0, [HList([])])
    if head in ('HashMap', 'HashSet'): return HMap([], False, vm.fresh('hm'))
    if head == 'BTreeMap': return HMap([], True)
    if head == '()': return Adt('()', 0, [call_trait(vm, t, 'Default', 'default', []) for t in ta])
    if head == 'Rc': return RcVal(RcBox(call_trait(vm, ta[0], 'Default', 'default', [])))
    if head == 'Box': return vm.new_box(call_trait(vm, ta[0], 'Default', 'default', []))
    if head == 'PhantomData': return Adt('PhantomData', 0, [])
    raise Unmodelled('Default for ' + ty)


@trait(('Into', 'into'))
def _(vm, a, ci):
    src, dst = ci.selfty, ci.targs[0]
    if src.startswith('impl ') or (re.fullmatch(r'[A-Z]\w*', src) and src not in vm.mir.src.structs and src not in vm.mir.src.enums and src not in ('String',)):
        rt = vm.runtime_type(a[0])      # `impl Trait` / unbound generic argument: use the value's runtime type
        if rt != '_': src = rt
    if src == dst: return a[0]
    return vm.call(f'<{dst} as From<{src}>>::from', a, None, None, subst={})


@trait(('TryInto', 'try_into'))
def _(vm, a, ci):
    src, dst = ci.selfty, ci.targs[0]
    return vm.call(f'<{dst} as TryFrom<{src}>>::try_from', a, None, None, subst={})


@trait(('From', 'from'))
def _(vm, a, ci):
    dst, src = ci.selfty, (ci.targs[0] if ci.targs else '')
    dh = type_head(dst)[0]
    v = a[0]
    if dst == src: return v
    if dh == 'String':
        if src in ('&str', '&mut str', 'Cow<str>', 'Box<str>', '&String'):
            v = D(vm, v)
            if isinstance(v, Adt) and v.ty == 'Cow': v = D(vm, v.fields[0])
            return v
        if src == 'char': return char_string(vm, v)
    if dh == 'Box': return vm.new_box(v)
    if dh == 'Rc': return RcVal(RcBox(v))
    if dh == 'Option': return some(v)
    if dh in ('f64',) and src in INT_TYPES: return vm.cast(v, 'f64', 'IntToFloat', src)
    if dh in INT_TYPES and (src in INT_TYPES or src == 'bool'): return vm.cast(v, dh, 'IntToInt', src)
    if dh == 'Vec' and isinstance(v, SliceRef):
        items = vm.ref_get(v.ref).items[v.start:v.end]; return Adt('Vec', 0, [HList([vm.clone_val(x) for x in items])])
    if dh == 'Vec' and isinstance(v, HList): return Adt('Vec', 0, [v])
    if dh == 'Cow':
        return Adt('Cow', 0 if src.startswith('&') else 1, [v])
    raise Unmodelled(f'From<{src}> for {dst}')


def char_string(vm, c):
    if isinstance(c, int): return const_str(vm, chr(c))
    w = getattr(vm, 'cp_width', {}).get(c.get_id())
    if w is not None: return BStr(Buf([c], [w]))
    if getattr(vm, 'str_mode', 'opaque') == 'bounded':
        w = getattr(vm, 'cp_width', {}).get(c.get_id())
        if w is None:
            # a derived character (e.g. a case-mapped one): its UTF-8 width is decided by solver-checked range tests
            w = 1 if truth(vm, z3.ULT(c, 0x80)) else 2 if truth(vm, z3.ULT(c, 0x800)) else 3 if truth(vm, z3.ULT(c, 0x10000)) else 4
            if not hasattr(vm, 'cp_width'): vm.cp_width = {}
            vm.cp_width[c.get_id()] = w; vm.keep.append(c)
        return BStr(Buf([c], [w]))
    return SymStr(char_to_str(c))


@trait(('TryFrom', 'try_from'))
def _(vm, a, ci):
    dst, src = ci.selfty, ci.targs[0]
    if dst in INT_TYPES and src in INT_TYPES:
        bits, sg = INT_TYPES[dst]; sb, ssg = INT_TYPES[src]
        lo, hi = (-(1 << (bits - 1)), (1 << (bits - 1)) - 1) if sg else (0, (1 << bits) - 1)
        v = a[0]
        if isinstance(v, int):
            return ok(v) if lo <= v <= hi else err(Adt('TryFromIntError', 0, []))
        # symbolic: in range?
        if ssg: inr = z3.And(v >= lo, v <= hi) if lo >= -(1 << (sb - 1)) and hi < (1 << (sb - 1)) else (v >= max(lo, -(1 << (sb - 1))))
        else: inr = z3.ULE(v, hi) if hi < (1 << sb) else z3.BoolVal(True)
        if truth(vm, inr): return ok(vm.cast(v, dst, 'IntToInt', src))
        return err(Adt('TryFromIntError', 0, []))
    if dst == 'char' and src == 'u32': return _char_from_u32(vm, a[0], True)
    raise Unmodelled(f'TryFrom<{src}> for {dst}')


def _char_from_u32(vm, v, as_result=False):
    good = (lambda x: ok(x)) if as_result else some
    bad = (lambda: err(Adt('CharTryFromError', 0, []))) if as_result else NONE
    if isinstance(v, int): return good(v) if (v < 0xD800 or 0xE000 <= v < 0x110000) else bad()
    valid = z3.Or(z3.ULT(v, 0xD800), z3.And(z3.UGE(v, 0xE000), z3.ULT(v, 0x110000)))
    return good(v) if truth(vm, valid) else bad()


@path('<impl char>::from_u32', 'char::from_u32', 'from_u32')
def _(vm, a, ci): return _char_from_u32(vm, a[0])


# ------------------------------------------------------------------ mem / cmp / ptr / misc
@path('discriminant', 'mem::discriminant', 'std::mem::discriminant')
def _(vm, a, ci): return Adt('Discriminant', 0, [vm.discriminant(D1(vm, a[0]))])


@trait(('Discriminant', 'PartialEq', 'eq'), ('Discriminant', 'PartialEq', 'ne'))
def _(vm, a, ci):
    x, y = D(vm, a[0]).fields[0], D(vm, a[1]).fields[0]
    r = (x == y)
    if not isinstance(r, bool): r = z3.simplify(r); r = True if z3.is_true(r) else False if z3.is_false(r) else r
    if ci.method == 'ne': r = (not r) if isinstance(r, bool) else z3.Not(r)
    return r


@path('std::mem::replace', 'mem::replace', 'replace')
def _(vm, a, ci):
    old = vm.ref_get(a[0]); vm.ref_set(a[0], a[1]); return old


@path('std::mem::take', 'mem::take', 'take')
def _(vm, a, ci):
    old = vm.ref_get(a[0]); vm.ref_set(a[0], call_trait(vm, ci.fnargs[0], 'Default', 'default', [])); return old


@path('std::mem::swap', 'mem::swap', 'swap')
def _(vm, a, ci):
    x, y = vm.ref_get(a[0]), vm.ref_get(a[1]); vm.ref_set(a[0], y); vm.ref_set(a[1], x); return UNIT


@path('std::mem::drop', 'mem::drop', 'drop', 'std::mem::forget', 'forget')
def _(vm, a, ci):
    if ci.method == 'drop': vm.drop_val(a[0])
    return UNIT


SIZES = {'Val': 16, 'f64': 8, 'bool': 1, 'char': 4, '()': 0, 'String': 24, 'SourceRange': 16, 'SourceLocation': 8}


@path('size_of', 'mem::size_of', 'std::mem::size_of')
def _(vm, a, ci):
    t = ci.fnargs[0]
    if t in INT_TYPES: return INT_TYPES[t][0] // 8
    if t in SIZES: return SIZES[t]
    if t.startswith(('&', '*', 'Box<', 'Rc<')): return 8
    raise Unmodelled('size_of::<' + t + '>')


@path('must_use', 'hint::must_use', 'black_box', 'hint::black_box', 'identity', 'convert::identity')
def _(vm, a, ci): return a[0]


@path('unreachable_unchecked', 'std::hint::unreachable_unchecked', 'hint::unreachable_unchecked')
def _(vm, a, ci): raise PanicEdge('ub', 'unreachable_unchecked() reached')


@path_rx(r'(?:\w+::)*(?:panic|panic_fmt|panic_display|panic_str|begin_panic|panic_explicit|unreachable_display|panic_nounwind|panic_cannot_unwind|assert_failed|assert_failed_inner|unwrap_failed|expect_failed|panic_bounds_check|slice_index_fail|slice_error_fail|panic_const_\w+|panic_misaligned_pointer_dereference|panic_null_pointer_dereference|panic_invalid_enum_construction)')
def _(vm, a, ci):
    msg = ''
    for x in a:
        x = D(vm, x) if isinstance(x, Ref) else x
        if isinstance(x, SymStr):
            t = z3.simplify(x.term)
            if z3.is_string_value(t): msg = zstr(t); break
        if isinstance(x, BStr) and x.concrete() is not None: msg = x.concrete(); break
    raise PanicEdge('panic', f'{ci.method}({msg})')


@path('Rc::new', 'Arc::new')
def _(vm, a, ci): return RcVal(RcBox(a[0]), ci.selfty.split('<')[0] if ci.selfty else 'Rc')


@path('Rc::make_mut', 'Arc::make_mut')
def _(vm, a, ci):
    r = a[0]; rc = vm.ref_get(r)
    if rc.box.strong == 1: return Ref(rc.box.cell)
    nb = RcBox(clone_of(vm, tyarg(ci), Ref(rc.box.cell)))
    rc.box.strong -= 1
    vm.ref_set(r, RcVal(nb, rc.kind))
    return Ref(nb.cell)


@path('Rc::get_mut', 'Arc::get_mut')
def _(vm, a, ci):
    rc = vm.ref_get(a[0])
    return some(Ref(rc.box.cell)) if rc.box.strong == 1 else NONE()


@path('Rc::get_mut_unchecked', 'Arc::get_mut_unchecked', 'Rc::as_ptr', 'Arc::as_ptr')
def _(vm, a, ci): return Ref(vm.ref_get(a[0]).box.cell)


@path('Rc::ptr_eq', 'Arc::ptr_eq')
def _(vm, a, ci): return D(vm, a[0]).box is D(vm, a[1]).box


@path('Rc::strong_count', 'Arc::strong_count')
def _(vm, a, ci): return D(vm, a[0]).box.strong


@path('Rc::try_unwrap', 'Arc::try_unwrap')
def _(vm, a, ci):
    rc = a[0]
    if rc.box.strong == 1: rc.box.strong = 0; return ok(rc.box.cell.v)
    return err(rc)


@path('Rc::unwrap_or_clone', 'Arc::unwrap_or_clone')
def _(vm, a, ci):
    rc = a[0]
    if rc.box.strong == 1: rc.box.strong = 0; return rc.box.cell.v
    rc.box.strong -= 1
    return clone_of(vm, tyarg(ci), Ref(rc.box.cell))


@path('Box::new')
def _(vm, a, ci): return vm.new_box(a[0])


@path('Box::new_uninit')
def _(vm, a, ci):
    # `vec![..]` lowering of this toolchain: Box<MaybeUninit<[T; N]>> written through (*p).1.0.0, then box_assume_init_into_vec_unsafe
    return vm.new_box(Adt('MaybeUninit', 0, [UNIT, Adt('ManuallyDrop', 0, [Adt('MaybeDangling', 0, [UNINIT])])]))


@path('box_assume_init_into_vec_unsafe', 'boxed::box_assume_init_into_vec_unsafe', 'std::boxed::box_assume_init_into_vec_unsafe')
def _(vm, a, ci):
    mu = vm.ref_get(vm.box_ptr(a[0]))
    arr = mu.fields[1].fields[0].fields[0]
    if not isinstance(arr, HList): raise Unmodelled('vec! lowering: uninitialised array')
    return Adt('Vec', 0, [arr])


@path('Box::assume_init')
def _(vm, a, ci):
    mu = vm.ref_get(vm.box_ptr(a[0]))
    return vm.new_box(mu.fields[1].fields[0].fields[0])


@path('RefCell::new', 'Cell::new')
def _(vm, a, ci): return Adt('RefCell', 0, [a[0], 0])


@path('RefCell::borrow', 'RefCell::borrow_mut', 'RefCell::try_borrow_mut', 'RefCell::try_borrow')
def _(vm, a, ci):
    r = a[0]; rc = vm.ref_get(r); mut = 'mut' in ci.method
    flag = rc.fields[1]
    if (mut and flag != 0) or (not mut and flag < 0):
        if ci.method.startswith('try_'): return err(Adt('BorrowError', 0, []))
        raise PanicEdge('panic', f'RefCell already {"" if mut else "mutably "}borrowed')
    rc.fields[1] = -1 if mut else flag + 1
    g = Adt('RefGuard', 0, [Ref(r.cell, r.path + (0,)), Ref(r.cell, r.path + (1,)), mut])
    return ok(g) if ci.method.startswith('try_') else g


@trait(('Ref', 'Deref', 'deref'), ('RefMut', 'Deref', 'deref'), ('RefMut', 'DerefMut', 'deref_mut'))
def _(vm, a, ci): return D1(vm, a[0]).fields[0]


@path('RefCell::into_inner')
def _(vm, a, ci): return a[0].fields[0]


# ------------------------------------------------------------------ PartialEq / PartialOrd / Ord for std & primitive types
def values_eq(vm, ty, x, y):
    """`<ty as PartialEq>::eq(&x, &y)` -> bool | z3 Bool"""
    x, y = D1(vm, x), D1(vm, y)
    ty = ty.strip()
    while ty.startswith('&'):
        ty = ty[1:].lstrip(); ty = ty[4:] if ty.startswith('mut ') else ty
        x, y = D1(vm, x), D1(vm, y)
    head, ta = type_head(ty)
    if isinstance(x, (SymStr, BStr)) or isinstance(y, (SymStr, BStr)): return str_eq(vm, x, y)
    if ty == 'f64' or isinstance(x, float) or z3.is_fp(x): return vm.fbinop('Eq', x, y)
    if isinstance(x, (bool, int)) and isinstance(y, (bool, int)): return x == y
    if is_sym(x) or is_sym(y):
        r = z3.simplify(x == y); return True if z3.is_true(r) else False if z3.is_false(r) else r
    if isinstance(x, RcVal): return values_eq(vm, ta[0] if ta else '', Ref(x.box.cell), Ref(y.box.cell))
    if isinstance(x, Adt) and x.ty == 'Cow' and isinstance(y, Adt) and y.ty == 'Cow':
        # Cow compares what it points to: Owned(v) == Borrowed(&v)
        inner = [t for t in ta if not t.startswith("'")]
        return values_eq(vm, inner[-1] if inner else '', x.fields[0], y.fields[0])
    if head == 'Box': return values_eq(vm, ta[0], vm.box_ptr(x), vm.box_ptr(y))
    if isinstance(x, Adt) and x.ty in ('Vec', 'VecDeque') or isinstance(x, (HList, SliceRef)):
        xs, ys = list_items(vm, x), list_items(vm, y)
        if len(xs) != len(ys): return False
        et = ta[0] if ta else ''
        return all_eq(vm, [(et, a, b) for a, b in zip(xs, ys)])
    if isinstance(x, HMap): return hmap_eq(vm, ta, x, y)
    if head == '()' :
        return all_eq(vm, [(t, a, b) for t, a, b in zip(ta, x.fields, y.fields)])
    if head in ('Option', 'Result') or isinstance(x, (Adt, SymEnum)):
        fs = vm.mir.by_impl.get(('PartialEq', head, 'eq'))
        if fs:
            return vm.call(f'<{ty} as PartialEq>::eq', [Ref(Cell(x)), Ref(Cell(y))], None, None, subst={})
        x, y = conc(vm, x), conc(vm, y)
        if x.variant != y.variant: return False
        tys = ta if head == '()' else ([ta[x.variant if head == 'Result' else 0]] if ta else [''])
        return all_eq(vm, [(tys[i] if i < len(tys) else '', a, b) for i, (a, b) in enumerate(zip(x.fields, y.fields))])
    raise Unmodelled(f'PartialEq for {ty}: {x!r}')


def all_eq(vm, triples):
    """short-circuit conjunction (forks on symbolic element comparisons, like the real loop)"""
    for t, a, b in triples:
        if not truth(vm, values_eq(vm, t, a, b)): return False
    return True


def list_items(vm, v):
    if isinstance(v, Adt): return v.fields[0].items
    if isinstance(v, HList): return v.items
    if isinstance(v, SliceRef): return vm.ref_get(v.ref).items[v.start:v.end]
    raise Unmodelled('list? ' + repr(v))


def hmap_eq(vm, ta, x, y):
    if len(x.entries) != len(y.entries): return False
    kt, vt = (ta + ['', ''])[:2]
    for k, v in x.entries:
        found = None
        for k2, v2 in y.entries:
            if truth(vm, values_eq(vm, kt, k, k2)): found = v2; break
        if found is None or not truth(vm, values_eq(vm, vt, v, found)): return False
    return True


@trait(('PartialEq', 'eq'), ('PartialEq', 'ne'))
def _(vm, a, ci):
    r = values_eq(vm, ci.selfty, a[0], a[1])
    if ci.method == 'ne': r = (not r) if isinstance(r, bool) else z3.Not(r)
    return r


def ordering(o): return Adt('Ordering', o + 1, [])


def values_cmp(vm, ty, x, y, partial):
    """returns -1/0/1 or None (unordered) -- forks on symbolic comparisons"""
    x, y = D(vm, x), D(vm, y)
    ty = ty.lstrip('&').strip()
    if ty.startswith('mut '): ty = ty[4:]
    head, ta = type_head(ty)
    if isinstance(x, RcVal): return values_cmp(vm, ta[0] if ta else '', Ref(x.box.cell), Ref(y.box.cell), partial)
    if isinstance(x, (SymStr, BStr)):
        if isinstance(x, BStr) and isinstance(y, BStr):
            for c, d in zip(x.chars(), y.chars()):
                if truth(vm, c == d if is_sym(c) or is_sym(d) else c == d): continue
                return -1 if truth(vm, z3.ULT(c, d) if is_sym(c) or is_sym(d) else c < d) else 1
            lx, ly = len(x.chars()), len(y.chars()); return (lx > ly) - (lx < ly)
        tx, tyy = to_sym(x), to_sym(y)
        if truth(vm, tx == tyy): return 0
        return -1 if truth(vm, tx < tyy) else 1
    if ty == 'f64' or isinstance(x, float) or z3.is_fp(x):
        if truth(vm, vm.fbinop('Lt', x, y)): return -1
        if truth(vm, vm.fbinop('Gt', x, y)): return 1
        if truth(vm, vm.fbinop('Eq', x, y)): return 0
        return None
    if isinstance(x, bool) or z3.is_bool(x):
        if truth(vm, vm.bbinop('Eq', x, y)): return 0
        return -1 if truth(vm, vm.bbinop('Lt', x, y)) else 1
    if isinstance(x, int) and isinstance(y, int): return (x > y) - (x < y)
    if is_sym(x) or is_sym(y):
        sg = INT_TYPES.get(ty, (64, False))[1]
        if truth(vm, x == y): return 0
        return -1 if truth(vm, (x < y) if sg else z3.ULT(x, y)) else 1
    if head == '()' or (isinstance(x, Adt) and x.ty == '()'):
        for i, (p, q) in enumerate(zip(x.fields, y.fields)):
            r = values_cmp(vm, ta[i] if i < len(ta) else '', p, q, partial)
            if r != 0: return r
        return 0
    if isinstance(x, Adt) and x.ty == 'Reverse':
        r = values_cmp(vm, ta[0] if ta else '', x.fields[0], y.fields[0], partial)
        return None if r is None else -r
    if head == 'Option':
        x, y = conc(vm, x), conc(vm, y)
        if x.variant != y.variant: return -1 if x.variant < y.variant else 1
        return 0 if x.variant == 0 else values_cmp(vm, ta[0] if ta else '', x.fields[0], y.fields[0], partial)
    if isinstance(x, (Adt, SymEnum)):
        meth = 'partial_cmp' if partial else 'cmp'
        fs = vm.mir.by_impl.get(('PartialOrd' if partial else 'Ord', head, meth)) or vm.mir.by_impl.get(('PartialOrd', head, 'partial_cmp'))
        if fs:
            r = vm.run_fn(fs[0], [Ref(Cell(x)), Ref(Cell(y))], {})
            r = conc(vm, r)
            if r.ty == 'Option':
                if r.variant == 0: return None
                r = r.fields[0]
            return r.variant - 1
    if isinstance(x, (HList, SliceRef)) or (isinstance(x, Adt) and x.ty in ('Vec', 'VecDeque')):
        xs, ys = list_items(vm, x), list_items(vm, y)
        for p, q in zip(xs, ys):
            r = values_cmp(vm, ta[0] if ta else '', p, q, partial)
            if r != 0: return r
        return (len(xs) > len(ys)) - (len(xs) < len(ys))
    raise Unmodelled(f'cmp for {ty}: {x!r}')


@trait(('PartialOrd', 'partial_cmp'))
def _(vm, a, ci):
    r = values_cmp(vm, ci.selfty, a[0], a[1], True)
    return NONE() if r is None else some(ordering(r))


@trait(('Ord', 'cmp'))
def _(vm, a, ci): return ordering(values_cmp(vm, ci.selfty, a[0], a[1], False))


@trait(('PartialOrd', 'lt'), ('PartialOrd', 'le'), ('PartialOrd', 'gt'), ('PartialOrd', 'ge'))
def _(vm, a, ci):
    x, y = D(vm, a[0]), D(vm, a[1])
    if isinstance(x, float) or z3.is_fp(x) or isinstance(y, float) or z3.is_fp(y):
        return vm.fbinop({'lt': 'Lt', 'le': 'Le', 'gt': 'Gt', 'ge': 'Ge'}[ci.method], x, y)
    r = values_cmp(vm, ci.selfty, a[0], a[1], True)
    if r is None: return False
    return {'lt': r < 0, 'le': r <= 0, 'gt': r > 0, 'ge': r >= 0}[ci.method]


@trait(('Ord', 'max'), ('Ord', 'min'))
def _(vm, a, ci):
    r = values_cmp(vm, ci.selfty, a[0], a[1], False)
    if ci.method == 'max': return a[1] if r <= 0 else a[0]
    return a[0] if r <= 0 else a[1]


@path('std::cmp::max', 'cmp::max', 'max', 'std::cmp::min', 'cmp::min', 'min')
def _(vm, a, ci):
    r = values_cmp(vm, ci.fnargs[0] if ci.fnargs else '', a[0], a[1], False)
    if ci.method == 'max': return a[1] if r <= 0 else a[0]
    return a[0] if r <= 0 else a[1]


@path('Ordering::reverse')
def _(vm, a, ci): return Adt('Ordering', 2 - a[0].variant, [])


@path('Ordering::is_eq', 'Ordering::is_ne', 'Ordering::is_lt', 'Ordering::is_gt', 'Ordering::is_le', 'Ordering::is_ge')
def _(vm, a, ci):
    o = conc(vm, a[0]).variant - 1
    return {'is_eq': o == 0, 'is_ne': o != 0, 'is_lt': o < 0, 'is_gt': o > 0, 'is_le': o <= 0, 'is_ge': o >= 0}[ci.method]


@path('Ordering::then', 'Ordering::then_with')
def _(vm, a, ci):
    o = conc(vm, a[0])
    if o.variant != 1: return o
    return a[1] if ci.method == 'then' else vm.call_value(a[1], [])


# ------------------------------------------------------------------ closures through Fn* traits
@trait(('FnOnce', 'call_once'), ('FnMut', 'call_mut'), ('Fn', 'call'))
def _(vm, a, ci):
    f = a[0]
    while isinstance(f, Ref): f = vm.ref_get(f)
    argt = a[1]
    return vm.call_value(f, list(argt.fields) if isinstance(argt, Adt) and argt.ty == '()' else [argt])


# ------------------------------------------------------------------ bool / f64 / integers / char
@path('<impl bool>::then')
def _(vm, a, ci): return some(vm.call_value(a[1], [])) if truth(vm, a[0]) else NONE()


@path('<impl bool>::then_some')
def _(vm, a, ci): return some(a[1]) if truth(vm, a[0]) else NONE()


def _round(vm, x, mode_py, mode_z3):
    if isinstance(x, float):
        if x != x or math.isinf(x): return x
        r = mode_py(x); return math.copysign(float(r), x) if r == 0 else float(r)
    return z3.fpRoundToIntegral(mode_z3, x)


def _round_half_away(x):
    return math.floor(x + 0.5) if x >= 0 else -math.floor(-x + 0.5)


@path('<impl f64>::trunc', 'f64::trunc')
def _(vm, a, ci): return _round(vm, a[0], math.trunc, z3.RTZ())


@path('<impl f64>::ceil', 'f64::ceil')
def _(vm, a, ci): return _round(vm, a[0], math.ceil, z3.RTP())


@path('<impl f64>::floor', 'f64::floor')
def _(vm, a, ci): return _round(vm, a[0], math.floor, z3.RTN())


@path('<impl f64>::round', 'f64::round')
def _(vm, a, ci):
    x = a[0]
    if isinstance(x, float):
        if x != x or math.isinf(x) or abs(x) >= 2.0 ** 52: return x
        t = math.trunc(x); f = abs(x - t)
        r = t + (math.copysign(1, x) if f >= 0.5 else 0)
        return math.copysign(float(r), x)
    return z3.fpRoundToIntegral(z3.RNA(), x)


def _fp(vm, x): return z3.FPVal(x, F64) if isinstance(x, float) else x


def _total_key(x):
    """IEEE total order key of a double as a signed 64-bit term / int (sign-magnitude -> two's complement order)"""
    if isinstance(x, float):
        import struct
        b = struct.unpack('<q', struct.pack('<d', x))[0]
        return b ^ (((b >> 63) & 0xFFFFFFFFFFFFFFFF) >> 1) if b < 0 else b
    bv = z3.fpToIEEEBV(x)
    return bv ^ z3.LShR(bv >> 63, 1)


@path('<impl f64>::total_cmp', 'f64::total_cmp')
def _(vm, a, ci):
    x, y = D(vm, a[0]), D(vm, a[1])
    if isinstance(x, float) and isinstance(y, float):
        kx, ky = _total_key(x), _total_key(y)
        kx = kx - (1 << 64) if kx >= (1 << 63) else kx; ky = ky - (1 << 64) if ky >= (1 << 63) else ky
        return ordering((kx > ky) - (kx < ky))
    kx, ky = _total_key(_fp(vm, x)), _total_key(_fp(vm, y))
    if truth(vm, kx < ky): return ordering(-1)
    if truth(vm, kx > ky): return ordering(1)
    return ordering(0)


@path('<impl f64>::signum', 'f64::signum')
def _(vm, a, ci):
    x = a[0]
    if isinstance(x, float): return x if x != x else math.copysign(1.0, x)
    return z3.If(z3.fpIsNaN(x), x, z3.If(z3.fpIsNegative(x), z3.FPVal(-1.0, F64), z3.FPVal(1.0, F64)))


@path('<impl f64>::is_sign_positive', 'f64::is_sign_positive')
def _(vm, a, ci):
    x = a[0]
    return math.copysign(1, x) > 0 if isinstance(x, float) else z3.Not(z3.fpIsNegative(x))


@path('<impl f64>::min', 'f64::min', '<impl f64>::max', 'f64::max')
def _(vm, a, ci):
    x, y = a[0], a[1]
    if isinstance(x, float) and isinstance(y, float):
        if x != x: return y
        if y != y: return x
        return min(x, y) if ci.method == 'min' else max(x, y)
    x, y = _fp(vm, x), _fp(vm, y)
    pick = z3.fpLT(x, y) if ci.method == 'min' else z3.fpGT(x, y)
    return z3.If(z3.fpIsNaN(x), y, z3.If(z3.fpIsNaN(y), x, z3.If(pick, x, y)))


@path('<impl f64>::copysign', 'f64::copysign')
def _(vm, a, ci):
    x, y = a[0], a[1]
    if isinstance(x, float) and isinstance(y, float): return math.copysign(x, y)
    x, y = _fp(vm, x), _fp(vm, y)
    return z3.If(z3.fpIsNegative(y) == z3.fpIsNegative(x), x, z3.fpNeg(x))


@path('<impl f64>::sqrt', 'f64::sqrt')
def _(vm, a, ci):
    x = a[0]
    if isinstance(x, float): return math.sqrt(x) if x >= 0 else float('nan')
    return z3.fpSqrt(z3.RNE(), x)


@path('<impl f64>::recip', 'f64::recip')
def _(vm, a, ci): return vm.fbinop('Div', 1.0, a[0])


@path('<impl f64>::to_bits', 'f64::to_bits')
def _(vm, a, ci):
    x = a[0]
    if isinstance(x, float):
        import struct
        return struct.unpack('<Q', struct.pack('<d', x))[0]
    return z3.fpToIEEEBV(x)


@path('<impl f64>::from_bits', 'f64::from_bits')
def _(vm, a, ci):
    b = a[0]
    if isinstance(b, int):
        import struct
        return struct.unpack('<d', struct.pack('<Q', b & 0xFFFFFFFFFFFFFFFF))[0]
    return z3.fpBVToFP(b, F64)


@path('<impl f64>::clamp', 'f64::clamp')
def _(vm, a, ci):
    x, lo_, hi_ = a[0], a[1], a[2]
    bad_ = vm.fbinop('Gt', lo_, hi_)
    nanb = z3.Or(z3.fpIsNaN(_fp(vm, lo_)), z3.fpIsNaN(_fp(vm, hi_))) if not (isinstance(lo_, float) and isinstance(hi_, float)) else (lo_ != lo_ or hi_ != hi_)
    if truth(vm, bad_) or truth(vm, nanb): raise PanicEdge('panic', 'f64::clamp: min > max, or either was NaN')
    if all(isinstance(v, float) for v in (x, lo_, hi_)): return x if x != x else min(max(x, lo_), hi_)
    x, lo_, hi_ = _fp(vm, x), _fp(vm, lo_), _fp(vm, hi_)
    return z3.If(z3.fpLT(x, lo_), lo_, z3.If(z3.fpGT(x, hi_), hi_, x))


@path('<impl f64>::mul_add', 'f64::mul_add')
def _(vm, a, ci):
    if all(isinstance(v, float) for v in a[:3]): return math.fma(a[0], a[1], a[2]) if hasattr(math, 'fma') else a[0] * a[1] + a[2]
    return z3.fpFMA(z3.RNE(), _fp(vm, a[0]), _fp(vm, a[1]), _fp(vm, a[2]))


@path('<impl f64>::rem_euclid', 'f64::rem_euclid')
def _(vm, a, ci):
    x, y = a[0], a[1]
    if isinstance(x, float) and isinstance(y, float):
        if y == 0 or x != x or y != y or math.isinf(x): return float('nan')
        r = math.fmod(x, y); return r + abs(y) if r < 0 else r
    x, y = _fp(vm, x), _fp(vm, y)
    r = z3.fpRem(x, y)          # IEEE remainder is not fmod: only used through the sign correction below for |r| <= |y|/2 cases
    raise Unmodelled('f64::rem_euclid on symbolic operands')


@path('<impl char>::from_digit', 'char::from_digit')
def _(vm, a, ci):
    d, radix = a[0], a[1]
    if not isinstance(radix, int): raise Unmodelled('char::from_digit with a symbolic radix')
    if radix > 36: raise PanicEdge('panic', 'from_digit: radix is too high (maximum 36)')
    if not isinstance(d, int):
        if truth(vm, z3.UGE(d, radix)): return NONE()
        return some(z3.If(z3.ULT(d, 10), d + 48, d + 87))
    if d >= radix: return NONE()
    return some(48 + d if d < 10 else 87 + d)


@path('<impl f64>::abs', 'f64::abs')
def _(vm, a, ci): return abs(a[0]) if isinstance(a[0], float) else z3.fpAbs(a[0])


@path('<impl f64>::is_nan', 'f64::is_nan')
def _(vm, a, ci): return a[0] != a[0] if isinstance(a[0], float) else z3.fpIsNaN(a[0])


@path('<impl f64>::is_finite', 'f64::is_finite')
def _(vm, a, ci):
    x = a[0]
    return not (math.isinf(x) or x != x) if isinstance(x, float) else z3.Not(z3.Or(z3.fpIsNaN(x), z3.fpIsInf(x)))


@path('<impl f64>::is_infinite', 'f64::is_infinite')
def _(vm, a, ci): return math.isinf(a[0]) if isinstance(a[0], float) else z3.fpIsInf(a[0])


@path('<impl f64>::is_sign_negative', 'f64::is_sign_negative')
def _(vm, a, ci):
    x = a[0]
    return math.copysign(1, x) < 0 if isinstance(x, float) else z3.fpIsNegative(x)


@path('<impl f64>::fract', 'f64::fract')
def _(vm, a, ci):
    x = a[0]
    if isinstance(x, float): return x - math.trunc(x) if not (math.isinf(x) or x != x) else math.nan
    return z3.fpSub(RNE, x, z3.fpRoundToIntegral(z3.RTZ(), x))


@path('<impl f64>::powi', 'f64::powi')
def _(vm, a, ci):
    x, n = a[0], a[1]
    if not isinstance(n, int): raise Unmodelled('powi with symbolic exponent')
    # compiler-rt __powidf2
    recip = n < 0; r = 1.0 if isinstance(x, float) else z3.FPVal(1.0, F64); b = x; k = abs(n)
    while True:
        if k & 1: r = vm.fbinop('Mul', r, b)
        k >>= 1
        if k == 0: break
        b = vm.fbinop('Mul', b, b)
    return vm.fbinop('Div', 1.0, r) if recip else r


@trait(('f64', 'Add', 'add'), ('f64', 'Sub', 'sub'), ('f64', 'Mul', 'mul'), ('f64', 'Div', 'div'), ('f64', 'Rem', 'rem'))
def _(vm, a, ci): return vm.fbinop(ci.trait, D(vm, a[0]), D(vm, a[1]))


@trait(('&', 'Add', 'add'), ('&', 'Sub', 'sub'), ('&', 'Mul', 'mul'), ('&', 'Div', 'div'))
def _(vm, a, ci):
    if 'f64' in ci.selfty: return vm.fbinop(ci.trait, D(vm, a[0]), D(vm, a[1]))
    raise Unmodelled('op on ' + ci.selfty)


@trait(('f64', 'Neg', 'neg'), ('&', 'Neg', 'neg'))
def _(vm, a, ci):
    x = D(vm, a[0])
    return -x if isinstance(x, float) else z3.fpNeg(x)


@trait(('f64', 'AddAssign', 'add_assign'), ('f64', 'SubAssign', 'sub_assign'), ('f64', 'MulAssign', 'mul_assign'), ('f64', 'DivAssign', 'div_assign'))
def _(vm, a, ci):
    vm.ref_set(a[0], vm.fbinop(ci.trait[:3], vm.ref_get(a[0]), D(vm, a[1]))); return UNIT


@trait(('f64', 'Sum', 'sum'))
def _(vm, a, ci):
    from .std_iter import it_next
    acc = -0.0          # std: f64::sum starts from -0.0 (since 1.81) ; 0.0 before. Keep -0.0: x + -0.0 == x bitwise for all x.
    while True:
        r = it_next(vm, a[0])
        if r is None: return acc
        acc = vm.fbinop('Add', acc, D(vm, r[0]))


def _int_method(bits, sg):
    def conv(vm, v): return v
    return conv


for _t, (_bits, _sg) in list(INT_TYPES.items()):
    if _t == 'char': continue

    def _mk(t=_t, bits=_bits, sg=_sg):
        lo, hi = (-(1 << (bits - 1)), (1 << (bits - 1)) - 1) if sg else (0, (1 << bits) - 1)

        @path(f'<impl {t}>::checked_add', f'<impl {t}>::checked_sub', f'<impl {t}>::checked_mul')
        def _(vm, a, ci):
            op = {'checked_add': 'AddWithOverflow', 'checked_sub': 'SubWithOverflow', 'checked_mul': 'MulWithOverflow'}[ci.method]
            r = vm.binop(op, a[0], a[1], t)
            return NONE() if truth(vm, r.fields[1]) else some(r.fields[0])

        @path(f'<impl {t}>::wrapping_add', f'<impl {t}>::wrapping_sub', f'<impl {t}>::wrapping_mul')
        def _(vm, a, ci):
            return vm.binop({'wrapping_add': 'Add', 'wrapping_sub': 'Sub', 'wrapping_mul': 'Mul'}[ci.method], a[0], a[1], t)

        @path(f'<impl {t}>::saturating_sub', f'<impl {t}>::saturating_add')
        def _(vm, a, ci):
            op = 'AddWithOverflow' if ci.method.endswith('add') else 'SubWithOverflow'
            r = vm.binop(op, a[0], a[1], t)
            if truth(vm, r.fields[1]):
                if not sg: return hi if ci.method.endswith('add') else lo
                neg = a[1] < 0 if isinstance(a[1], int) else truth(vm, a[1] < 0)
                return (lo if neg else hi) if ci.method.endswith('add') else (hi if neg else lo)
            return r.fields[0]

        @path(f'<impl {t}>::pow')
        def _(vm, a, ci):
            if not isinstance(a[1], int): raise Unmodelled('pow with symbolic exponent')
            r = 1
            for _k in range(a[1]):
                m = vm.binop('MulWithOverflow', r, a[0], t)
                if truth(vm, m.fields[1]): raise PanicEdge('panic', 'attempt to multiply with overflow (pow)')
                r = m.fields[0]
            return r

        @path(f'<impl {t}>::abs_diff')
        def _(vm, a, ci):
            x, y = a
            if isinstance(x, int) and isinstance(y, int): return abs(x - y)
            return z3.If((x < y) if sg else z3.ULT(x, y), y - x, x - y)

        @path(f'<impl {t}>::max_value', f'<impl {t}>::min_value')
        def _(vm, a, ci): return hi if ci.method.startswith('max') else lo

        @path(f'<impl {t}>::abs', f'<impl {t}>::wrapping_abs', f'<impl {t}>::unsigned_abs', f'<impl {t}>::checked_abs', f'<impl {t}>::checked_neg', f'<impl {t}>::wrapping_neg', f'<impl {t}>::signum')
        def _(vm, a, ci):
            x = a[0]; m = ci.method
            ismin = (x == lo) if isinstance(x, int) else (truth(vm, x == lo) if sg else False)
            neg = (x < 0) if isinstance(x, int) else (truth(vm, x < 0) if sg else False)
            if m == 'signum': return (0 if (x == 0 if isinstance(x, int) else truth(vm, x == 0)) else (-1 if neg else 1))
            if m in ('checked_neg', 'wrapping_neg'):
                zero = (x == 0) if isinstance(x, int) else truth(vm, x == 0)
                if not sg: return (some(0) if zero else NONE()) if m == 'checked_neg' else (0 if zero else vm.binop('Sub', 0, x, t))
                if ismin: return NONE() if m == 'checked_neg' else x
                return some(-x) if m == 'checked_neg' else -x
            if ismin and sg:
                if m == 'abs': raise PanicEdge('panic', 'attempt to negate with overflow (abs of MIN)')
                if m == 'checked_abs': return NONE()
                if m == 'wrapping_abs': return x
                return 1 << (bits - 1)
            r = (-x if neg else x)
            return some(r) if m == 'checked_abs' else r

        @path(f'<impl {t}>::checked_div', f'<impl {t}>::checked_rem', f'<impl {t}>::rem_euclid', f'<impl {t}>::div_euclid')
        def _(vm, a, ci):
            x, y = a; m = ci.method
            zero = (y == 0) if isinstance(y, int) else truth(vm, y == 0)
            if zero:
                if m.startswith('checked'): return NONE()
                raise PanicEdge('panic', 'attempt to divide by zero')
            if sg:
                ov = ((x == lo) if isinstance(x, int) else truth(vm, x == lo)) and ((y == -1) if isinstance(y, int) else truth(vm, y == -1))
                if ov:
                    if m.startswith('checked'): return NONE()
                    raise PanicEdge('panic', 'attempt to divide with overflow')
            if m in ('checked_div', 'checked_rem'):
                r = vm.binop('Div' if m == 'checked_div' else 'Rem', x, y, t); return some(r)
            if not (isinstance(x, int) and isinstance(y, int)): raise Unmodelled(f'{m} on symbolic integers')
            q, r = divmod(x, abs(y)); q = q if y > 0 else -q
            return r if m == 'rem_euclid' else q

        @path(f'<impl {t}>::is_power_of_two', f'<impl {t}>::leading_zeros', f'<impl {t}>::trailing_zeros', f'<impl {t}>::count_ones')
        def _(vm, a, ci):
            x = a[0]
            if not isinstance(x, int): raise Unmodelled(f'{ci.method} on a symbolic integer')
            u = x & ((1 << bits) - 1)
            if ci.method == 'is_power_of_two': return u != 0 and (u & (u - 1)) == 0
            if ci.method == 'count_ones': return bin(u).count('1')
            if ci.method == 'leading_zeros': return bits - u.bit_length()
            return bits if u == 0 else (u & -u).bit_length() - 1

        @path(f'<impl {t}>::overflowing_add', f'<impl {t}>::overflowing_sub', f'<impl {t}>::overflowing_mul')
        def _(vm, a, ci):
            return vm.binop({'overflowing_add': 'AddWithOverflow', 'overflowing_sub': 'SubWithOverflow', 'overflowing_mul': 'MulWithOverflow'}[ci.method], a[0], a[1], t)

        @path(f'<impl {t}>::from_str_radix')
        def _(vm, a, ci):
            s, radix = a[0], a[1]
            if isinstance(radix, int):
                if not 2 <= radix <= 36: raise PanicEdge('panic', f'from_str_radix: radix {radix} not in 2..=36')
            else:
                if truth(vm, z3.Or(z3.ULT(radix, 2), z3.UGT(radix, 36))):
                    raise PanicEdge('panic', 'from_str_radix: radix must lie in the range 2..=36')
            ctext = s.concrete() if isinstance(s, BStr) else (zstr(z3.simplify(s.term)) if isinstance(s, SymStr) and z3.is_string_value(z3.simplify(s.term)) else None)
            if ctext is not None and isinstance(radix, int):
                try: v = int(ctext, radix) if re.fullmatch(r'[+-]?[0-9a-zA-Z]+', ctext) else None
                except ValueError: v = None
                if v is None or not lo <= v <= hi: return err(Adt('ParseIntError', 0, []))
                return ok(v)
            st = to_sym(s); rt = vm.bv(radix, 32)
            if truth(vm, radix_ok(st, rt)): return ok(z3.Extract(bits - 1, 0, radix_val(st, rt)) if bits < 64 else radix_val(st, rt))
            return err(Adt('ParseIntError', 0, []))
    _mk()


@trait(('*', 'Rem', 'rem'), ('*', 'BitXor', 'bitxor'), ('*', 'BitAnd', 'bitand'), ('*', 'BitOr', 'bitor'), ('*', 'Add', 'add'), ('*', 'Sub', 'sub'), ('*', 'Mul', 'mul'), ('*', 'Div', 'div'), ('*', 'Shl', 'shl'), ('*', 'Shr', 'shr'))
def _(vm, a, ci):
    ty = ci.selfty.lstrip('&')
    x, y = D(vm, a[0]), D(vm, a[1])
    if ty in INT_TYPES and ci.trait in ('Add', 'Sub', 'Mul'):
        r = vm.binop(ci.trait + 'WithOverflow', x, y, ty)
        if truth(vm, r.fields[1]): raise PanicEdge('panic', f'attempt to {ci.method} with overflow')
        return r.fields[0]
    if ty in INT_TYPES and ci.trait in ('Div', 'Rem'):
        if truth(vm, y == 0): raise PanicEdge('panic', 'division by zero')
    return vm.binop(ci.trait, x, y, ty)


@trait(('*', 'Not', 'not'))
def _(vm, a, ci):
    x = D(vm, a[0])
    if isinstance(x, bool): return not x
    if z3.is_bool(x): return z3.Not(x)
    raise Unmodelled('Not on ' + repr(x))


@trait(('*', 'BitXorAssign', 'bitxor_assign'), ('*', 'BitAndAssign', 'bitand_assign'), ('*', 'BitOrAssign', 'bitor_assign'),
       ('*', 'AddAssign', 'add_assign'), ('*', 'SubAssign', 'sub_assign'), ('*', 'MulAssign', 'mul_assign'))
def _(vm, a, ci):
    ty = ci.selfty; op = ci.trait[:-6]
    x, y = vm.ref_get(a[0]), D(vm, a[1])
    if ty in INT_TYPES and op in ('Add', 'Sub', 'Mul'):
        r = vm.binop(op + 'WithOverflow', x, y, ty)
        if truth(vm, r.fields[1]): raise PanicEdge('panic', f'attempt to {op.lower()} with overflow')
        vm.ref_set(a[0], r.fields[0]); return UNIT
    vm.ref_set(a[0], vm.binop(op, x, y, ty)); return UNIT


def _int_sum(t):
    @trait((t, 'Sum', 'sum'))
    def _(vm, a, ci):
        from .std_iter import it_next
        acc = 0
        while True:
            r = it_next(vm, a[0])
            if r is None: return acc
            s = vm.binop('AddWithOverflow', acc, D(vm, r[0]), t)
            if truth(vm, s.fields[1]): raise PanicEdge('panic', 'attempt to add with overflow (Iterator::sum)')
            acc = s.fields[0]


for _t in ('usize', 'u32', 'u64', 'isize', 'i32', 'i64'): _int_sum(_t)
