"""str / String / char models.  Opaque strings (SymStr) use z3's sequence theory + uninterpreted parse/format;
bounded strings (BStr) run as ordinary loops over symbolic code points."""
import re, math
import z3
from .mir import type_head
from .values import *
from .strings import *
from .std import path, path_rx, trait, some, NONE, ok, err, D, D1, conc, truth, call_trait, tyarg, char_string
from .std_iter import It, it_next, drain, into_iter, obj
from . import chartab


def S(vm, v):
    """string value behind any number of references / Rc / String wrappers"""
    while True:
        if isinstance(v, Ref): v = vm.ref_get(v)
        elif isinstance(v, RcVal): v = v.box.cell.v
        elif isinstance(v, Adt) and v.ty == 'Cow': v = v.fields[0]
        elif isinstance(v, Adt) and v.ty == 'Box': v = vm.ref_get(vm.box_ptr(v))
        else: break
    if not isinstance(v, (SymStr, BStr)): raise Unmodelled(f'string? {v!r}')
    return v


def str_concat(vm, a, b):
    if isinstance(a, BStr) and isinstance(b, BStr) and (getattr(vm, 'str_mode', 'opaque') == 'bounded' or a.concrete() is None or b.concrete() is None):
        from .std_iter import _widths
        return BStr(Buf(a.chars() + b.chars(), _widths(a) + _widths(b)))
    return SymStr(z3.simplify(z3.Concat(to_sym(a), to_sym(b))))


def parse_f64(vm, s):
    """str::parse::<f64>: concrete text is parsed by the host (same grammar as Rust's: Python float() minus a few forms);
    symbolic text goes through the uninterpreted pair (parse_ok, parse_val)"""
    if isinstance(s, BStr) and s.concrete() is not None: txt = s.concrete()
    elif isinstance(s, SymStr) and z3.is_string_value(z3.simplify(s.term)): txt = zstr(z3.simplify(s.term))
    else: txt = None
    if txt is not None:
        v = rust_parse_f64(txt)
        return ok(v) if v is not None else err(Adt('ParseFloatError', 0, []))
    if isinstance(s, BStr):
        h = getattr(vm, 'parse_f64_hook', None)
        if h is not None: return h(vm, s)
        # characters drawn from small finite domains: split on their values (solver-checked forks) and parse the text
        cs = s.chars()
        if all(isinstance(c, int) or (vm.domains.get(c.get_id()) is not None and len(vm.domains[c.get_id()]) <= 8) for c in cs):
            txt = ''.join(chr(c if isinstance(c, int) else vm.concretize(c)) for c in cs)
            v = rust_parse_f64(txt)
            return ok(v) if v is not None else err(Adt('ParseFloatError', 0, []))
        # uninterpreted per (buffer, span): functional within one path
        key = (s.buf.id, s.start, s.end)
        okv = z3.Bool(f'parse_ok@{key}'); val = z3.FP(f'parse_val@{key}', F64)
        if s.nbytes() == 0: return err(Adt('ParseFloatError', 0, []))
        return ok(val) if truth(vm, okv) else err(Adt('ParseFloatError', 0, []))
    t = s.term
    if truth(vm, parse_ok(t)): return ok(parse_val(t))
    return err(Adt('ParseFloatError', 0, []))


_RUST_FLOAT = re.compile(r'[+-]?(?:(?:[0-9]+\.?[0-9]*|\.[0-9]+)(?:[eE][+-]?[0-9]+)?|inf|infinity|nan)', re.I)      # ASCII digits only (\d would admit other Unicode digits, which Python's float() parses and Rust rejects)


def rust_parse_f64(txt):
    if not _RUST_FLOAT.fullmatch(txt): return None
    try: return float(txt)
    except ValueError: return None


@path('<impl str>::parse')
def _(vm, a, ci):
    ty = ci.fnargs[0]
    s = S(vm, a[0])
    if ty == 'f64': return parse_f64(vm, s)
    raise Unmodelled('str::parse::<' + ty + '>')


@trait(('f64', 'FromStr', 'from_str'))
def _(vm, a, ci): return parse_f64(vm, S(vm, a[0]))


def fmt_float(vm, x):
    if isinstance(x, float): return const_str(vm, rust_fmt_f64(x))
    if getattr(vm, 'str_mode', 'opaque') == 'bounded':
        h = getattr(vm, 'fmt_f64_hook', None)
        if h is not None: return h(vm, x)
        # no hook: the rendering stays an opaque term; concatenation with bounded text degrades to an opaque string
    return SymStr(fmt_f64(x))


def rust_fmt_f64(x):
    """Rust's `{}` for f64: shortest round-trip digits, never scientific notation"""
    if x != x: return 'NaN'
    if math.isinf(x): return 'inf' if x > 0 else '-inf'
    r = repr(x)
    if 'e' in r or 'E' in r:
        from decimal import Decimal
        r = format(Decimal(r), 'f')
    if r.endswith('.0'): r = r[:-2]
    return r


@trait(('ToString', 'to_string'))
def _(vm, a, ci):
    ty = ci.selfty; v = D(vm, a[0])
    if ty == 'f64': return fmt_float(vm, v)
    if ty in ('str', 'String', '&str'): return S(vm, v)
    if ty == 'char': return char_string(vm, v)
    if ty in INT_TYPES and isinstance(v, int): return const_str(vm, str(v))
    if ty == 'bool' and isinstance(v, bool): return const_str(vm, 'true' if v else 'false')
    # any Display type of the crate: run its fmt into a collecting formatter
    from .std_fmt import display_to_string
    return display_to_string(vm, ty, a[0])


@path('String::new')
def _(vm, a, ci): return const_str(vm, '')


@path('String::with_capacity')
def _(vm, a, ci): return const_str(vm, '')


@path('String::push_str')
def _(vm, a, ci):
    vm.ref_set(a[0], str_concat(vm, S(vm, a[0]), S(vm, a[1]))); return UNIT


@path('String::push')
def _(vm, a, ci):
    c = a[1]
    cur = S(vm, a[0])
    if isinstance(cur, BStr) and not isinstance(c, int):
        raise Unmodelled('String::push of a symbolic char onto a bounded string')
    vm.ref_set(a[0], str_concat(vm, cur, char_string(vm, c))); return UNIT


@path('String::as_str', 'String::as_mut_str', 'String::into_boxed_str', 'String::leak', '<impl str>::to_string', '<impl str>::to_owned',
      'String::from_utf8_unchecked', '<impl str>::into_string', 'String::as_bytes', '<impl str>::as_bytes', '<impl str>::as_ref')
def _(vm, a, ci):
    v = a[0]
    if isinstance(v, Adt) and v.ty == 'Vec': return _bytes_to_str(vm, v)
    return S(vm, v)


def _bytes_to_str(vm, v):
    bs = v.fields[0].items
    if all(isinstance(b, int) for b in bs):
        try: return const_str(vm, bytes(bs).decode('utf-8'))
        except UnicodeDecodeError: raise PanicEdge('ub', 'from_utf8_unchecked on invalid UTF-8')
    if all(isinstance(b, int) or z3.is_bv(b) for b in bs):
        # symbolic bytes: must all be ASCII for this to be valid UTF-8 char-per-byte
        for b in bs:
            if not isinstance(b, int) and truth(vm, z3.UGE(b, 0x80)): raise PanicEdge('ub', 'from_utf8_unchecked on possibly invalid UTF-8')
        return BStr(Buf([b if isinstance(b, int) else z3.ZeroExt(24, b) for b in bs], [1] * len(bs)))
    raise Unmodelled('from_utf8 of ' + repr(bs))


@path('String::len', '<impl str>::len')
def _(vm, a, ci): return str_len(vm, S(vm, a[0]))


@path('String::is_empty', '<impl str>::is_empty')
def _(vm, a, ci): return str_is_empty(vm, S(vm, a[0]))


@path('<impl str>::rsplit_once', '<impl str>::replace', '<impl str>::replacen', '<impl str>::split_at', '<impl str>::eq_ignore_ascii_case', '<impl str>::repeat')
def _(vm, a, ci):
    m = ci.method
    s = _bounded(vm, S(vm, a[0]))
    items = s.chars(); n = len(items)
    if m == 'split_at':
        k = a[1]
        if not isinstance(k, int): raise Unmodelled('split_at with a symbolic index')
        if not s.is_boundary(k): raise PanicEdge('panic', f'str::split_at({k}): not a char boundary of a {s.nbytes()}-byte string')
        return tup(s.sub(0, k), s.sub(k, s.nbytes()))
    if m == 'repeat':
        k = a[1]
        if not isinstance(k, int): raise Unmodelled('str::repeat with a symbolic count')
        from .std_iter import _widths
        return BStr(Buf(items * k, _widths(s) * k))
    if m == 'eq_ignore_ascii_case':
        o = _bounded(vm, S(vm, a[1])); oi = o.chars()
        if len(oi) != n: return False
        for x, y in zip(items, oi):
            lx = chartab.case_map(vm, x, True, True)[0]; ly = chartab.case_map(vm, y, True, True)[0]
            if not truth(vm, lx == ly if (is_sym(lx) or is_sym(ly)) else lx == ly): return False
        return True
    pk, pv = _pat_chars(vm, a[1], ci)
    if m == 'rsplit_once':
        for i in range(n, -1, -1):
            k = _match_at(vm, items, i, pk, pv)
            if k is not None: return some(tup(_view(s, 0, i), _view(s, i + k, n)))
        return NONE()
    # replace / replacen: non-overlapping matches left to right
    rep = _bounded(vm, S(vm, a[2])); limit = a[3] if m == 'replacen' else None
    from .std_iter import _widths
    ws = _widths(s); rcs, rws = rep.chars(), _widths(rep)
    out_c, out_w, i, done = [], [], 0, 0
    while i <= n:
        k = _match_at(vm, items, i, pk, pv) if (limit is None or done < limit) else None
        if k is not None and (k > 0 or i < n or True):
            out_c += rcs; out_w += rws; done += 1
            if k == 0:
                if i < n: out_c.append(items[i]); out_w.append(ws[i])
                i += 1
            else: i += k
        else:
            if i < n: out_c.append(items[i]); out_w.append(ws[i])
            i += 1
    return BStr(Buf(out_c, out_w))


@path('String::insert', 'String::insert_str', 'String::remove', 'String::split_off')
def _(vm, a, ci):
    m = ci.method
    s = _bounded(vm, S(vm, a[0])); k = a[1]
    if not isinstance(k, int): raise Unmodelled(f'String::{m} with a symbolic index')
    if not s.is_boundary(k) or (m == 'remove' and k >= s.nbytes()): raise PanicEdge('panic', f'String::{m}({k}): not a char boundary / out of range of a {s.nbytes()}-byte string')
    from .std_iter import _widths
    left, right = s.sub(0, k), s.sub(k, s.nbytes())
    if m == 'split_off': vm.ref_set(a[0], left); return right
    if m == 'remove':
        c = right.chars()[0]; w = _widths(right)[0]
        vm.ref_set(a[0], str_concat(vm, left, right.sub(w, right.nbytes()))); return c
    ins = char_string(vm, a[2]) if (isinstance(a[2], int) or is_sym(a[2])) else _bounded(vm, S(vm, a[2]))
    vm.ref_set(a[0], str_concat(vm, str_concat(vm, left, ins), right)); return UNIT


@path('<impl str>::bytes')
def _(vm, a, ci):
    """UTF-8 bytes: exact for concrete characters and for symbolic single-byte (ASCII) characters; the bytes of a symbolic
    multi-byte character are fresh values >= 0x80 (sound for ASCII / non-ASCII tests, which is what byte loops over text do)"""
    s = _bounded(vm, S(vm, a[0])); out = []
    from .std_iter import _widths
    for c, w in zip(s.chars(), _widths(s)):
        if isinstance(c, int): out += list(chr(c).encode('utf-8'))
        elif w == 1: out.append(z3.Extract(7, 0, c))
        else:
            for k in range(w):
                b = z3.BitVec(vm.fresh('byte'), 8); vm.assume(z3.UGE(b, 0x80)); vm.keep.append(b); out.append(b)
    return It('list', out, 0)


@path('str::from_utf8', 'core::str::from_utf8', 'std::str::from_utf8', 'from_utf8', 'str::converts::from_utf8', 'String::from_utf8')
def _(vm, a, ci):
    v = a[0]
    while isinstance(v, Ref): v = vm.ref_get(v)
    if isinstance(v, (BStr, SymStr)): return ok(v)             # a byte view of text the VM holds as characters: valid by construction
    if isinstance(v, Adt) and v.ty == 'Vec': return ok(_bytes_to_str(vm, v))
    raise Unmodelled(f'from_utf8 of {v!r}'[:100])


@path_rx(r'ArrayString(?:::<[^>]*>)?::(?:new|new_const|push|try_push|push_str|try_push_str|as_str|len|is_empty|clear|capacity|is_full|remaining_capacity|pop|truncate|from)$')
def _(vm, a, ci):
    """arrayvec::ArrayString<CAP>: a string with a byte capacity; push / push_str panic (unwrap of CapacityError) when it does not fit"""
    m = ci.method
    mcap = re.search(r'ArrayString(?:::)?<(\d+)', (ci.callee or '') + ' ' + (ci.selfty or ''))
    if m in ('new', 'new_const'):
        if not mcap: raise Unmodelled('ArrayString capacity not visible in ' + str(ci.callee))
        return Adt('ArrayString', 0, [const_str(vm, ''), int(mcap.group(1))])
    r = a[0]
    v = r
    while isinstance(v, Ref): v = vm.ref_get(v)
    if not (isinstance(v, Adt) and v.ty == 'ArrayString'): raise Unmodelled(f'ArrayString? {v!r}'[:100])
    cur, cap = v.fields[0], v.fields[1]
    if m == 'as_str': return cur
    if m == 'len': return str_len(vm, cur)
    if m == 'is_empty': return str_is_empty(vm, cur)
    if m == 'capacity': return cap
    if m == 'remaining_capacity': return cap - str_len(vm, cur)
    if m == 'is_full': return str_len(vm, cur) >= cap
    if m == 'clear': v.fields[0] = const_str(vm, ''); return UNIT
    if m in ('push', 'try_push', 'push_str', 'try_push_str'):
        add_ = char_string(vm, a[1]) if m in ('push', 'try_push') else S(vm, a[1])
        new = str_concat(vm, cur, add_)
        n = str_len(vm, new)
        if not isinstance(n, int): raise Unmodelled('ArrayString push with a symbolic byte length')
        if n > cap:
            if m.startswith('try_'): return err(Adt('CapacityError', 0, [a[1]]))
            raise PanicEdge('panic', f'ArrayString::{m}: called `Result::unwrap()` on an `Err` value: CapacityError (insufficient capacity: {n} bytes into {cap})')
        v.fields[0] = new
        return ok(UNIT) if m.startswith('try_') else UNIT
    if m == 'pop':
        b = _bounded(vm, cur); cs = b.chars()
        if not cs: return NONE()
        v.fields[0] = _view(b, 0, len(cs) - 1); return some(cs[-1])
    if m == 'truncate':
        b = _bounded(vm, cur)
        if a[1] < b.nbytes():
            if not b.is_boundary(a[1]): raise PanicEdge('panic', 'ArrayString::truncate: not a char boundary')
            v.fields[0] = b.sub(0, a[1])
        return UNIT
    raise Unmodelled('ArrayString::' + m)


@trait(('ArrayString', 'Deref', 'deref'), ('ArrayString', 'AsRef', 'as_ref'), ('ArrayString', 'Borrow', 'borrow'))
def _(vm, a, ci):
    v = a[0]
    while isinstance(v, Ref): v = vm.ref_get(v)
    return v.fields[0]


@path('String::truncate')
def _(vm, a, ci):
    cur = S(vm, a[0]); n = a[1]
    s = _bounded(vm, cur)
    if not isinstance(n, int): raise Unmodelled('String::truncate with a symbolic length')
    if n >= s.nbytes(): return UNIT
    if not s.is_boundary(n): raise PanicEdge('panic', f'String::truncate({n}): not a char boundary')
    vm.ref_set(a[0], s.sub(0, n)); return UNIT


@path('String::clear')
def _(vm, a, ci): vm.ref_set(a[0], const_str(vm, '')); return UNIT


@trait(('String', 'Add', 'add'))
def _(vm, a, ci): return str_concat(vm, S(vm, a[0]), S(vm, a[1]))


@trait(('String', 'AddAssign', 'add_assign'))
def _(vm, a, ci): vm.ref_set(a[0], str_concat(vm, S(vm, a[0]), S(vm, a[1]))); return UNIT


@trait(('String', 'FromStr', 'from_str'))
def _(vm, a, ci): return ok(S(vm, a[0]))


@path('<impl str>::chars')
def _(vm, a, ci):
    s = S(vm, a[0])
    if isinstance(s, SymStr):
        t = z3.simplify(s.term)
        if z3.is_string_value(t) and getattr(vm, 'str_mode', 'opaque') != 'opaque!':
            # keep opaque so that chain/collect stays in the sequence theory; element-wise use converts on demand
            return It('symchars', s)
        return It('symchars', s)
    return It('chars', s, 0)


def as_bounded_iter(vm, it):
    """element-wise use of an opaque char iterator is only possible for concrete text"""
    if isinstance(it, It) and it.kind == 'symchars':
        t = z3.simplify(it.a[0].term)
        if z3.is_string_value(t):
            it.kind = 'chars'; it.a[:] = [bstr_from_py(zstr(t)), 0]
        else:
            raise Unmodelled('element-wise iteration over an opaque symbolic string')
    return it


@path('<impl str>::char_indices')
def _(vm, a, ci):
    s = S(vm, a[0])
    if isinstance(s, SymStr):
        t = z3.simplify(s.term)
        if not z3.is_string_value(t): raise Unmodelled('char_indices over an opaque symbolic string')
        s = bstr_from_py(zstr(t))
    return CharIdx(s)


@path('CharIndices::as_str', 'Chars::as_str')
def _(vm, a, ci):
    c = obj(vm, a[0])
    if isinstance(c, CharIdx): return BStr(c.s.buf, c.pos, c.back)
    if isinstance(c, It) and c.kind == 'chars':
        s = c.a[0]; cs = s.chars(); b = s.buf
        i0 = b.cidx(s.start) + c.a[1]
        return BStr(b, b.offs[i0] if i0 < len(b.cps) else b.nbytes, s.end)
    raise Unmodelled('as_str on ' + repr(c))


@path('CharIndices::offset')
def _(vm, a, ci):
    c = obj(vm, a[0]); return c.pos - c.base


def _bounded(vm, s):
    if isinstance(s, BStr): return s
    t = z3.simplify(s.term)
    if z3.is_string_value(t): return bstr_from_py(zstr(t))
    raise Unmodelled('bounded view of an opaque symbolic string')


def _pat_chars(vm, pat, ci):
    """pattern argument: &str / String / char / closure / &[char]"""
    if isinstance(pat, int) or is_sym(pat): return ('char', pat)
    if isinstance(pat, (Closure, FnItem, HostFn)): return ('pred', pat)
    p = pat
    while isinstance(p, Ref): p = vm.ref_get(p)
    if isinstance(p, (Closure, FnItem)): return ('pred', p)
    if isinstance(p, (SymStr, BStr, RcVal)): return ('str', _bounded(vm, S(vm, p)))
    if isinstance(p, (HList, SliceRef)):
        from .std import list_items
        return ('set', list_items(vm, p))
    raise Unmodelled('pattern ' + repr(pat))


def _ceq(c, d):
    if isinstance(c, int) and isinstance(d, int): return c == d
    return c == d


def _match_at(vm, items, i, pk, pv):
    """does the pattern match starting at char index i of items?  returns number of chars matched or None (forks)"""
    if pk == 'char':
        return 1 if i < len(items) and truth(vm, _ceq(items[i], pv)) else None
    if pk == 'pred':
        return 1 if i < len(items) and truth(vm, vm.call_value(pv, [items[i]])) else None
    if pk == 'set':
        if i >= len(items): return None
        for d in pv:
            if truth(vm, _ceq(items[i], d)): return 1
        return None
    pcs = pv.chars()
    if i + len(pcs) > len(items): return None
    for k, d in enumerate(pcs):
        if not truth(vm, _ceq(items[i + k], d)): return None
    return len(pcs)


def _view(s, ci0, ci1):
    """sub-BStr of s covering chars [ci0, ci1) of s"""
    b = s.buf; base = b.cidx(s.start)
    def off(k): return b.offs[base + k] if base + k < len(b.cps) else b.nbytes
    return BStr(b, off(ci0), off(ci1))


@path('<impl str>::starts_with', '<impl str>::ends_with', '<impl str>::strip_prefix', '<impl str>::strip_suffix', '<impl str>::contains',
      '<impl str>::find', '<impl str>::rfind', '<impl str>::trim_end_matches', '<impl str>::trim_start_matches', '<impl str>::trim_matches',
      '<impl str>::split_once', '<impl str>::matches')
def _(vm, a, ci):
    m = ci.method
    s0 = S(vm, a[0])
    if isinstance(s0, SymStr) and not z3.is_string_value(z3.simplify(s0.term)):
        # opaque subject: only whole-string patterns in the sequence theory
        p = a[1]
        pt = to_sym(S(vm, p)) if not (isinstance(p, int) or is_sym(p)) else (zs(chr(p)) if isinstance(p, int) else char_to_str(p))
        if m == 'starts_with': return z3.PrefixOf(pt, s0.term)
        if m == 'ends_with':
            if z3.is_string_value(z3.simplify(pt)) and zstr(z3.simplify(pt)) == '\n':
                r = _ends_with_newline(vm, z3.simplify(s0.term))
                if r is not None: return r
            return z3.SuffixOf(pt, s0.term)
        if m == 'contains': return z3.Contains(s0.term, pt)
        raise Unmodelled(f'str::{m} on an opaque symbolic string')
    s = _bounded(vm, s0)
    pk, pv = _pat_chars(vm, a[1], ci)
    items = s.chars(); n = len(items)
    if m == 'starts_with': return _match_at(vm, items, 0, pk, pv) is not None
    if m == 'strip_prefix':
        k = _match_at(vm, items, 0, pk, pv)
        return some(_view(s, k, n)) if k is not None else NONE()
    if m in ('ends_with', 'strip_suffix'):
        plen = len(pv.chars()) if pk == 'str' else 1
        k = _match_at(vm, items, n - plen, pk, pv) if n >= plen else None
        if m == 'ends_with': return k is not None
        return some(_view(s, 0, n - plen)) if k is not None else NONE()
    if m in ('contains', 'find'):
        if pk == 'str' and not pv.chars():
            return True if m == 'contains' else some(0)
        for i in range(n):
            if _match_at(vm, items, i, pk, pv) is not None:
                return True if m == 'contains' else some(_view(s, 0, i).nbytes())
        return False if m == 'contains' else NONE()
    if m == 'rfind':
        if pk == 'str' and not pv.chars(): return some(s.nbytes())          # the empty pattern matches at the very end
        for i in range(n - 1, -1, -1):
            if _match_at(vm, items, i, pk, pv) is not None: return some(_view(s, 0, i).nbytes())
        return NONE()
    if m in ('trim_end_matches', 'trim_matches', 'trim_start_matches'):
        lo, hi = 0, n
        if pk == 'str':
            plen = len(pv.chars())
            if plen == 0: return s
            if m != 'trim_end_matches':
                while lo + plen <= hi and _match_at(vm, items, lo, pk, pv) is not None: lo += plen
            if m != 'trim_start_matches':
                while hi - plen >= lo and _match_at(vm, items[:hi], hi - plen, pk, pv) is not None: hi -= plen
        else:
            if m != 'trim_end_matches':
                while lo < hi and _match_at(vm, items, lo, pk, pv) is not None: lo += 1
            if m != 'trim_start_matches':
                while hi > lo and _match_at(vm, items, hi - 1, pk, pv) is not None: hi -= 1
        return _view(s, lo, hi)
    if m == 'matches':
        out = []; i = 0
        while i < n:
            k = _match_at(vm, items, i, pk, pv)
            if k is not None and k > 0: out.append(_view(s, i, i + k)); i += k
            else: i += 1
        return It('list', out, 0)
    if m == 'split_once':
        for i in range(n + 1 if (pk == 'str' and not pv.chars()) else n):
            k = _match_at(vm, items, i, pk, pv)
            if k is not None: return some(tup(_view(s, 0, i), _view(s, i + k, n)))
        return NONE()
    raise Unmodelled('str::' + m)


def _ends_with_newline(vm, t):
    """syntactic decision of `t ends with a line feed` for terms built from literals and harness strings registered as
    free of line feeds (vm.no_newline: set of term ids) -- keeps z3's sequence solver out of the feasibility checks"""
    no_nl = getattr(vm, 'no_newline', {})
    if z3.is_string_value(t): return zstr(t).endswith('\n')
    if t.get_id() in no_nl: return False
    if t.decl().kind() == z3.Z3_OP_SEQ_CONCAT:
        for i in range(t.num_args() - 1, -1, -1):
            a = t.arg(i)
            if z3.is_string_value(a):
                if zstr(a) == '': continue
                return zstr(a).endswith('\n')
            if a.get_id() in no_nl:
                return None if True else False      # a registered string may be empty: the decision then rests on what precedes it
            return None
    return None


@path('<impl str>::trim', '<impl str>::trim_start', '<impl str>::trim_end')
def _(vm, a, ci):
    s = _bounded(vm, S(vm, a[0])); items = s.chars(); lo, hi = 0, len(items)
    if ci.method != 'trim_end':
        while lo < hi and truth(vm, chartab.is_whitespace(items[lo])): lo += 1
    if ci.method != 'trim_start':
        while hi > lo and truth(vm, chartab.is_whitespace(items[hi - 1])): hi -= 1
    return _view(s, lo, hi)


@path('<impl str>::split', '<impl str>::split_terminator', '<impl str>::splitn', '<impl str>::rsplit')
def _(vm, a, ci):
    s = _bounded(vm, S(vm, a[0]))
    if ci.method == 'splitn': pk, pv = _pat_chars(vm, a[2], ci); limit = a[1]
    else: pk, pv = _pat_chars(vm, a[1], ci); limit = None
    if ci.method == 'rsplit':
        it = It('split', s, 0, pk, pv, False, None, False)
        parts = drain(vm, it); return It('list', parts[::-1], 0)
    return It('split', s, 0, pk, pv, False, limit, ci.method == 'split_terminator')


def split_next(vm, it):
    s, pos, pk, pv, done, limit, term = it.a
    if done: return None
    items = s.chars(); n = len(items)
    if limit is not None:
        if limit == 0: it.a[4] = True; return None
        if limit == 1: it.a[4] = True; return (_view(s, pos, n),)
        it.a[5] = limit - 1
    if pk == 'str' and not pv.chars():
        # empty pattern: matches at every boundary (std semantics: "", c1, c2, ..., "")
        raise Unmodelled('split with an empty pattern')
    i = pos
    while i < n:
        k = _match_at(vm, items, i, pk, pv)
        if k is not None:
            it.a[1] = i + k; return (_view(s, pos, i),)
        i += 1
    it.a[4] = True
    if term and pos == n: return None
    return (_view(s, pos, n),)


import mirsym.std_iter as _si
_si.split_next = split_next


@path('<impl str>::lines')
def _(vm, a, ci):
    s = _bounded(vm, S(vm, a[0])); items = s.chars(); out = []; start = 0
    for i, c in enumerate(items):
        if truth(vm, _ceq(c, 10)):
            end = i
            if end > start and truth(vm, _ceq(items[end - 1], 13)): end -= 1
            out.append(_view(s, start, end)); start = i + 1
    if start < len(items): out.append(_view(s, start, len(items)))
    return It('list', out, 0)


@path('<impl str>::to_lowercase', '<impl str>::to_uppercase', '<impl str>::to_ascii_lowercase', '<impl str>::to_ascii_uppercase')
def _(vm, a, ci):
    s0 = S(vm, a[0])
    if isinstance(s0, SymStr) and not z3.is_string_value(z3.simplify(s0.term)):
        raise Unmodelled('case mapping of an opaque symbolic string')
    s = _bounded(vm, s0)
    lower = 'lower' in ci.method; ascii_only = 'ascii' in ci.method
    cps, ws = [], []
    from .std_iter import _widths
    for c, w in zip(s.chars(), _widths(s)):
        for d in chartab.case_map(vm, c, lower, ascii_only):
            cps.append(d); ws.append(utf8_len(d) if isinstance(d, int) else w)
    out = BStr(Buf(cps, ws))
    if getattr(vm, 'str_mode', 'opaque') != 'bounded' and out.concrete() is not None: return const_str(vm, out.concrete())
    return out


@path('<impl str>::is_char_boundary')
def _(vm, a, ci):
    s = _bounded(vm, S(vm, a[0])); i = a[1]
    if not isinstance(i, int): raise Unmodelled('is_char_boundary with symbolic index')
    return s.is_boundary(i)


@path('<impl str>::is_ascii')
def _(vm, a, ci):
    s = _bounded(vm, S(vm, a[0]))
    for c in s.chars():
        if not truth(vm, (c < 128) if isinstance(c, int) else z3.ULT(c, 128)): return False
    return True


def slice_str(vm, s, r, unchecked=False, optional=False):
    s = _bounded(vm, s); n = s.nbytes()
    from .std_coll import _range_bounds
    lo, hi = _range_bounds(r, n)
    if not isinstance(lo, int) or not isinstance(hi, int): raise Unmodelled('string slice with symbolic bounds')
    good = 0 <= lo <= hi <= n and s.is_boundary(lo) and s.is_boundary(hi)
    if not good:
        if optional: return None
        what = f'str slice {lo}..{hi} of a {n}-byte string' + ('' if 0 <= lo <= hi <= n else ' (out of range)') + ('' if not (0 <= lo <= hi <= n) or (s.is_boundary(lo) and s.is_boundary(hi)) else ' (not a char boundary)')
        raise PanicEdge('ub' if unchecked else 'panic', ('get_unchecked: ' if unchecked else '') + what)
    return s.sub(lo, hi)


@path('<impl str>::get', '<impl str>::get_mut')
def _(vm, a, ci):
    r = slice_str(vm, S(vm, a[0]), a[1], optional=True)
    return NONE() if r is None else some(r)


@path('<impl str>::get_unchecked', '<impl str>::get_unchecked_mut')
def _(vm, a, ci): return slice_str(vm, S(vm, a[0]), a[1], unchecked=True)


@trait(('str', 'Index', 'index'), ('String', 'Index', 'index'), ('str', 'IndexMut', 'index_mut'))
def _(vm, a, ci): return slice_str(vm, S(vm, a[0]), a[1])


@trait(('*', 'SliceIndex', 'index'), ('*', 'SliceIndex', 'get_unchecked'), ('*', 'SliceIndex', 'get'), ('*', 'SliceIndex', 'index_mut'))
def _(vm, a, ci):
    tgt = a[1]
    t2 = tgt
    while isinstance(t2, Ref): t2 = vm.ref_get(t2)
    if isinstance(t2, (SymStr, BStr)):
        if ci.method == 'get':
            r = slice_str(vm, t2, a[0], optional=True); return NONE() if r is None else some(r)
        return slice_str(vm, t2, a[0], unchecked=ci.method == 'get_unchecked')
    from .std_coll import slice_of, _range_bounds
    s = slice_of(vm, tgt); n = s.end - s.start
    i = a[0]
    if isinstance(i, Adt):
        lo, hi = _range_bounds(i, n)
        if not (0 <= lo <= hi <= n):
            if ci.method == 'get': return NONE()
            raise PanicEdge('ub' if ci.method == 'get_unchecked' else 'panic', f'slice index {lo}..{hi} out of range for length {n}')
        r = SliceRef(s.ref, s.start + lo, s.start + hi)
        return some(r) if ci.method == 'get' else r
    raise Unmodelled('SliceIndex with ' + repr(i))


@path('<impl str>::as_ptr')
def _(vm, a, ci):
    s = _bounded(vm, S(vm, a[0]))
    from .std_coll import _bufcell
    return Ref(_bufcell(s.buf), (), s.start)


@path_rx(r'(?:ptr::)?(?:const_ptr::|mut_ptr::)?<impl \*(?:const|mut) \w+>::(offset_from|offset_from_unsigned|sub_ptr|add|sub|offset|is_null|cast|addr)')
def _(vm, a, ci):
    m = ci.method; p = a[0]
    if m in ('offset_from', 'offset_from_unsigned', 'sub_ptr'):
        q = a[1]
        if p.cell is not q.cell: raise PanicEdge('ub', 'offset_from between different allocations')
        return p.off - q.off
    if m == 'add': return Ref(p.cell, p.path, p.off + a[1])
    if m == 'sub': return Ref(p.cell, p.path, p.off - a[1])
    if m == 'offset': return Ref(p.cell, p.path, p.off + a[1])
    if m == 'is_null': return False
    if m == 'cast': return p
    if m == 'addr': return p.cell.addr + p.off
    raise Unmodelled('ptr method ' + m)


@path('Range::contains', 'RangeInclusive::contains')
def _(vm, a, ci):
    r = D(vm, a[0]); x = D1(vm, a[1])
    lo, hi = r.fields[0], r.fields[1]
    if isinstance(x, Ref):
        if x.cell is not lo.cell: return False
        x, lo, hi = x.off, lo.off, hi.off
    if isinstance(x, (int, float)) and isinstance(lo, (int, float)) and isinstance(hi, (int, float)):
        return lo <= x < hi if r.ty == 'Range' else lo <= x <= hi
    ty = tyarg(ci)
    if ty == 'f64' or z3.is_fp(x):
        return z3.And(vm.fbinop('Le', lo, x), vm.fbinop('Lt' if r.ty == 'Range' else 'Le', x, hi))
    sg = INT_TYPES.get(ty, (64, False))[1]
    ge = vm.binop('Ge', x, lo, ty); lt = vm.binop('Lt' if r.ty == 'Range' else 'Le', x, hi, ty)
    if isinstance(ge, bool) and isinstance(lt, bool): return ge and lt
    return z3.And(ge if not isinstance(ge, bool) else z3.BoolVal(ge), lt if not isinstance(lt, bool) else z3.BoolVal(lt))


# ---- char
@path_rx(r'<impl u8>::(is_ascii\w*|to_ascii_lowercase|to_ascii_uppercase|eq_ignore_ascii_case|is_utf8_char_boundary)')
def _(vm, a, ci):
    """u8 ASCII predicates / case maps: the byte is widened to a code point and judged by the ASCII part of the char tables"""
    m = ci.method; b = D(vm, a[0])
    def wide(x): return x if isinstance(x, int) else z3.ZeroExt(24, x) if x.size() == 8 else x
    c = wide(b)
    if m == 'is_utf8_char_boundary': return (b < 128 or b >= 192) if isinstance(b, int) else z3.Or(z3.ULT(c, 128), z3.UGE(c, 192))
    if m in ('to_ascii_lowercase', 'to_ascii_uppercase'):
        r = chartab.case_map(vm, c, 'lower' in m, True)[0]
        return r if isinstance(r, int) else z3.Extract(7, 0, r)
    if m == 'eq_ignore_ascii_case':
        d = wide(D(vm, a[1]))
        return _ceq(chartab.case_map(vm, c, True, True)[0], chartab.case_map(vm, d, True, True)[0])
    f = getattr(chartab, m, None)
    if f is None: raise Unmodelled('u8::' + m)
    return f(c)


@path_rx(r'(?:char::methods::)?<impl char>::(is_\w+|to_ascii_lowercase|to_ascii_uppercase|to_lowercase|to_uppercase|len_utf8|to_digit|eq_ignore_ascii_case)')
def _(vm, a, ci):
    m = ci.method; c = D(vm, a[0])
    if m == 'len_utf8':
        if isinstance(c, int): return utf8_len(c)
        return z3.If(z3.ULT(c, 0x80), z3.BitVecVal(1, 64), z3.If(z3.ULT(c, 0x800), z3.BitVecVal(2, 64), z3.If(z3.ULT(c, 0x10000), z3.BitVecVal(3, 64), z3.BitVecVal(4, 64))))
    if m in ('to_lowercase', 'to_uppercase'):
        return It('list', chartab.case_map(vm, c, m == 'to_lowercase', False), 0)
    if m in ('to_ascii_lowercase', 'to_ascii_uppercase'):
        return chartab.case_map(vm, c, 'lower' in m, True)[0]
    if m == 'to_digit':
        radix = a[1]
        if not isinstance(radix, int): raise Unmodelled('to_digit symbolic radix')
        if isinstance(c, int):
            try: d = int(chr(c), 36)
            except ValueError: return NONE()
            return some(d) if d < radix and chr(c).isascii() else NONE()
        for d in range(radix):
            ch = ord('0') + d if d < 10 else None
            conds = [c == ch] if ch is not None else [c == ord('a') + d - 10, c == ord('A') + d - 10]
            if truth(vm, z3.Or(*conds)): return some(d)
        return NONE()
    if m == 'eq_ignore_ascii_case':
        d = D(vm, a[1])
        return _ceq(chartab.case_map(vm, c, True, True)[0], chartab.case_map(vm, d, True, True)[0])
    f = getattr(chartab, m, None)
    if f is None: raise Unmodelled('char::' + m)
    return f(c)


@trait(('char', 'Into', 'into'))
def _(vm, a, ci):
    if ci.targs and ci.targs[0] == 'String': return char_string(vm, a[0])
    if ci.targs and ci.targs[0] in ('u32', 'u64', 'usize'): return a[0] if isinstance(a[0], int) else vm.cast(a[0], ci.targs[0], 'IntToInt', 'u32')
    raise Unmodelled('char into ' + str(ci.targs))


@path('RangeInclusive::new')
def _(vm, a, ci): return Adt('RangeInclusive', 0, [a[0], a[1], False])


@path('RangeInclusive::start', 'RangeInclusive::end')
def _(vm, a, ci):
    r = a[0]; return Ref(r.cell, r.path + (0 if ci.method == 'start' else 1,))


@path('RangeInclusive::into_inner')
def _(vm, a, ci): return tup(a[0].fields[0], a[0].fields[1])
