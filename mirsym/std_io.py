"""Environment model for the interpreter's only channels to the outside world: a Write sink and a BufRead source.
Both are harness-constructed Opaque objects with a fault plan; each call is recorded."""
import z3
from .values import *
from .strings import *
from .std import path, path_rx, trait, some, NONE, ok, err, D, D1, conc, truth
from .std_fmt import new_formatter, render_args, fmt_of, join_parts


def out_stream(fail_at=None, fail_mode='error'):
    """Write sink: data = {'writes': [text values], 'calls': n, 'fail_at': k or None (every call from the k-th on fails),
    'fail_mode': 'error' (the call returns Err) | 'zero' (the stream accepts nothing more: write returns Ok(0), hence
    write_all / write_fmt return Err(WriteZero))}"""
    return Opaque('OutStream', {'writes': [], 'calls': 0, 'fail_at': fail_at, 'fail_mode': fail_mode})


def in_stream(lines, fail_at=None, chunked=False):
    """BufRead source: lines = list of string values *including* their terminator if any; after them: end of input.
    chunked: the first bounded line of >= 2 characters may be delivered in two pieces (fill_buf / consume users see the pieces)"""
    return Opaque('InStream', {'lines': list(lines), 'pos': 0, 'calls': 0, 'fail_at': fail_at, 'chunked': chunked})


def io_error(): return Adt('io::Error', 0, [])


def io_log(vm):
    """order of the calls that reached the two streams on this path: 'out' / 'in'"""
    if not hasattr(vm, 'io_events'): vm.io_events = []
    return vm.io_events


def _unwrap(vm, r):
    """(stream Opaque data, buffering wrapper Adt or None)"""
    v = r; wrapper = None
    for _ in range(8):
        if isinstance(v, Ref): v = vm.ref_get(v)
        elif isinstance(v, Adt) and v.ty in ('BufReader', 'BufWriter', 'LineWriter'):
            if v.ty == 'BufWriter' and wrapper is None: wrapper = v
            v = v.fields[0]
        else: break
    return v, wrapper


def _stream(vm, r, kind):
    v, _ = _unwrap(vm, r)
    if not (isinstance(v, Opaque) and v.kind == kind): raise Unmodelled(f'{kind} expected, got {v!r}')
    return v.data


@path('BufReader::new', 'BufReader::with_capacity', 'BufWriter::new', 'BufWriter::with_capacity', 'LineWriter::new')
def _(vm, a, ci):
    h = ci.selfty.split('<')[0]
    return Adt(h, 0, [a[-1], HList([])] if h == 'BufWriter' else [a[-1]])


def _sink_write(vm, d, text):
    """one call on the real sink; returns True (accepted) / False (fault)"""
    k = d['calls']; d['calls'] += 1
    io_log(vm).append('out')
    if d['fail_at'] is not None and k >= d['fail_at']: return False
    d['writes'].append(text); return True


def _bufwriter_flush(vm, d, w):
    """BufWriter: everything buffered so far reaches the sink in one call (bounded outputs stay below its capacity)"""
    pend = w.fields[1].items
    if not pend: return True
    text = pend[0]
    from .std_str import str_concat
    for p in pend[1:]: text = str_concat(vm, text, p)
    del pend[:]
    return _sink_write(vm, d, text)


@trait(('*', 'Write', 'write_fmt'))
def _(vm, a, ci):
    v, w = _unwrap(vm, a[0])
    if not (isinstance(v, Opaque) and v.kind == 'OutStream'): raise Unmodelled(f'OutStream expected, got {v!r}')
    d = v.data
    fr = new_formatter(); render_args(vm, a[1], fr)
    text = join_parts(vm, fmt_of(vm, fr).parts)
    if w is not None: w.fields[1].items.append(text); return ok(UNIT)
    return ok(UNIT) if _sink_write(vm, d, text) else err(io_error())


def _buf_text(vm, bs):
    from .std_str import _bytes_to_str
    if isinstance(bs, SliceRef): return _bytes_to_str(vm, Adt('Vec', 0, [HList(list(vm.ref_get(bs.ref).items[bs.start:bs.end]))])), bs.end - bs.start
    if isinstance(bs, (SymStr, BStr)):
        try: n = str_len(vm, bs)
        except Unmodelled: n = z3.BitVec(vm.fresh('nbytes'), 64)
        return bs, n
    raise Unmodelled(f'Write::write of {bs!r}'[:120])


@trait(('*', 'Write', 'write_all'), ('*', 'Write', 'write'))
def _(vm, a, ci):
    v, w = _unwrap(vm, a[0])
    if not (isinstance(v, Opaque) and v.kind == 'OutStream'): raise Unmodelled(f'OutStream expected, got {v!r}')
    d = v.data
    text, n = _buf_text(vm, a[1])
    if w is not None:
        w.fields[1].items.append(text); return ok(UNIT) if ci.method == 'write_all' else ok(n)
    if ci.method == 'write' and d['fail_mode'] == 'zero' and d['fail_at'] is not None and d['calls'] >= d['fail_at']:
        d['calls'] += 1; io_log(vm).append('out'); return ok(0)          # the stream accepts nothing more
    if not _sink_write(vm, d, text): return err(io_error())
    return ok(UNIT) if ci.method == 'write_all' else ok(n)


@trait(('*', 'Write', 'flush'))
def _(vm, a, ci):
    v, w = _unwrap(vm, a[0])
    if not (isinstance(v, Opaque) and v.kind == 'OutStream'): raise Unmodelled(f'OutStream expected, got {v!r}')
    if w is not None and not _bufwriter_flush(vm, v.data, w): return err(io_error())
    return ok(UNIT)


@trait(('*', 'BufRead', 'fill_buf'))
def _(vm, a, ci):
    """the reader's buffer holds what one underlying read delivered: a whole line (with its terminator) or -- when the harness
    enables chunking for bounded lines -- a proper prefix of it (fork); calls / the order log count *lines fetched*"""
    d = _stream(vm, a[0], 'InStream')
    if d.get('pending') is None:
        if d.get('rest') is not None:
            d['pending'] = d.pop('rest')
        else:
            k = d['calls']; d['calls'] += 1
            io_log(vm).append('in')
            if d['fail_at'] is not None and k >= d['fail_at']: return err(io_error())
            if d['pos'] >= len(d['lines']): d['pending'] = const_str(vm, '')
            else:
                line = d['lines'][d['pos']]; d['pos'] += 1
                if isinstance(line, BStr) and d.get('chunked') and len(line.chars()) >= 2 and not d.get('chunk_used'):
                    from .std_str import _view
                    n = len(line.chars()); cut = vm.fork(n, note='read-chunk')          # 0: the whole line; k: only its first k characters
                    if cut:
                        d['chunk_used'] = True; d['rest'] = _view(line, cut, n); line = _view(line, 0, cut)
                        vm.io_first_chunk_bytes = line.nbytes()
                d['pending'] = line
    return ok(d['pending'])


@trait(('*', 'BufRead', 'consume'))
def _(vm, a, ci):
    d = _stream(vm, a[0], 'InStream'); n = a[1]
    p = d.get('pending')
    if p is None: return UNIT
    if not isinstance(n, int): raise Unmodelled('BufRead::consume with a symbolic amount')
    total = str_len(vm, p) if isinstance(p, BStr) else None
    if total is None or n >= total: d['pending'] = None
    else: d['pending'] = p.sub(n, total)
    return UNIT


@trait(('*', 'BufRead', 'read_line'))
def _(vm, a, ci):
    d = _stream(vm, a[0], 'InStream')
    from .std_str import S, str_concat
    # text left in the reader's buffer by an earlier fill_buf / consume user comes first (BufReader semantics)
    left = None
    if d.get('pending') is not None: left = d['pending']; d['pending'] = None
    if d.get('rest') is not None:
        r_ = d.pop('rest'); left = r_ if left is None else str_concat(vm, left, r_)
    if left is not None:
        if not isinstance(left, BStr): raise Unmodelled('read_line after a partial consume of an opaque line')
        cs = left.chars()
        vm.ref_set(a[1], str_concat(vm, S(vm, a[1]), left))
        if cs and isinstance(cs[-1], int) and cs[-1] == 10: return ok(left.nbytes())
        # the buffered text has no terminator: the reader asks the stream again (end of input in this model)
        k = d['calls']; d['calls'] += 1
        io_log(vm).append('in')
        if d['fail_at'] is not None and k >= d['fail_at']: return err(io_error())
        if d['pos'] < len(d['lines']): raise Unmodelled('read_line: an unterminated line followed by further input')
        return ok(left.nbytes())
    k = d['calls']; d['calls'] += 1
    io_log(vm).append('in')
    if d['fail_at'] is not None and k >= d['fail_at']: return err(io_error())
    if d['pos'] >= len(d['lines']): return ok(0)
    line = d['lines'][d['pos']]; d['pos'] += 1
    cur = S(vm, a[1])
    vm.ref_set(a[1], str_concat(vm, cur, line))
    try: n = str_len(vm, line)
    except Unmodelled: n = z3.BitVec(vm.fresh('nread'), 64)       # byte count of an opaque line: unconstrained
    return ok(n)


@trait(('io::Error', 'ToString', 'to_string'), ('Error', 'ToString', 'to_string'))
def _(vm, a, ci): return const_str(vm, 'i/o fault')


@path('String::pop')
def _(vm, a, ci):
    from .std_str import S, _bounded, _view
    cur = S(vm, a[0])
    if isinstance(cur, SymStr) and not z3.is_string_value(z3.simplify(cur.term)):
        t = cur.term
        if not vm.branch(z3.Length(t) > 0): return NONE()
        # opaque text: only the terminator case is modelled (the caller has just checked ends_with('\n'))
        if not vm.branch(z3.SuffixOf(zs('\n'), t)): raise Unmodelled('String::pop on an opaque string that does not end in a line feed')
        vm.ref_set(a[0], SymStr(z3.simplify(z3.SubString(t, 0, z3.Length(t) - 1)))); return some(10)
    s = _bounded(vm, cur); cs = s.chars()
    if not cs: return NONE()
    vm.ref_set(a[0], _view(s, 0, len(cs) - 1)); return some(cs[-1])
