"""Environment model for the interpreter's only channels to the outside world: a Write sink and a BufRead source.
Both are harness-constructed Opaque objects with a fault plan; each call is recorded."""
import z3
from .values import *
from .strings import *
from .std import path, path_rx, trait, some, NONE, ok, err, D, D1, conc, truth
from .std_fmt import new_formatter, render_args, fmt_of, join_parts


def out_stream(fail_at=None):
    """Write sink: data = {'writes': [text values], 'calls': n, 'fail_at': k or None (every call from the k-th on fails)}"""
    return Opaque('OutStream', {'writes': [], 'calls': 0, 'fail_at': fail_at})


def in_stream(lines, fail_at=None):
    """BufRead source: lines = list of string values *including* their terminator if any; after them: end of input"""
    return Opaque('InStream', {'lines': list(lines), 'pos': 0, 'calls': 0, 'fail_at': fail_at})


def io_error(): return Adt('io::Error', 0, [])


def _stream(vm, r, kind):
    v = r
    for _ in range(6):
        if isinstance(v, Ref): v = vm.ref_get(v)
        elif isinstance(v, Adt) and v.ty in ('BufReader', 'BufWriter', 'LineWriter'): v = v.fields[0]
        else: break
    if not (isinstance(v, Opaque) and v.kind == kind): raise Unmodelled(f'{kind} expected, got {v!r}')
    return v.data


@path('BufReader::new', 'BufReader::with_capacity', 'BufWriter::new')
def _(vm, a, ci): return Adt(ci.selfty.split('<')[0], 0, [a[-1]])


@trait(('*', 'Write', 'write_fmt'))
def _(vm, a, ci):
    d = _stream(vm, a[0], 'OutStream')
    k = d['calls']; d['calls'] += 1
    if d['fail_at'] is not None and k >= d['fail_at']: return err(io_error())
    fr = new_formatter(); render_args(vm, a[1], fr)
    d['writes'].append(join_parts(vm, fmt_of(vm, fr).parts))
    return ok(UNIT)


@trait(('*', 'Write', 'write_all'), ('*', 'Write', 'write'))
def _(vm, a, ci):
    d = _stream(vm, a[0], 'OutStream')
    k = d['calls']; d['calls'] += 1
    if d['fail_at'] is not None and k >= d['fail_at']: return err(io_error())
    bs = a[1]
    from .std_str import _bytes_to_str
    items = vm.ref_get(bs.ref).items[bs.start:bs.end] if isinstance(bs, SliceRef) else None
    d['writes'].append(_bytes_to_str(vm, Adt('Vec', 0, [HList(list(items))])) if items is not None else bs)
    return ok(UNIT) if ci.method == 'write_all' else ok(len(items) if items is not None else 0)


@trait(('*', 'Write', 'flush'))
def _(vm, a, ci):
    _stream(vm, a[0], 'OutStream'); return ok(UNIT)


@trait(('*', 'BufRead', 'read_line'))
def _(vm, a, ci):
    d = _stream(vm, a[0], 'InStream')
    k = d['calls']; d['calls'] += 1
    if d['fail_at'] is not None and k >= d['fail_at']: return err(io_error())
    if d['pos'] >= len(d['lines']): return ok(0)
    line = d['lines'][d['pos']]; d['pos'] += 1
    from .std_str import S, str_concat
    cur = S(vm, a[1])
    vm.ref_set(a[1], str_concat(vm, cur, line))
    try: n = str_len(vm, line)
    except Unmodelled: n = z3.BitVec(vm.fresh('nread'), 64)       # byte count of an opaque line: unconstrained
    return ok(n)


@trait(('io::Error', 'ToString', 'to_string'), ('Error', 'ToString', 'to_string'))
def _(vm, a, ci): return const_str(vm, 'i/o fault')


@path('String::pop')
def _(vm, a, ci):
    from .std_str import S, _bounded, _view
    cur = S(vm, a[0])
    if isinstance(cur, SymStr) and not z3.is_string_value(z3.simplify(cur.term)):
        t = cur.term
        if not vm.branch(z3.Length(t) > 0): return NONE()
        # opaque text: only the terminator case is modelled (the caller has just checked ends_with('\n'))
        if not vm.branch(z3.SuffixOf(zs('\n'), t)): raise Unmodelled('String::pop on an opaque string that does not end in a line feed')
        vm.ref_set(a[0], SymStr(z3.simplify(z3.SubString(t, 0, z3.Length(t) - 1)))); return some(10)
    s = _bounded(vm, cur); cs = s.chars()
    if not cs: return NONE()
    vm.ref_set(a[0], _view(s, 0, len(cs) - 1)); return some(cs[-1])
