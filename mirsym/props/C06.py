"""C06 — arrays are independent values with queue and dictionary behaviour (kernel level; DESIGN.md §4, C06)."""
import z3
from .common import *
from ..harness import Job, finding, model_of
from ..std import conc
from . import C14, C07

ID = 'C06'
PROFILES = ['dev']
BOUNDS = {'array programs': 'every sequence of <= 3 array statements out of 25 (rock with 0 / 1 / 2 values, roll, roll into, roll as expression, indexed / extending / keyed / null-keyed writes, copy and mutation of the copy, storing an array in an array, passing to a function that mutates its parameter, reads) through the real parser + interpreter against the reference interpreter; all literals symbolic',
          'state': 'an arbitrary Val (every kind; arrays of 0..=3 (quick 2) lazily symbolic scalar elements + 0..=1 dictionary entry) and a clone of it made by the derived Clone (shared Rc)',
          'operation': 'one of index_or_insert+write / push of 0..=2 values / pop / array_coerce / index / decay, applied to the clone',
          'keys': 'every kind; numeric index classes: any double whose `as usize` is < len+2, one mid index (40), any double >= 2^64 (saturates to usize::MAX), any negative double or NaN',
          'strings': 'subject strings for read indexing are bounded (<= 3 characters over {a, b, é}); dictionary keys are opaque strings (all strings)'}
OUTSIDE = ['indices in (len+2, 2^64) other than 40 (resource question: the sequence really is extended that far)', 'nested subscript writes and argument passing (interpreter level)', 'arrays nested deeper than 1']
ASSUMPTIONS = C14.ASSUMPTIONS + ['one inductive step from an arbitrary shared state covers operation histories given the representation invariant "an Rc with strong count > 1 is never written through" (what Rc::make_mut enforces; the step checks it)',
                                 'VecDeque::resize_with panics with "capacity overflow" beyond 2^40 elements (std: isize::MAX bytes)']
RULE = 'state = feasible path end over (value kind/shape, operation, key kind/class); each compares the mutated clone with a reference array model, the original with its snapshot, and asserts no panic/UB edge'


def force(vm, v):
    """force only the top-level kind of v; nested values stay lazy (DESIGN.md §4.0 rule 2)"""
    return conc(vm, v)


def T(x):
    if is_sym(x): return x.sexpr()
    if isinstance(x, float): return ('f', f64bits(x))
    return x


def snap(vm, v, top=True):
    """structural snapshot.  A lazily symbolic nested value is identified by its tag (array operations only move or clone
    elements, so identity is exact); concrete values created by the code are written out."""
    if isinstance(v, SymEnum):
        if not top: return ('sym', v.tag)
        v = conc(vm, v)
    k = v.variant
    if k in (0, 1): return (k,)
    p = v.fields[0]
    if k in (2, 3): return (k, T(p))
    if k == 4:
        s = p.box.cell.v
        if isinstance(s, SymStr):
            t = z3.simplify(s.term)
            return (k, tuple(ord(c) for c in zstr(t)) if z3.is_string_value(t) else T(t))
        return (k, tuple(T(c) for c in s.chars()))
    arr = p.box.cell.v
    return (5, tuple(snap(vm, x, False) for x in arr.fields[0].fields[0].items), tuple(sorted(((snap_key(vm, e[0]), snap(vm, e[1], False)) for e in arr.fields[1].entries), key=repr)))


def snap_key(vm, k):
    if isinstance(k, SymEnum): return ('symkey', k.tag)
    if k.variant in (0, 1): return (k.variant,)
    p = k.fields[0]
    return (k.variant, T(p.term) if isinstance(p, SymStr) else T(p))


UNDEF = (0,)


def valkey_snap(kc):
    """snapshot of the DictKey a (kind-forced) Val key turns into"""
    v = kc.variant
    if v in (0, 1): return (v,)
    p = kc.fields[0]
    if v == 2: return (2, T(p))
    s = p.box.cell.v
    return (3, T(s.term) if isinstance(s, SymStr) else T(s))



def h_array(vm, mir, op, ka):
    thorough = getattr(vm, 'tier', 'quick') == 'thorough'
    a = sym_val(vm, 'a', arr_max=3 if thorough else 2, depth=1, dict_max=1, kinds=[ka])
    force(vm, a)
    before = snap(vm, a)
    orig = Cell(a)
    cl = Cell(vm.run_fn(fn(mir, 'Val', 'clone', 'Clone'), [Ref(orig)]))
    info = {'op': op}
    key = None; wv = None; vals = []

    frozen = [freeze_val(vm, a)]

    def d(m):
        out = {'op': op, 'a': frozen[0](m)}
        if key is not None: out['key'] = val_to_json(vm, key, m)
        if wv is not None: out['write'] = val_to_json(vm, wv, m)
        if vals: out['vals'] = [val_to_json(vm, x, m) for x in vals]
        return out
    vm.describe = d
    ck = C07.Checker(vm, d)
    VE = lambda n: C07.verr(mir, n)

    def key_for(name):
        """lazily symbolic key; numeric keys are split into the index classes of the bound"""
        k = C14.mk(vm, name)
        kc = force(vm, k)
        idx = None
        if kc.variant == 3:
            x = kc.fields[0]
            n = len(before[1]) if before[0] == 5 else 0
            cls = vm.fork(4, note='index-class')
            if cls == 0:
                vm.assume(z3.And(z3.fpGEQ(x, z3.FPVal(0.0, F64)), z3.fpLT(x, z3.FPVal(float(n + 2), F64))))
                idx = 'small'
            elif cls == 1: vm.assume(x == z3.FPVal(40.0, F64)); idx = 40
            elif cls == 2: vm.assume(z3.fpGEQ(x, z3.FPVal(2.0 ** 64, F64))); idx = 'max'
            else: vm.assume(z3.Or(z3.fpIsNaN(x), z3.fpLT(x, z3.FPVal(0.0, F64)))); idx = 0
        return k, kc, idx

    if op == 'index_or_insert':
        key, kc, idx = key_for('k')
        wv = C14.mk(vm, 'w')
        r = vm.run_fn(fn(mir, 'Val', 'index_or_insert'), [Ref(cl), R(vm.clone_val(key))])
        want_err = None
        if ka in (1, 2, 3): want_err = 'NotIndexable'
        elif ka == 4: want_err = 'IndexNotAssignable'
        elif kc.variant == 5: want_err = 'InvalidKey'
        if want_err:
            ck.expect_err(r, mir, want_err, f'index_or_insert-{want_err}')
        elif idx == 'max':
            # an index no sequence can hold: any runtime error is acceptable, a panic / UB edge or silent acceptance is not
            if r.variant == 0: ck.bad('index-max-accepted', 'index usize::MAX was accepted')
        elif r.variant != 0: ck.bad('index_or_insert-fails', 'writing at a valid key failed')
        else:
            slot = r.fields[0]
            # determine the concrete index the implementation used (small class: forks over feasible values)
            seq = list(before[1]) if before[0] == 5 else []
            dic = dict(before[2]) if before[0] == 5 else {}
            slot_before = vm.ref_get(slot)
            vm.ref_set(slot, vm.clone_val(wv))
            after = snap(vm, cl.v)
            if kc.variant == 3:
                if True:
                    # which index? read it back from the result: the written value must sit at position i = trunc(x)
                    if after[0] != 5: ck.bad('index_or_insert-kind', 'result is not an array')
                    else:
                        got = list(after[1]); w = snap(vm, wv, False)
                        cands = [i for i in range(len(got)) if got[i] == w and (i >= len(seq) or True)]
                        x = kc.fields[0]
                        okc = False
                        for i in range(len(got)):
                            exp = seq + [UNDEF] * max(0, i + 1 - len(seq)); exp[i] = w
                            if exp == got:
                                # position i is consistent; it must be the truncation of the key
                                if idx == 0: cond = (i == 0)
                                elif idx == 40: cond = (i == 40)
                                else: cond = z3.And(z3.fpGEQ(x, z3.FPVal(float(i), F64)), z3.fpLT(x, z3.FPVal(float(i + 1), F64)))
                                ck.bad('index_or_insert-position', f'value stored at position {i}, which is not the key truncated', cond)
                                okc = True; break
                        if not okc: ck.bad('index_or_insert-shape', 'sequence after the write is not the old sequence extended with mysterious plus the written value')
                        if tuple(sorted(dic.items())) != after[2]: ck.bad('index_or_insert-dict-disturbed', 'a numeric write changed the dictionary part')
            else:
                kk = valkey_snap(kc)
                if after[0] != 5: ck.bad('index_or_insert-kind', 'result is not an array')
                else:
                    if list(after[1]) != seq: ck.bad('index_or_insert-seq-disturbed', 'a dictionary write changed the sequence part')
                    # key equality against an existing symbolic key is decided by the path (the map lookup forked on it)
                    exp1 = dict(dic); exp1[kk] = snap(vm, wv, False)
                    got = dict(after[2])
                    if got != exp1:
                        # the key matched an existing (symbolically equal) entry: then exactly that entry's value is replaced
                        repl = [k0 for k0 in dic if got == {**dic, k0: snap(vm, wv, False)}]
                        if not repl: ck.bad('index_or_insert-dict', 'dictionary after the write is neither old+new entry nor old with one value replaced')
    elif op == 'push':
        n = vm.fork(3, note='npush')
        vals = [C14.mk(vm, f'v{i}') for i in range(n)]
        r = vm.run_fn(fn(mir, 'Val', 'push'), [Ref(cl), It('list', [vm.clone_val(x) for x in vals], 0)], {'impl#0': 'It'})
        if r.variant != 0: ck.bad('push-fails', 'rock failed')
        else:
            after = snap(vm, cl.v)
            seq = list(before[1]) if ka == 5 else ([] if ka == 0 else [before])
            exp = (5, tuple(seq + [snap(vm, x, False) for x in vals]), before[2] if ka == 5 else ())
            if after != exp: ck.bad('push-result', 'rock did not append to the sequence (scalar first turned into a one-element array)')
    elif op == 'pop':
        r = vm.run_fn(fn(mir, 'Val', 'pop'), [Ref(cl)])
        if ka != 5: ck.expect_err(r, mir, 'InvalidOperationForType', 'pop-non-array')
        elif r.variant != 0: ck.bad('pop-fails', 'roll failed on an array')
        else:
            got = snap(vm, r.fields[0], False); after = snap(vm, cl.v)
            seq = list(before[1])
            if got != (seq[0] if seq else UNDEF): ck.bad('pop-value', 'roll did not yield the first element (mysterious when empty)')
            if after != (5, tuple(seq[1:]), before[2]): ck.bad('pop-rest', 'roll did not remove exactly the first element')
    elif op == 'array_coerce':
        vm.run_fn(fn(mir, 'Val', 'array_coerce'), [Ref(cl)])
        after = snap(vm, cl.v)
        exp = before if ka == 5 else (5, () if ka == 0 else (before,), ())
        if after != exp: ck.bad('array_coerce-result', 'array coercion wrong')
    elif op == 'index':
        if ka == 4:
            a2 = sym_val(vm, 'a', kinds=[4], str_factory=lambda vm_, nm: C07.sym_bstr(vm_, nm, 3)); force(vm, a2)
            cl = Cell(a2); before = snap(vm, a2); a = a2; orig = Cell(vm.clone_val(a2)); frozen[0] = freeze_val(vm, a2)
        key, kc, idx = key_for('k')
        if idx == 'max': vm.witness = {'index-done'}; return ck.out       # reading at a huge index is the same code path as any out-of-range index
        r = vm.run_fn(fn(mir, 'Val', 'index'), [Ref(cl), R(vm.clone_val(key))])
        if ka in (0, 1, 2, 3): ck.expect_err(r, mir, 'NotIndexable', 'index-not-indexable')
        elif kc.variant == 5 or (ka == 4 and kc.variant != 3): ck.expect_err(r, mir, 'InvalidKey', 'index-invalid-key')
        elif r.variant != 0: ck.bad('index-fails', 'reading at a valid key failed')
        else:
            cow = conc(vm, r.fields[0]); gv = cow.fields[0]
            got = snap(vm, vm.ref_get(gv) if isinstance(gv, Ref) else gv, False)
            if kc.variant == 3:
                elems = [(4, (c,)) for c in before[1]] if ka == 4 else list(before[1])
                x = kc.fields[0]
                hit = [i for i, e in enumerate(elems) if e == got]
                if got == UNDEF:
                    # out of range: trunc(x) >= len (or negative/NaN -> 0 with empty)
                    n = len(elems)
                    cond = z3.Or(z3.fpGEQ(x, z3.FPVal(float(n), F64)), z3.BoolVal(n == 0)) if idx == 'small' else (n <= (idx if isinstance(idx, int) else 0))
                    if not hit: ck.bad('index-missing-is-mysterious', 'a present element read as mysterious', cond)
                elif not hit: ck.bad('index-value', 'read a value that is not an element')
                else:
                    conds = [(z3.And(z3.fpGEQ(x, z3.FPVal(float(i), F64)), z3.fpLT(x, z3.FPVal(float(i + 1), F64))) if idx == 'small' else z3.BoolVal(i == (idx if isinstance(idx, int) else 0))) for i in hit]
                    ck.bad('index-position', 'read an element at a position that is not the key truncated', z3.Or(*conds) if len(conds) > 1 else conds[0])
            else:
                dic = dict(before[2]); kk = valkey_snap(kc)
                if got != UNDEF and got not in dic.values(): ck.bad('index-dict-value', 'dictionary read yields a value that is not stored')
                if kk in dic and got != dic[kk]: ck.bad('index-dict-hit', 'dictionary read missed an identical key')
    elif op == 'decay':
        r = conc(vm, vm.run_fn(fn(mir, 'Val', 'decay'), [Ref(cl)]))
        gv = r.fields[0]
        got = snap(vm, vm.ref_get(gv) if isinstance(gv, Ref) else gv)
        exp = (3, ('f', f64bits(float(len(before[1]))))) if ka == 5 else before
        if got != exp: ck.bad('decay-result', 'an array must count as its sequence length, other values as themselves')
    # independence: the original is untouched by whatever happened to the clone
    if snap(vm, orig.v) != before: ck.bad(f'{op}-aliases-original', 'mutating the copy changed the original value')
    vm.witness = {f'{op}-done'}
    return ck.out


OPS = ['index_or_insert', 'push', 'pop', 'array_coerce', 'index', 'decay']


def jobs(ctx, tier):
    mir = ctx.mir('dev'); js = []
    # "when compared with a scalar or used in arithmetic an array counts as its sequence length": the coercion table of C03
    # restricted to pairs with an array on either side
    from . import C03
    for g in C03.GROUPS:
        if g[0] in ('And',): continue
        js.append(Job(f'array-as-length/{"+".join(g)}/array-left', C03.h_table, (mir, g, 5, None), witness=[f'table-{o}' for o in g], weight=3))
        js.append(Job(f'array-as-length/{"+".join(g)}/array-right', C03.h_table, (mir, g, None, 5), witness=[f'table-{o}' for o in g], weight=3))
    for op in OPS:
        for ka in range(6):
            js.append(Job(f'{op}/{KINDS[ka]}', h_array, (mir, op, ka), witness=[f'{op}-done'], str_mode='opaque', weight=6 if ka == 5 else 1))
    # program level: array statements through the real parser + interpreter against the reference interpreter
    from . import C04
    from .progcommon import preparse
    from ..progen import array_shapes
    js += C04.shape_jobs(mir, preparse(ctx, array_shapes(3)), 'array-programs', chunk=64)
    return js


# ------------------------------------------------------------------ translator validation + replay
S_, N_, ARR = C07.S_, C07.N_, C07.ARR
BASES = [{'kind': 'Undefined'}, {'kind': 'Null'}, {'kind': 'Boolean', 'v': True}, N_(3.0), S_('héllo'), ARR(), ARR(N_(1.0), S_('x')),
         ARR(N_(1.0), dict=[[{'kind': 'String', 'v': 'k'}, N_(2.0)]]), ARR(dict=[[{'kind': 'Null'}, S_('n')]])]
KEYS = [N_(0.0), N_(1.0), N_(2.7), N_(5.0), N_(-1.0), N_(float('nan')), S_('k'), S_('z'), {'kind': 'Null'}, {'kind': 'Undefined'}, {'kind': 'Boolean', 'v': False}, ARR()]


def vm_array_op(vm, mir, op, aj, keyj=None, wj=None, valsj=None):
    orig = Cell(val_from_json(vm, aj))
    cl = Cell(vm.run_fn(fn(mir, 'Val', 'clone', 'Clone'), [Ref(orig)]))
    out = {}
    if op == 'index_or_insert':
        r = vm.run_fn(fn(mir, 'Val', 'index_or_insert'), [Ref(cl), R(val_from_json(vm, keyj))])
        if r.variant == 0: vm.ref_set(r.fields[0], val_from_json(vm, wj))
        else: out['err'] = mir.src.enums['ValError'][conc(vm, r.fields[0]).variant]
    elif op == 'push':
        r = vm.run_fn(fn(mir, 'Val', 'push'), [Ref(cl), It('list', [val_from_json(vm, x) for x in valsj], 0)], {'impl#0': 'It'})
    elif op == 'pop':
        r = vm.run_fn(fn(mir, 'Val', 'pop'), [Ref(cl)])
        if r.variant == 0: out['val'] = val_to_json(vm, r.fields[0])
        else: out['err'] = mir.src.enums['ValError'][conc(vm, r.fields[0]).variant]
    elif op == 'index':
        r = vm.run_fn(fn(mir, 'Val', 'index'), [Ref(cl), R(val_from_json(vm, keyj))])
        if r.variant == 0:
            c = conc(vm, r.fields[0]); out['val'] = val_to_json(vm, c.fields[0])
        else: out['err'] = mir.src.enums['ValError'][conc(vm, r.fields[0]).variant]
    elif op == 'array_coerce': vm.run_fn(fn(mir, 'Val', 'array_coerce'), [Ref(cl)])
    out['self'] = val_to_json(vm, cl.v); out['orig'] = val_to_json(vm, orig.v)
    return out


def native_array_op(nat, op, aj, keyj=None, wj=None, valsj=None):
    req = {'op': 'val', 'fn': op, 'a': aj}
    if keyj is not None: req['b'] = keyj
    if wj is not None: req['write'] = wj
    if valsj is not None: req['vals'] = valsj
    return nat.call(req)


def validate(ctx):
    from ..vm import VM, Explorer
    mir = ctx.mir('dev'); nat = ctx.native('dev'); good, bad = 0, []
    cases = []
    for aj in BASES:
        for kj in KEYS: cases.append(('index_or_insert', aj, kj, S_('W'), None)); cases.append(('index', aj, kj, None, None))
        for vs in ([], [N_(9.0)], [S_('p'), {'kind': 'Null'}]): cases.append(('push', aj, None, None, vs))
        cases.append(('pop', aj, None, None, None)); cases.append(('array_coerce', aj, None, None, None))
    for op, aj, kj, wj, vs in cases:
        vm = VM(mir, Explorer())
        try: got = vm_array_op(vm, mir, op, aj, kj, wj, vs)
        except PanicEdge as p: got = {'panic': str(p)}
        except Exception as e: got = {'exception': f'{type(e).__name__}: {e}'}
        nv = native_array_op(nat, op, aj, kj, wj, vs)
        if 'panic' in nv or 'panic' in got: okk = ('panic' in nv) == ('panic' in got)
        else:
            okk = 'exception' not in got and got.get('err') == nv.get('err') and ('self' not in nv or same_val_json(got['self'], nv['self'])) and \
                ('val' not in nv or ('val' in got and same_val_json(got['val'], nv['val']))) and ('orig' not in nv or same_val_json(got['orig'], nv['orig']))
        if okk: good += 1
        else: bad.append({'op': op, 'a': aj, 'key': kj, 'vm': got, 'native': nv})
    return good, bad


def replay(ctx, f):
    if 'program' in (f.get('cex') or {}):
        from .progcommon import native_replay
        return native_replay(ctx, f['cex']['program'], f)
    cex = f.get('cex') or {}
    out = {'reproduced': None}
    if 'operator' in cex:
        from . import C03
        return C03.replay(ctx, f)
    if 'op' not in cex: return out
    res = {}
    for prof in ('dev', 'release'):
        nat = ctx.native(prof)
        op = cex['op']
        if op == 'decay': nv = nat.call({'op': 'val', 'fn': 'decay', 'a': cex['a']})
        else: nv = native_array_op(nat, op, cex['a'], cex.get('key'), cex.get('write'), cex.get('vals') if op == 'push' else None)
        out[prof + '_native'] = {k: (v if not isinstance(v, dict) else v.get('display')) for k, v in nv.items() if k in ('panic', 'crash', 'timeout', 'err', 'self', 'orig', 'val')}
        if f['kind'] in ('panic', 'ub'):
            res[prof] = bool('panic' in nv or 'crash' in nv or 'timeout' in nv); continue
        if 'panic' in nv or 'crash' in nv: res[prof] = True; continue
        # value-level disagreement: compare with the reference model evaluated concretely
        want = reference_concrete(cex)
        if want is None: res[prof] = None; continue
        bad = False
        if 'err' in want: bad = nv.get('err') != want['err']
        else:
            if 'err' in nv: bad = True
            if 'self' in want and 'self' in nv and not same_val_json(nv['self'], want['self']): bad = True
            if 'val' in want and 'val' in nv and not same_val_json(nv['val'], want['val']): bad = True
        if 'orig' in nv and not same_val_json(nv['orig'], cex['a']): bad = True
        res[prof] = bad
    out.update(res)
    vals = [v for v in res.values() if v is not None]
    out['reproduced'] = any(vals) if vals else None
    return out


def reference_concrete(cex):
    import math, copy
    a = copy.deepcopy(cex['a']); op = cex['op']; k = a['kind']
    def usize(x):
        x = bits_f64(x['bits'])
        if x != x or x <= 0: return 0
        return int(min(x, 2.0 ** 64 - 1))
    U = {'kind': 'Undefined'}
    if op == 'index_or_insert':
        key, w = cex['key'], cex['write']
        if k in ('Null', 'Boolean', 'Number'): return {'err': 'NotIndexable'}
        if k == 'String': return {'err': 'IndexNotAssignable'}
        if key['kind'] == 'Array': return {'err': 'InvalidKey'}
        if k == 'Undefined': a = {'kind': 'Array', 'arr': [], 'dict': []}
        if key['kind'] == 'Number':
            i = usize(key)
            if i > 100000: return None
            while len(a['arr']) <= i: a['arr'].append(U)
            a['arr'][i] = w
        else:
            for e in a['dict']:
                if e[0] == key: e[1] = w; break
            else: a['dict'].append([key, w])
        return {'self': a}
    if op == 'push':
        seq = a['arr'] if k == 'Array' else ([] if k == 'Undefined' else [a])
        return {'self': {'kind': 'Array', 'arr': seq + cex.get('vals', []), 'dict': a.get('dict', []) if k == 'Array' else []}}
    if op == 'pop':
        if k != 'Array': return {'err': 'InvalidOperationForType'}
        v = a['arr'][0] if a['arr'] else U
        return {'val': v, 'self': {'kind': 'Array', 'arr': a['arr'][1:], 'dict': a['dict']}}
    if op == 'array_coerce':
        return {'self': a if k == 'Array' else {'kind': 'Array', 'arr': [] if k == 'Undefined' else [a], 'dict': []}}
    if op == 'index':
        key = cex['key']
        if k in ('Undefined', 'Null', 'Boolean', 'Number'): return {'err': 'NotIndexable'}
        if key['kind'] == 'Array' or (k == 'String' and key['kind'] != 'Number'): return {'err': 'InvalidKey'}
        if key['kind'] == 'Number':
            i = usize(key); elems = [C07.S_(c) for c in a['v']] if k == 'String' else a['arr']
            return {'val': elems[i] if i < len(elems) else U}
        for kk, vv in a['dict']:
            if kk == key: return {'val': vv}
        return {'val': U}
    if op == 'decay':
        return {'val': C07.N_(float(len(a['arr']))) if k == 'Array' else a}
    return None
