"""Program-level kind x statement matrix against the reference interpreter (used by C03): every statement / expression form
with operands of every kind (mirsym/progen.kind_shapes), all literals symbolic; written lines and outcome (success / runtime error) are
compared with mirsym/refinterp.py on every feasible path.  Forms the reference interpreter does not define (cut / join / cast
statements, array == array, string indexing) are left to the kernel-level checks (C07, C14, C06) and marked as such."""
import re
import z3
from .common import *
from .progcommon import *
from ..harness import Job

INDEX_VALUES = [-1.0, -0.0, 0.0, 0.5, 1.0, 2.0, 1e18, 9.3e18]


def h_matrix(vm, mir, chunk):
    i = vm.fork(len(chunk), note='shape') if len(chunk) > 1 else 0
    sh = chunk[i]; text, spec = sh[0], sh[1]
    holes = {}
    for k in spec:
        if k.startswith('n'):
            holes[k] = x = num_hole(vm, k)
            if (k == 'n3' and re.search(r' at 9003| times 9003|9003 times', text)) or spec[k].get('index'):
                # an index / repeat count: a few values of every class (negative, -0, fractional, small, beyond isize) or NaN; sizes in between only allocate
                vm.assume(z3.Or(z3.fpIsNaN(x), *[x == z3.FPVal(v, F64) for v in INDEX_VALUES]))
        else: holes[k] = SymStr(str_hole(vm, k))
    stdin = [(str_hole(vm, 'line0'), True)] if 'isten' in text else []
    prog = instantiate(vm, mir, program_of_shape(mir, sh), holes)
    d0 = describe_holes(holes, stdin)
    vm.describe = lambda m: dict(d0(m), program=text)
    try: return run_both(vm, mir, prog, stdin, describe=vm.describe)
    except Unmodelled as e:
        if not str(e).startswith('reference interpreter:') and 'opaque symbolic string' not in str(e): raise
        vm.witness = getattr(vm, 'witness', set()) | {'run-done', 'outside-reference'}
        return []


def matrix_jobs(ctx, mir, chunk=16):
    from ..progen import kind_shapes, chunks
    shapes = preparse(ctx, kind_shapes())
    return [Job(f'program-matrix/{k}', h_matrix, (mir, ch), witness=['run-done'], fuel=20_000_000, weight=16) for k, ch in enumerate(chunks(shapes, chunk))]
