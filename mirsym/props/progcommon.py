"""Program-level harness plumbing: Rockstar templates are parsed by the *real* parser inside the VM (once, concretely), their
literal placeholders replaced by symbolic values, then executed by the real interpreter (exec_using from MIR, model streams)
and by the reference interpreter; outputs / outcome / stream use are compared by z3."""
import re
import z3
from .common import *
from ..harness import Job, finding, model_of
from ..std import conc
from ..progrun import parse_in_vm, exec_in_vm, find_fn
from ..refinterp import RefInterp, Exec, RErr, Crash
from ..std_io import out_stream, in_stream

_PARSED = {}


def parsed_program(mir, text):
    """Program Adt of a template (parsed once per MIR by the real parser, shared read-only)"""
    key = (id(mir), text)
    if key not in _PARSED:
        from ..vm import VM, Explorer
        sub = VM(mir, Explorer(), fuel=50_000_000); sub.str_mode = 'bounded'
        r = conc(sub, parse_in_vm(sub, mir, text))
        if r.variant != 0: raise Unmodelled(f'template does not parse with the current parser: {text!r}')
        _PARSED[key] = r.fields[0]
    return _PARSED[key]


def preparse(ctx, shapes, profile='dev'):
    """[(text, spec)] -> [(text, spec, debug tree)]: every shape is parsed by the native build of the real parser (in the
    parent process, before the jobs fork); a shape the parser rejects is a generator error, never silently dropped"""
    nat = ctx.native(profile); out = []
    for text, spec in shapes:
        r = nat.call({'op': 'parse', 'src': text}, timeout=20)
        if not r.get('ok'): raise Unmodelled(f'generated shape does not parse with the current parser: {text!r}: {r.get("error") or r}')
        out.append((text, spec, r['ast']))
    return out


def program_of_shape(mir, shape):
    """Program Adt of a pre-parsed shape (cached per process)"""
    text = shape[0]
    key = (id(mir), text)
    if key not in _PARSED:
        if len(shape) > 2 and shape[2] is not None:
            from ..vm import VM, Explorer
            from ..astparse import program_from_debug
            sub = VM(mir, Explorer()); sub.str_mode = 'bounded'
            _PARSED[key] = program_from_debug(sub, mir, shape[2])
            if len(_PARSED) > 4000: _PARSED.clear(); 
        else: return parsed_program(mir, text)
    return _PARSED[key]


HOLE_NUM = re.compile(r'^900(\d)$')


def instantiate(vm, mir, prog, holes):
    """deep copy of the parsed program with placeholders replaced: number literal 900k -> holes['n<k>'], string literal "§k" -> holes['s<k>'],
    boolean stays.  Returns the new Program Adt."""
    lits = mir.src.enums['LiteralExpression']
    def walk(v):
        if isinstance(v, Adt):
            if v.ty == 'LiteralExpression':
                k = lits[v.variant]
                if k == 'Number' and isinstance(v.fields[0], float) and v.fields[0] == int(v.fields[0]) and 9000 <= v.fields[0] <= 9009:
                    h = holes.get(f'n{int(v.fields[0]) - 9000}')
                    if h is not None: return Adt(v.ty, v.variant, [h])
                if k == 'String':
                    s = v.fields[0]
                    t = s.concrete() if isinstance(s, BStr) else None
                    if t and t.startswith('§'):
                        h = holes.get('s' + t[1:])
                        if h is not None: return Adt(v.ty, v.variant, [h])
                return Adt(v.ty, v.variant, list(v.fields))
            if v.ty == 'Box': return vm.new_box(walk(vm.ref_get(vm.box_ptr(v))))
            return Adt(v.ty, v.variant, [walk(x) for x in v.fields])
        if isinstance(v, HList): return HList([walk(x) for x in v.items])
        if isinstance(v, RcVal): return RcVal(RcBox(walk(v.box.cell.v)), v.kind)
        return v
    return walk(prog)


ERRCLS = ['EnvironmentError', 'ValError', 'WriteValError', 'ExecError', 'ProduceValError']


def run_both(vm, mir, prog, stdin=(), out_fail_at=None, in_fail_at=None, describe=None, max_iter=8, real_lines=None, out_fail_mode='error', chunked=False):
    """returns list of findings.  stdin: [(z3 String term without terminator, terminated: bool)]"""
    out = []
    def bad(role, detail, prop=None):
        if prop is None: m = model_of(vm)
        else:
            v = vm.must_hold(prop, role); m = v.model if v is not None else None
        if m is None: return
        out.append(finding('violation', role, detail, describe(m) if describe else None, vm.notes))
    lines = real_lines if real_lines is not None else [SymStr(z3.Concat(t, zs('\n')) if term else t) for t, term in stdin]
    vm.io_events = []
    res, odata, idata = exec_in_vm(vm, mir, prog, lines, out_fail_at, in_fail_at, out_fail_mode, chunked)
    res = conc(vm, res)
    ri = RefInterp(vm, mir, stdin, out_fail_at, in_fail_at, max_iter=max_iter)
    ex = Exec(ri); want = ('ok', None)
    try: ex.program(prog)
    except RErr as e: want = ('err', e.cls)
    except Crash as c:
        vm.witness = getattr(vm, 'witness', set()) | {'run-done'}
        return out          # no defined behaviour: the real code's crash edge (if any) is reported by the edge check
    got_writes = [to_sym(w) for w in odata['writes']]
    if len(got_writes) != len(ri.out):
        bad('output-count', f'{len(got_writes)} lines written, reference {len(ri.out)}')
    else:
        for i, (g, w) in enumerate(zip(got_writes, ri.out)):
            e = z3.simplify(g == w)
            if z3.is_false(e): bad('output-text', f'line {i} differs from the reference'); break
            if not z3.is_true(e): bad('output-text', f'line {i} differs from the reference', e)
    if (res.variant == 1) != (want[0] == 'err'): bad('outcome', f'real run {"failed" if res.variant else "succeeded"}, reference {"fails with " + str(want[1]) if want[0] == "err" else "succeeds"}')
    # which error is reported is not part of the properties (they say `a runtime error`): only success / failure is compared
    if odata['calls'] != ri.out_calls: bad('output-calls', f'{odata["calls"]} write calls, reference {ri.out_calls}')
    if idata['calls'] != ri.in_calls: bad('input-calls', f'{idata["calls"]} read calls, reference {ri.in_calls}')
    if odata['calls'] == ri.out_calls and idata['calls'] == ri.in_calls and vm.io_events != ri.events: bad('io-order', f'stream calls in the order {"".join(e[0] for e in vm.io_events)}, reference {"".join(e[0] for e in ri.events)} (o = write, i = read)')
    vm.witness = getattr(vm, 'witness', set()) | {'run-done'}
    return out


def num_hole(vm, name, lo=None, hi=None, integral=False):
    x = z3.FP(name, F64)
    cs = []
    if lo is not None: cs.append(z3.fpGEQ(x, z3.FPVal(float(lo), F64)))
    if hi is not None: cs.append(z3.fpLEQ(x, z3.FPVal(float(hi), F64)))
    if integral: cs.append(z3.fpEQ(z3.fpRoundToIntegral(z3.RTZ(), x), x))
    if cs: vm.assume(z3.And(*cs) if len(cs) > 1 else cs[0])
    return x


def str_hole(vm, name, no_newline=True):
    s = z3.String(name)
    if no_newline:
        vm.assume(z3.Not(z3.Contains(s, zs('\n'))))
        if not hasattr(vm, 'no_newline'): vm.no_newline = {}
        vm.no_newline[s.get_id()] = s
    return s


def describe_holes(holes, stdin=()):
    def d(m):
        out = {}
        for k, h in holes.items():
            if isinstance(h, SymStr): out[k] = zstr(m.eval(h.term, model_completion=True))
            elif z3.is_fp(h): out[k] = f64_bits(m.eval(h, model_completion=True))
            elif is_sym(h): out[k] = str(m.eval(h, model_completion=True))
            elif isinstance(h, float): out[k] = f64bits(h)          # a concrete number hole: described like a symbolic one (bit pattern)
            else: out[k] = h
        out['stdin'] = [[zstr(m.eval(t, model_completion=True)), term] for t, term in stdin]
        return out
    return d


def program_text(template, cex):
    """concrete Rockstar source of a counterexample (for native replay); None if a value cannot be written as a literal"""
    from ..std_str import rust_fmt_f64
    txt = template
    for k, v in cex.items():
        if k.startswith('n'):
            x = bits_f64(v)
            if x != x: lit = '(0 over 0)'
            elif x in (float('inf'), -float('inf')): return None
            else:
                lit = rust_fmt_f64(abs(x))
                if len(lit) > 30: return None
                if x < 0 or (x == 0 and str(x).startswith('-')): lit = '-' + lit
            if '(' in lit: return None
            txt = txt.replace('900' + k[1:], lit)
        elif k.startswith('s') and k != 'stdin':
            if '"' in v or '\n' in v or '\r' in v: return None
            txt = txt.replace('§' + k[1:], v)
    return txt


def native_replay(ctx, template, f):
    """replay a program-level counterexample against the native dev and release builds (with its fault plan, if any) and
    compare stdout / outcome / stream-call order with the reference interpreter run concretely under the same plan"""
    cex = f.get('cex') or {}
    out = {'reproduced': None}
    skip = ('stdin', 'template', 'out_fail_at', 'in_fail_at', 'out_fail_mode', 'program', 'in_first_chunk_bytes')
    src = program_text(template, {k: v for k, v in cex.items() if k not in skip})
    if src is None: return out
    stdin = ''.join(t + ('\n' if term else '') for t, term in cex.get('stdin', []))
    out['program'] = src
    of, inf, mode = cex.get('out_fail_at'), cex.get('in_fail_at'), cex.get('out_fail_mode') or 'error'
    req = {'op': 'program', 'src': src, 'stdin': stdin}
    if of is not None: req.update(out_fail_at=of, out_fail_mode=mode)
    if inf is not None: req['in_fail_at'] = inf
    if cex.get('in_first_chunk_bytes'): req['in_first_chunk_bytes'] = cex['in_first_chunk_bytes']
    res = {}
    for prof in ('dev', 'release'):
        nv = ctx.native(prof).call(req, timeout=20)
        out[prof + '_native'] = {k: nv.get(k) for k in ('parse', 'result', 'stdout', 'events', 'panic', 'crash', 'timeout', 'error_debug') if k in nv}
        if f['kind'] in ('panic', 'ub'): res[prof] = bool('panic' in nv or 'crash' in nv or 'timeout' in nv)
        else: res[prof] = None
    if f['kind'] == 'violation':
        from ..vm import VM, Explorer
        mir = ctx.mir('dev')
        vm = VM(mir, Explorer(), fuel=50_000_000); vm.str_mode = 'bounded'
        try:
            r = conc(vm, parse_in_vm(vm, mir, src))
            if r.variant == 0:
                ri = RefInterp(vm, mir, [(zs(t), term) for t, term in cex.get('stdin', [])], of, inf, max_iter=50)
                ex = Exec(ri); want_err = False
                try: ex.program(r.fields[0])
                except RErr: want_err = True
                want_out = ''.join(zstr(z3.simplify(t)) for t in ri.out)
                want_ev = ''.join(e[0] for e in ri.events)
                for prof in ('dev', 'release'):
                    nv = out[prof + '_native']
                    # the native reader is asked once more at end of input by BufReader only when a listen needs it: same count as the reference
                    res[prof] = bool('panic' in nv or nv.get('stdout') != want_out or (nv.get('result') == 'err') != want_err or (nv.get('events') is not None and not cex.get('in_first_chunk_bytes') and nv.get('events') != want_ev))
                out['reference'] = {'stdout': want_out, 'fails': want_err, 'events': want_ev}
        except (Crash, Unmodelled, Exception) as e:
            out['reference_error'] = f'{type(e).__name__}: {e}'[:200]
    out.update(res)
    vals = [v for v in res.values() if v is not None]
    out['reproduced'] = any(vals) if vals else None
    return out
