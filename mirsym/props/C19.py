"""C19 — lint reports are complete, ordered by line, and linting never fails (DESIGN.md §4, C19)."""
import z3
from .common import *
from ..harness import Job, finding, model_of
from ..std import conc
from ..astgen import Gen, N
from ..strings import BStr, Buf
from . import C03, C16, C18

ID = 'C19'
PROFILES = ['dev']
BOUNDS = {'repeated-identifier rule': 'one statement of every kind with one free level below (as C16), every identifier word a symbolic character over {x, y} (so any two mentions may or may not spell the same name), names of every kind (simple / common / proper)',
          'ordering': 'programs of 2 statements, each an assignment that triggers the constant lint, the repeated-identifier lint, both or neither; each statement on line 1 or 2 (all four placements), standard passes through Linter::run',
          'totality': 'no panic / UB edge in either pass or in Linter::run on all of the above'}
OUTSIDE = ['longer programs (the rule has one word of state, `last`, and one flag; every statement kind is exercised from both states)', 'message wording beyond name and line']
ASSUMPTIONS = C18.ASSUMPTIONS + ['slice::sort_by_key is a stable sort (std documentation): modelled as insertion sort, the unique stable order', '"spells the same name" = same kind and identical words (the pass compares VariableName values)']
RULE = 'state = feasible path end over (statement shape, name-equality decisions, line placements); each compares the reported (name, line) sequence with the reference rule and the Linter::run order with the stable line order of the per-pass outputs'


def name_char(vm, path):
    c = z3.BitVec(f'nm.{path}', 32)
    vm.assume(z3.Or(c == 0x78, c == 0x79)); vm.domains[c.get_id()] = {0x78, 0x79}; vm.keep.append(c)
    if not hasattr(vm, 'cp_width'): vm.cp_width = {}
    vm.cp_width[c.get_id()] = 1
    return BStr(Buf([c], [1]))


def mentions(node):
    """reference: variable mentions in traversal order: [(VariableName node, line nid, is_callee)] (uses C16's reference traversal)"""
    ref = C16.Ref_(); ref.program(node)
    by_nid = {n.nid: n for n in node.walk()}
    out = []; callee_next = False
    for i, (m, nid) in enumerate(ref.ev):
        if m == 'visit_function_call': callee_next = True
        elif m == 'visit_variable_name':
            out.append((by_nid[nid], callee_next)); callee_next = False
    return out


def name_eq(vm, a, b):
    """z3 Bool / bool: two VariableName reference nodes spell the same name"""
    if a.variant != b.variant: return False
    ia, ib = a.ch['0'], b.ch['0']
    wa = [ia.ch['0'][1]] if a.variant == 'Simple' else [ia.ch['0'][1], ia.ch['1'][1]] if a.variant == 'Common' else [w[1] for w in ia.ch['0']]
    wb = [ib.ch['0'][1]] if b.variant == 'Simple' else [ib.ch['0'][1], ib.ch['1'][1]] if b.variant == 'Common' else [w[1] for w in ib.ch['0']]
    if len(wa) != len(wb): return False
    from .C07 import cps_eq
    conds = []
    for x, y in zip(wa, wb):
        e = cps_eq(vm, x.chars(), y.chars())
        if e is False: return False
        if e is not True: conds.append(e)
    return True if not conds else (z3.And(*conds) if len(conds) > 1 else conds[0])


def line_of_mention(node, vn):
    """line reported for a mention = line of the WithRange that holds it"""
    for n in node.walk():
        if n.ty == 'WithRange':
            inner = n.ch['inner']
            if inner is vn or (isinstance(inner, N) and inner.ty == 'Identifier' and inner.ch.get('0') is vn): return n.ch['range'][1]
    return None


def diag_list(vm, mir, r):
    lb = mir.src.enums['ListBuilder']; v = conc(vm, r); kind = lb[v.variant]
    return [] if kind == 'Empty' else [v.fields[0]] if kind == 'One' else list(v.fields[0].fields[0].items)


def h_rule(vm, mir, root_ty, root_variant, forces=()):
    gen = Gen(vm, mir, list_max=1)
    for k, v in forces: gen.force['root.Program.code[0].NonEmpty.0[0]' + k] = v
    gen.names = lambda g, path: name_char(vm, path)
    gen.force['root.Program.code'] = 1; gen.force['root.Program.code[0]'] = 'NonEmpty'; gen.force['root.Program.code[0].NonEmpty.0'] = 1
    spath = 'root.Program.code[0].NonEmpty.0[0]'
    scaffold, depth, flats = C16.SCAFFOLD[root_ty]
    for rel, val in scaffold: gen.force[spath + rel] = val
    gen.flat = [spath + f for f in flats]
    gen.force[spath + C16.ROOT_SUFFIX[root_ty]] = root_variant
    gen.min_choices['Identifier'] = lambda path: ['VariableName', 'Pronoun']
    gen.min_choices['PrimaryExpression'] = lambda path: ['Literal', 'Identifier']      # minimal operands may be names: mentions occur in every slot
    adt, node = gen.gen('Program', depth + 1, 'root')
    vm.describe = lambda m: {'tree': node.describe(), 'names': names_of(node, m)}
    out = []
    def bad(role, detail, prop=None):
        if prop is None: m = model_of(vm)
        else:
            v = vm.must_hold(prop, role); m = v.model if v is not None else None
        if m is None: return
        out.append(finding('violation', role, detail, {'tree': node.describe(), 'names': names_of(node, m)}, vm.notes))
    before = node.describe() + repr_adt(vm, adt)
    runner = Adt('ExprVisitorRunner', 0, [vm.run_fn(fn(mir, 'MissedPronounPassImpl', 'new'), [])])
    f = [x for x in mir.by_name.get('visit_program', []) if x.name == 'VisitProgram::visit_program'][0]
    r = vm.run_fn(f, [R(runner), R(adt)], {'Self': 'ExprVisitorRunner<MissedPronounPassImpl>'})
    if r.variant != 0: bad('lint-fails', 'the repeated-identifier pass returned an error'); return out
    diags = diag_list(vm, mir, r.fields[0])
    got = [d.fields[2] for d in diags]        # lines, in report order
    # reference rule (forces the name-equality decisions it needs)
    ms = mentions(node); want = []
    last = None
    for vn, callee in ms:
        rep = False
        if not callee and last is not None:
            rep = vm.branch(name_eq(vm, last, vn)) if not isinstance(name_eq(vm, last, vn), bool) else name_eq(vm, last, vn)
        if rep: want.append(line_of_mention(node, vn))
        else: last = vn
    if got != want: bad('repeated-identifier-rule', f'reported lines {got}, reference rule {want} (mentions in traversal order: {len(ms)})')
    if node.describe() + repr_adt(vm, adt) != before: bad('program-mutated', 'linting changed the program')
    vm.witness = {'rule-done'} | ({'reported'} if want else set())
    return out


def repr_adt(vm, v, depth=0):
    if depth > 40: return '...'
    if isinstance(v, Adt): return f'{v.ty}#{v.variant}(' + ','.join(repr_adt(vm, x, depth + 1) for x in v.fields) + ')'
    if isinstance(v, HList): return '[' + ','.join(repr_adt(vm, x, depth + 1) for x in v.items) + ']'
    if isinstance(v, Ref): return '&' + repr_adt(vm, vm.ref_get(v), depth + 1)
    if isinstance(v, RcVal): return 'rc ' + repr_adt(vm, v.box.cell.v, depth + 1)
    if isinstance(v, SymEnum): return f'{v.ty}?{v.tag}'
    if isinstance(v, BStr): return 'str' + repr([c if isinstance(c, int) else c.sexpr() for c in v.chars()])
    if isinstance(v, SymStr): return 'str ' + v.term.sexpr()
    if is_sym(v): return v.sexpr()
    return repr(v)


def names_of(node, m):
    out = []
    for n in node.walk():
        if n.ty in ('SimpleIdentifier', 'CommonIdentifier', 'ProperIdentifier'):
            ws = [n.ch['0'][1]] if n.ty == 'SimpleIdentifier' else [n.ch['0'][1], n.ch['1'][1]] if n.ty == 'CommonIdentifier' else [w[1] for w in n.ch['0']]
            out.append(' '.join(''.join(chr(c if isinstance(c, int) else m.eval(c, model_completion=True).as_long()) for c in w.chars()) for w in ws))
    return out


def two_assignments(vm, mir, nst=2, last=None):
    """Program of nst assignments placed on lines {1..nst}^nst (names / values symbolic)"""
    gen = Gen(vm, mir, list_max=1)
    gen.names = lambda g, path: name_char(vm, path)
    lines = [1 + vm.fork(nst, note=f'line-of-statement-{i}') for i in range(nst)]
    gen.force['root.Program.code'] = 1; gen.force['root.Program.code[0]'] = 'NonEmpty'; gen.force['root.Program.code[0].NonEmpty.0'] = nst
    for i in range(nst):
        sp = f'root.Program.code[0].NonEmpty.0[{i}]'
        if last is not None and i == nst - 1:
            # the last statement is of another kind, in its minimal shape (e.g. a push without values, a bare listen, a break)
            gen.force[sp] = last
            if last == 'ArrayPush': gen.force[sp + '.ArrayPush.0.ArrayPush.value?'] = 'None'
            continue
        gen.force[sp] = 'Assignment'
        gen.force[sp + '.Assignment.0.Assignment.dest'] = 'Identifier'
        gen.force[sp + '.Assignment.0.Assignment.dest.Identifier.0'] = 'VariableName'
        gen.force[sp + '.Assignment.0.Assignment.dest.Identifier.0.VariableName.0'] = 'Simple'
        gen.force[sp + '.Assignment.0.Assignment.operator?'] = 'None'
        gen.force[sp + '.Assignment.0.Assignment.value.ExpressionList.0.ExpressionList.rest'] = 0
        gen.force[sp + '.Assignment.0.Assignment.value.ExpressionList.0.ExpressionList.first'] = 'PrimaryExpression'
        gen.deep[sp + '.Assignment.0.Assignment.value.ExpressionList.0.ExpressionList.first'] = 1
    gen.min_choices['PrimaryExpression'] = lambda path: ['Literal', 'Identifier']
    gen.min_choices['LiteralExpression'] = lambda path: (['Number', 'Null'] if nst == 2 else ['Null'])      # three statements: no number rendering (it only multiplies paths)
    gen.min_choices['Identifier'] = lambda path: ['VariableName']
    gen.min_choices['VariableName'] = lambda path: ['Simple']
    class L:      # per-statement line
        pass
    orig_gen = gen.gen
    def gen_with_line(ty, depth, path='root'):
        for i in range(nst):
            if path.startswith(f'root.Program.code[0].NonEmpty.0[{i}]'): gen.line = lines[i]
        return orig_gen(ty, depth, path)
    gen.gen = gen_with_line
    gen.line = 1
    adt, node = gen.gen('Program', 3, 'root')
    C18.install_fmt_stub(vm)
    return adt, node, lines


def h_order(vm, mir, nst=2, last=None):
    """Linter::run on nst assignments placed on lines {1,2}^nst"""
    adt, node, lines = two_assignments(vm, mir, nst, last)
    vm.describe = lambda m: {'tree': node.describe(), 'lines': lines, 'names': names_of(node, m)}
    out = []
    def bad(role, detail):
        m = model_of(vm)
        if m is not None: out.append(finding('violation', role, detail, {'tree': node.describe(), 'lines': lines, 'names': names_of(node, m)}, vm.notes))
    # per-pass outputs, in pass order
    per_pass = []
    bp = C18.resolve_method(vm, mir, 'BoringAssignmentPass', 'VisitProgram', 'visit_program')
    r1 = vm.run_fn(bp[0], [R(Adt('BoringAssignmentPass', 0, [])), R(adt)], bp[1])
    runner = Adt('ExprVisitorRunner', 0, [vm.run_fn(fn(mir, 'MissedPronounPassImpl', 'new'), [])])
    f = [x for x in mir.by_name.get('visit_program', []) if x.name == 'VisitProgram::visit_program'][0]
    r2 = vm.run_fn(f, [R(runner), R(adt)], {'Self': 'ExprVisitorRunner<MissedPronounPassImpl>'})
    if r1.variant or r2.variant: bad('lint-fails', 'a pass returned an error'); return out
    seq = [('boring', d.fields[2], text_of(vm, d.fields[0])) for d in diag_list(vm, mir, r1.fields[0])] + [('pronoun', d.fields[2], text_of(vm, d.fields[0])) for d in diag_list(vm, mir, r2.fields[0])]
    want = sorted(seq, key=lambda t: t[1])           # Python's sort is stable
    linter = vm.run_fn(free_fn(mir, 'standard_linter'), [])
    res = vm.run_fn(fn(mir, 'Linter', 'run'), [R(linter), R(adt)])
    items = res.fields[0].fields[0].items
    got = [(('boring' if 'literal value' in text_of(vm, d.fields[0]) else 'pronoun'), d.fields[2], text_of(vm, d.fields[0])) for d in items]
    if got != want: bad('report-order', f'Linter::run returned {[(g[0], g[1]) for g in got]}, expected the per-pass outputs in stable line order {[(w[0], w[1]) for w in want]}')
    vm.witness = {'order-done'} | ({'tie'} if len({w[1] for w in want}) < len(want) and len({w[0] for w in want}) > 1 else set())
    return out


def text_of(vm, s):
    from ..std_str import S, _bounded
    b = _bounded(vm, S(vm, s))
    return ''.join(chr(c) if isinstance(c, int) else '?' for c in b.chars())


def jobs(ctx, tier):
    mir = ctx.mir('dev'); js = []
    for ty in C16.SCAFFOLD:
        if ty in ('LiteralExpression', 'PoeticNumberLiteralElem', 'Block', 'InputDest'): continue
        for v in mir.src.enums[ty]:
            if (ty, v) == ('Expression', 'BinaryExpression'):
                for l in mir.src.enums['Expression']:
                    js.append(Job(f'rule/{ty}::{v}/lhs={l}', h_rule, (mir, ty, v, ((C16.ROOT_SUFFIX[ty] + '.BinaryExpression.0.BinaryExpression.lhs', l),)), witness=['rule-done'], str_mode='bounded', weight=8, fuel=6_000_000))
                continue
            js.append(Job(f'rule/{ty}::{v}', h_rule, (mir, ty, v), witness=['rule-done'], str_mode='bounded', weight=4, fuel=6_000_000))
    js.append(Job('order/two-assignments', h_order, (mir,), witness=['order-done', 'tie'], str_mode='bounded', weight=10, fuel=6_000_000))
    for last in mir.src.enums['Statement']:
        if last in ('Assignment', 'If', 'While', 'Until', 'Function'): continue
        js.append(Job(f'order/assignment+{last}', h_order, (mir, 2, last), witness=['order-done'], str_mode='bounded', weight=10, fuel=12_000_000))
    js.append(Job('order/three-assignments', h_order, (mir, 3), witness=['order-done'], str_mode='bounded', weight=30, fuel=12_000_000))
    return js


def validate(ctx):
    return C03.validate(ctx)


def replay(ctx, f):
    return {'reproduced': None, 'note': 'tree-shaped counterexample with concrete names; observation made on the real MIR'}
