"""C13 — syntax errors are rejected and attributed to the line they occur on: the real `parse` + ParseError Display, from
MIR, on (valid context) x (position) x (context-independent fault), with symbolic noise characters around the fault."""
import re
import z3
from .common import *
from .lexcommon import *
from ..harness import Job, finding, model_of
from ..std import conc
from ..progrun import parse_in_vm
from ..std_fmt import display_to_string
from .. import chartab

ID = 'C13'
PROFILES = ['dev']
# units a valid program is built from (each is a complete, closed piece of program text; '' is a blank line)
UNITS = ['say 1', 'X is 5', 'If X\nsay 1\n', 'While X\nBuild X up\n', 'If X\nsay 1\nElse\nsay 2\n', '(a comment\nover two lines)', 'say "two\nlines"', '', 'F takes Y\ngive back Y\n',
         'Put "a\nb" into X', 'say "line break last\n"', '(comment closed on its own line\n)', '(\n\n)']
# open contexts: the fault line goes inside a block that is still open (text before, text after)
OPEN = [('If X\nsay 1', 'say 2\n'), ('While X\nBuild X up', '\n'), ('F takes Y\nsay Y', 'give back Y\n'), ('If X\nsay 1\nElse\nsay 2', '\n'), ('If X\nWhile Y\nsay 1', '\n\n')]
FAULTS = {
 'missing-operand': ['Put into X', 'Put 1 into', 'say', 'shout', 'Let X be', 'Let be 1', 'Listen to', 'Build up', 'Knock down', 'Turn up', 'Turn X', 'Rock', 'Roll', 'Cut', 'Join', 'Cast', 'give back', 'If', 'While', 'Until',
                     'say 1 plus', 'say 1 times', 'say not', 'say X at', 'say 1 is', 'say X is greater than', 'say X taking', 'X taking', 'Let X at be 1', 'Cut X into', 'Cut X with', 'Rock X with', 'Roll X into', 'Put 1 plus into X',
                     'say 1 and', 'X takes', 'X takes Y and', 'say 1 plus 2, and', 'Let X be 1, 2, and', 'say X with 1, my', 'say X times 2, -', 'Rock X with 1, and', 'say X taking 1, and', 'say X taking 1 &'],
 'missing-keyword': ['Put 1 X', 'Let X 1', 'Build X', 'Knock X', 'Listen X', 'Take it to the', 'Take it', 'say X is as big', 'say X is bigger 1', 'Cut X into', 'Rock X 1'],
 'two-statements': ['say 1 say 2', 'Put 1 into X say 2', 'Build X up say 1', 'say 1 Put 2 into X', 'Listen to X say X', 'Break say 1', 'Continue say 1', 'say 1 Break', 'Roll X say 1', 'give back 1 say 2', 'say 1 Let X be 2', 'say 1. say 2', 'Put 1 into X, say X', 'If X, say 1', 'F takes Y. give back Y', 'Build X up. Knock X down', 'say 1, say 2', 'Listen to X. say X'],
 'invalid-identifier': ['a1 is 5', 'x_y is 5', '_ is 1', 'say a1', 'Put 1 into a1', 'Let x2 be 1', 'x1', 'Build a1 up', 'ab\u0661c is 3', 'lo\U0001F600e is 5', 'say x\u0661', 'Put 1 into y\U0001F600'],
 'unterminated-string': ['"abc', '"', 'say "abc', 'Put "x into Y'],
 'stray-token': ['into X', 'with 5', 'plus 1', 'at 1', 'taking 1', "'s 5", ', say 1', '& say 1', 'and say 1', 'is 5', 'up', 'like a wall', 'than 1', 'as 1', '5', '"s"', 'true', '+ 1', '<= 1'],
}
BOUNDS = {'contexts': 'every sequence of 0..=2 units out of %d (statements, closed if / if-else / while blocks, a function, a two-line comment, two-line string literals, blank lines) before the fault, plus %d open-block contexts (fault inside an if / else / while / function / nested block), each with a valid continuation after the fault' % (len(UNITS), len(OPEN)),
          'faults': '%d context-independent faults in 6 classes (missing operand, missing keyword, two statements on one line, invalid identifier, unterminated string, stray token at statement start)' % sum(len(v) for v in FAULTS.values()),
          'noise': 'one symbolic character before the fault line\'s first token and (thorough tier) one at the end of the preceding line, each ranging over every ignorable ASCII character (blank other than line feed, ignorable punctuation) -- or absent',
          'observables': 'parse() returns Err; the line in ParseError::to_string() is the fault line'}
OUTSIDE = ['faults whose rejection depends on the context (e.g. else without if, which C01 covers for totality)', 'the unterminated string swallows the rest of the text by design: only its start line is checked', 'longer contexts']
ASSUMPTIONS = ['char predicates exact on ASCII', 'str / CharIndices / Option / Vec / itertools / fmt models (DESIGN.md §2.4)']
RULE = 'state = feasible path end of parse() + rendering on one (context, fault) text; the noise characters are symbolic, the lexer\'s decisions on them are solver-checked forks'


def noise_char(vm, name):
    """None (absent) or a symbolic ignorable character"""
    k = vm.fork(3, note=name)
    if k == 0: return None
    c = z3.BitVec(name, 32); vm.keep.append(c)
    if k == 1: vm.assume(z3.And(chartab.is_ascii_whitespace(c), c != 10))
    else:
        dom = [ord(x) for x in '!#$%:;?@[\\]^`{|}~']          # ignorable punctuation that is not itself a token
        vm.assume(z3.Or(*[c == v for v in dom])); vm.domains[c.get_id()] = set(dom)
    if not hasattr(vm, 'cp_width'): vm.cp_width = {}
    vm.cp_width[c.get_id()] = 1
    return c


def compose(vm, before, fault, after, symbolic=True):
    """text = before + [noise] + '\\n' + [noise] + fault + '\\n' + after; returns (BStr, fault line number, describe)"""
    pre = before + ('\n' if before and not before.endswith('\n') else '') if before else ''
    n1 = noise_char(vm, 'noise.end-of-previous-line') if (symbolic and getattr(vm, 'tier', 'quick') != 'quick' and pre.endswith('\n') and len(pre) > 1 and pre[-2] != '\n') else None
    n2 = noise_char(vm, 'noise.indent') if symbolic else None
    cps = [ord(c) for c in pre]
    if n1 is not None: cps.insert(len(cps) - 1, n1)
    if n2 is not None: cps.append(n2)
    line = 1 + pre.count('\n')
    cps += [ord(c) for c in fault + '\n' + after]
    text = BStr(Buf(cps, [1 if not isinstance(c, int) else utf8_len(c) for c in cps]))
    def describe(m):
        return {'text': ''.join(chr(c if isinstance(c, int) else m.eval(c, model_completion=True).as_long()) for c in cps), 'fault': fault, 'fault_line': line}
    return text, line, describe


def judge(vm, mir, text, line, describe, cls):
    vm.describe = describe
    r = conc(vm, parse_in_vm(vm, mir, text))
    out = []
    def bad(role, detail):
        m = model_of(vm)
        if m is not None: out.append(finding('violation', role, detail, describe(m), vm.notes))
    if r.variant == 0:
        bad(f'accepted:{cls}', 'a program with a syntax fault was accepted'); vm.witness = {'judged'}; return out
    s = display_to_string(vm, 'ParseError', Ref(Cell(r.fields[0])))
    msg = s.concrete() if isinstance(s, BStr) else None
    if msg is None:
        from ..values import zstr
        t = z3.simplify(to_sym(s)); msg = zstr(t) if z3.is_string_value(t) else None
    if msg is None:
        # the message embeds the (symbolic) offending text; the line number is in its concrete prefix
        try: msg = ''.join(chr(c) if isinstance(c, int) else '?' for c in s.chars())
        except Exception: raise Unmodelled('parse error message is not renderable to text')
    mm = re.match(r'Parse error \(line (\d+)\)', msg)
    if not mm: bad(f'message-format:{cls}', f'unexpected message {msg[:80]!r}')
    elif int(mm.group(1)) != line: bad(f'wrong-line:{cls}', f'fault on line {line}, reported line {mm.group(1)}: {msg[:80]!r}')
    vm.witness = {'judged', 'rejected'}
    return out


def h_fault(vm, mir, contexts, faults, noisy=True):
    ci = vm.fork(len(contexts), note='context') if len(contexts) > 1 else 0
    before, after = contexts[ci]
    fi = vm.fork(len(faults), note='fault') if len(faults) > 1 else 0
    cls, fault = faults[fi]
    text, line, describe = compose(vm, before, fault, after, symbolic=noisy)
    return judge(vm, mir, text, line, describe, cls)


def closed_contexts(maxlen):
    import itertools
    out = []
    for n in range(0, maxlen + 1):
        for seq in itertools.product(UNITS, repeat=n):
            out.append(('\n'.join(seq) + ('\n' if seq else ''), 'say 9\n'))
    return out


def jobs(ctx, tier):
    mir = ctx.mir('dev')
    faults = [(cls, f) for cls, fs in FAULTS.items() for f in fs]
    ctxs = closed_contexts(1 if tier == 'quick' else 2) + OPEN
    if tier == 'quick':
        # all faults x (0..1 units, open blocks); a rotating selection of faults x 2-unit contexts
        two = [c for c in closed_contexts(2) if c not in ctxs]
    js = []
    for k, c in enumerate(ctxs):
        noisy = tier != 'quick' or k == 0 or c in OPEN          # quick: symbolic noise for the empty context and the open-block contexts
        js.append(Job(f'context/{k}' + ('/noise' if noisy else ''), h_fault, (mir, [c], faults, noisy), witness=['judged', 'rejected'], str_mode='bounded', fuel=3_000_000, weight=90 if noisy else 30))
    if tier == 'quick':
        sel = [f for i, f in enumerate(faults) if i % 11 == 0]
        for k in range(0, len(two), 6):
            js.append(Job(f'context2/{k}', h_fault, (mir, two[k:k + 6], sel, False), witness=['judged', 'rejected'], str_mode='bounded', fuel=3_000_000, weight=30))
    return js


def validate(ctx):
    """(1) every context alone is a valid program natively (otherwise the fault would not be the only fault);
    (2) VM parse outcome + message == native on a sample of composed texts"""
    from ..vm import VM, Explorer
    mir = ctx.mir('dev'); nat = ctx.native('dev'); good, bad = 0, []
    for before, after in closed_contexts(2) + OPEN:
        src = before + ('\n' if before and not before.endswith('\n') else '') + after
        nv = nat.call({'op': 'parse', 'src': src}, timeout=10)
        if nv.get('ok'): good += 1
        else: bad.append({'invalid-context': src, 'native': {k: str(v)[:200] for k, v in nv.items()}})
    faults = [(cls, f) for cls, fs in FAULTS.items() for f in fs]
    for i, (cls, f) in enumerate(faults):
        before, after = (closed_contexts(1) + OPEN)[i % (len(UNITS) + 1 + len(OPEN))]
        vm = VM(mir, Explorer(), fuel=3_000_000); vm.str_mode = 'bounded'
        text, line, describe = compose(vm, before, f, after, symbolic=False)
        src = text.concrete()
        try:
            r = conc(vm, parse_in_vm(vm, mir, text))
            got = {'ok': True} if r.variant == 0 else {'ok': False, 'error': display_to_string(vm, 'ParseError', Ref(Cell(r.fields[0]))).concrete()}
        except PanicEdge as p: got = {'panic': str(p)}
        except Exception as e: got = {'exception': f'{type(e).__name__}: {e}'}
        nv = nat.call({'op': 'parse', 'src': src}, timeout=10)
        okk = ('panic' in got) if ('panic' in nv or 'crash' in nv) else (got.get('ok') is True if nv.get('ok') else (got.get('ok') is False and got.get('error') == nv.get('error')))
        if okk: good += 1
        else: bad.append({'parse': src, 'vm': got, 'native': {k: str(v)[:200] for k, v in nv.items()}})
    return good, bad


def replay(ctx, f):
    cex = f.get('cex') or {}
    out = {'reproduced': None}
    if 'text' not in cex: return out
    res = {}
    for prof in ('dev', 'release'):
        nv = ctx.native(prof).call({'op': 'parse', 'src': cex['text']}, timeout=10)
        out[prof + '_native'] = {k: str(v)[:160] for k, v in nv.items()}
        if f['kind'] in ('panic', 'ub', 'nonterm'): res[prof] = bool('panic' in nv or 'crash' in nv or 'timeout' in nv)
        elif f['role'].startswith('accepted'): res[prof] = bool(nv.get('ok'))
        else:
            mm = re.match(r'Parse error \(line (\d+)\)', nv.get('error') or '')
            res[prof] = (not nv.get('ok')) and (mm is None or int(mm.group(1)) != cex.get('fault_line'))
    out.update(res); out['reproduced'] = any(res.values())
    return out
