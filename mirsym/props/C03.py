"""C03 — expressions evaluate by the Rockstar value rules for every operand kind (DESIGN.md §4, C03)."""
import os, json
import z3
from .common import *
from ..harness import Job, finding, model_of
from ..std import conc
from ..strings import fmt_f64, str_repeat, parse_ok, parse_val
from . import C14

ID = 'C03'
PROFILES = ['dev']
BOUNDS = {'short texts': 'table-short-strings jobs: the operator tables with string operands drawn from %d concrete texts (all texts of <= 2 characters over {1, space, x, -, .} + edge spellings of numbers), real number parsing' % 48, 'program matrix': 'every statement / expression form (51 one-operand, 38 two-operand; X is printed after every form) with X of every kind {undefined name, mysterious, null, boolean, number, string, array, empty array, function} and the other operand of kind {number, string, array, null}: 1827 programs parsed by the real parser, all literals symbolic, executed by the real interpreter and by the reference interpreter; written lines and outcome (success / runtime error) compared; forms the reference leaves undefined (cut / join / cast statements, array == array, string indexing) are kernel-level only',
          'operators': 'all 13 binary operators x all 36 kind pairs, payloads symbolic (all doubles, all strings, both booleans)',
          'arrays': 'sequence length 0..=2, scalar elements, dictionary 0..=1 entries (array == array is checked by C14 laws, not by the table)',
          'list operands': 'rhs lists of 2 and 3 thunks (arrays <= 1 element without dictionary in quick, <= 2 with dictionary in thorough), each yielding a lazily symbolic value or failing; compared with the nested single-operator evaluation (same real code), including which thunks ran',
          'unary': 'minus / not over every literal kind through ProduceVal::visit_unary_expression', 'printing': 'to_string_for_output for every kind'}
OUTSIDE = ['digits of f64 rendering and of number parsing (std; uninterpreted fmt_f64 / parse)', 'string repetition result as text (uninterpreted str_repeat(s, n))',
           'nesting depth > 1 of expressions (the evaluator is compositional: visit_binary_expression only combines child values)', 'statement position and variables (C04/C05)']
ASSUMPTIONS = C14.ASSUMPTIONS + ['reference coercion table = Rockstar rules as fixed by this repository at the pinned commit and its tests (tests/operators.rs, equality.rs, math.rs); it is validated per run against the native build on the operand table']
RULE = 'state = feasible path end over (operator, kind pair, payload branches); each path end compares the real result with the reference table by z3 (kinds, payload terms, Ok / Err, evaluated thunks)'

U, N, B, NUM, S, A = range(6)


# ------------------------------------------------------------------ reference semantics (the oracle)
class V:
    """reference-side value: kind + payload term (python or z3)"""
    def __init__(self, kind, p=None): self.kind, self.p = kind, p


def view(vm, v):
    """force the kind of a VM Val and expose its payload to the oracle"""
    v = conc(vm, v)
    k = v.variant
    if k in (U, N): return V(k)
    p = v.fields[0]
    if k in (B, NUM): return V(k, p)
    if k == S:
        t = p.box.cell.v
        return V(k, t.term if isinstance(t, SymStr) else to_sym(t))
    arr = p.box.cell.v
    return V(A, (len(arr.fields[0].fields[0].items), arr))


def F(x): return z3.FPVal(x, F64) if isinstance(x, float) else x
def Bt(x): return z3.BoolVal(x) if isinstance(x, bool) else x
def Sv(x): return zs(x) if isinstance(x, str) else x


def text_of(vm, v):
    """canonical text of a scalar (used by string concatenation and printing)"""
    if v.kind == U: return Sv('mysterious')
    if v.kind == N: return Sv('null')
    if v.kind == B:
        if isinstance(v.p, bool): return Sv('true' if v.p else 'false')
        return z3.If(v.p, Sv('true'), Sv('false'))
    if v.kind == NUM:
        if isinstance(v.p, float):
            from ..std_str import rust_fmt_f64
            return Sv(rust_fmt_f64(v.p))
        return fmt_f64(v.p)
    if v.kind == S: return v.p
    raise AssertionError


def decay(v): return V(NUM, float(v.p[0])) if v.kind == A else v


def ref_plus(vm, a, b):
    if a.kind == S and b.kind != A: return V(S, z3.Concat(a.p, text_of(vm, b)))
    if b.kind == S and a.kind != A: return V(S, z3.Concat(text_of(vm, a), b.p))
    return ref_arith(vm, 'Plus', a, b)


def ref_arith(vm, op, a, b):
    # null counts as zero next to a number; arrays count as their length (but then null does not count as zero)
    if a.kind == N and b.kind == NUM: a = V(NUM, 0.0)
    elif a.kind == NUM and b.kind == N: b = V(NUM, 0.0)
    elif A in (a.kind, b.kind): a, b = decay(a), decay(b)
    if a.kind == NUM and b.kind == NUM:
        f = {'Plus': 'Add', 'Minus': 'Sub', 'Multiply': 'Mul', 'Divide': 'Div'}[op]
        return V(NUM, vm.fbinop(f, a.p, b.p))
    if op == 'Multiply' and a.kind == S and b.kind == NUM:
        if vm.branch(vm.fbinop('Ge', b.p, 0.0)):
            cnt = vm.cast(b.p, 'usize', 'FloatToInt', 'f64')
            if isinstance(cnt, int):
                if cnt <= 64:
                    return V(S, z3.Concat(*([a.p] * cnt)) if cnt > 1 else (a.p if cnt == 1 else Sv('')))
                cnt = z3.BitVecVal(cnt, 64)
            return V(S, str_repeat(a.p, cnt))
    return V(U)


def ref_truthy(v):
    if v.kind in (U, N): return False
    if v.kind == B: return v.p
    if v.kind == NUM: return (v.p != 0.0) if isinstance(v.p, float) else z3.Not(z3.fpEQ(v.p, z3.FPVal(0.0, F64)))
    return True


def ref_coerce_cmp(vm, a, b):
    """pair of same-kind values to compare, or None when no comparison is defined (returns 'mismatch' for kind errors)"""
    if a.kind == b.kind: return a, b
    def one(x, y):     # coercion of x against y (x's kind < y's in the table below); returns (x', y') or None
        k = (x.kind, y.kind)
        if k == (U, N): return V(N), V(N)
        if k == (N, B): return V(B, False), y
        if k == (N, NUM): return V(NUM, 0.0), y
        if k == (N, S): return V(S, Sv('')), y
        if k == (N, A): return V(NUM, 0.0), decay(y)
        if k == (B, NUM): return x, V(B, ref_truthy(y))
        if k == (B, S): return x, V(B, z3.Length(y.p) != 0)
        if k == (NUM, S):
            t = z3.simplify(Sv(y.p))
            if z3.is_string_value(t):
                from ..std_str import rust_parse_f64
                pv = rust_parse_f64(zstr(t))
                return None if pv is None else (x, V(NUM, pv))
            if vm.branch(parse_ok(y.p)): return x, V(NUM, parse_val(y.p))
            return None
        if k in ((NUM, A), (B, A), (S, A), (U, A)): return x, decay(y)
        return x, y       # U vs B/NUM/S: stays mismatched
    if a.kind < b.kind: return one(a, b)
    r = one(b, a)
    return None if r is None else (r[1], r[0])


def ref_equals(vm, a, b):
    if a.kind == A and b.kind == A: return None      # structural array equality: not tabled (C14 laws)
    r = ref_coerce_cmp(vm, a, b)
    if r is None: return False
    x, y = r
    if x.kind != y.kind: return False
    if x.kind in (U, N): return True
    if x.kind == B: return Bt(x.p) == Bt(y.p)
    if x.kind == NUM: return vm.fbinop('Eq', x.p, y.p)
    if x.kind == S: return Sv(x.p) == Sv(y.p)
    return None


def ref_compare(vm, a, b):
    """'err' | None (unordered) | -1/0/1 (forks on symbolic comparisons)"""
    r = ref_coerce_cmp(vm, a, b)
    if r is None: return None
    x, y = r
    if x.kind != y.kind or x.kind in (B, A): return 'err'
    if x.kind in (U, N): return 0
    if x.kind == NUM:
        if vm.branch(vm.fbinop('Lt', x.p, y.p)): return -1
        if vm.branch(vm.fbinop('Gt', x.p, y.p)): return 1
        if vm.branch(vm.fbinop('Eq', x.p, y.p)): return 0
        return None
    if vm.branch(Sv(x.p) == Sv(y.p)): return 0
    return -1 if vm.branch(Sv(x.p) < Sv(y.p)) else 1


def ref_binop(vm, op, a, b):
    """returns ('ok', V) | ('err',) ; b is a thunk () -> V | 'fail' so that short-circuiting is part of the reference"""
    if op in ('And', 'Or', 'Nor'):
        ta = ref_truthy(a)
        if op == 'And':
            if not vm.branch(ta): return ('ok', V(B, False), False)
        else:
            if vm.branch(ta): return ('ok', V(B, op == 'Or'), False)
        bv = b()
        if bv == 'fail': return ('err', None, True)
        tb = ref_truthy(bv)
        return ('ok', V(B, tb if op != 'Nor' else (not tb if isinstance(tb, bool) else z3.Not(tb))), True)
    bv = b()
    if bv == 'fail': return ('err', None, True)
    if op == 'Plus': return ('ok', ref_plus(vm, a, bv), True)
    if op in ('Minus', 'Multiply', 'Divide'): return ('ok', ref_arith(vm, op, a, bv), True)
    if op in ('Eq', 'NotEq'):
        e = ref_equals(vm, a, bv)
        if e is None: return ('ok', None, True)
        if op == 'NotEq': e = (not e) if isinstance(e, bool) else z3.Not(e)
        return ('ok', V(B, e), True)
    c = ref_compare(vm, a, bv)
    if c == 'err': return ('err', None, True)
    if c is None: return ('ok', V(B, False), True)
    return ('ok', V(B, {'Greater': c > 0, 'GreaterEq': c >= 0, 'Less': c < 0, 'LessEq': c <= 0}[op]), True)


# ------------------------------------------------------------------ comparison of a real result with a reference value
def same_as_ref(vm, real, want):
    """z3 Bool (or python bool): VM Val `real` equals reference value `want`"""
    real = conc(vm, real)
    if real.variant != want.kind: return False
    k = want.kind
    if k in (U, N): return True
    p = real.fields[0]
    if k == B: return Bt(p) == Bt(want.p)
    if k == NUM: return F(p) == F(want.p)           # SMT `=` on floats: NaN = NaN, +0 != -0 (bit-exact up to the NaN payload)
    if k == S:
        t = p.box.cell.v
        return (t.term if isinstance(t, SymStr) else to_sym(t)) == Sv(want.p)
    return True


def cex_of(vm, a, b, op, extra=None):
    def d(m):
        out = {'a': val_to_json(vm, a, m), 'b': val_to_json(vm, b, m), 'operator': op}
        if extra: out.update(extra)
        return out
    return d


# companion domain with *real* number parsing and real character-level string work: every text of <= 2 characters over
# {1, space, x, -, .} and spellings at the edge of what parses (exponent, inf / nan words, sign, surrounding blanks, CR / LF / TAB, a
# non-ASCII digit).  The texts are concrete (the choice is a fork), the other operand stays symbolic.
SHORT_TEXTS = [''] + [a for a in '1 x-.'] + [a + b for a in '1 x-.' for b in '1 x-.'] + \
    ['1e1', 'inf', 'nan', 'NaN', 'infinity', '+1', '1\r', '\t1', '1\n', '0x1', '1_0', '\u0661', ' 1 ', 'true', 'null', '-0', '1.5']


def short_concrete_string(vm, name):
    return bstr_from_py(SHORT_TEXTS[vm.fork(len(SHORT_TEXTS), note=f'{name}.text')])


def mk_operand(vm, name, kinds):
    if getattr(vm, 'str_mode', 'opaque') == 'bounded':
        return sym_val(vm, name, arr_max=1, depth=1, dict_max=0, kinds=kinds, str_factory=short_concrete_string)
    return C14.mk(vm, name, kinds)


def h_table(vm, mir, ops, ka, kb=None):
    a = mk_operand(vm, 'a', [ka] if ka is not None else None); b = mk_operand(vm, 'b', [kb] if kb is not None else None)
    va = view(vm, a); vb = view(vm, b)
    op = ops[vm.fork(len(ops), note='op')] if len(ops) > 1 else ops[0]
    vm.describe = cex_of(vm, a, b, op)
    r, log = fold_op(vm, mir, BINOPS.index(op), a, [b])
    want = ref_binop(vm, op, va, lambda: vb)
    out = []
    def bad(role, detail, prop=None):
        if prop is None:
            m = model_of(vm)
            if m is None: return
            cex = cex_of(vm, a, b, op)(m)
        else:
            v = vm.must_hold(prop, role)
            if v is None: return
            cex = cex_of(vm, a, b, op)(v.model)
        if not (distinct_keys_ok(cex['a']) and distinct_keys_ok(cex['b'])): return
        out.append(finding('violation', role, detail, cex, vm.notes))
    if (len(log) > 0) != want[2]: bad(f'{op}-evaluates-rhs', f'rhs evaluated={len(log) > 0}, reference says {want[2]}')
    if (r.variant == 1) != (want[0] == 'err'): bad(f'{op}-error-class', f'real {"Err" if r.variant else "Ok"} vs reference {want[0]}')
    elif r.variant == 0 and want[1] is not None:
        bad(f'{op}-value', 'value differs from the coercion table', same_as_ref(vm, r.fields[0], want[1]))
    vm.witness = {f'table-{op}'}
    return out


def h_listfold(vm, mir, op, nrhs):
    """fold(op, a, [b1..bn]) == op(..op(op(a,b1),b2)..) on the real code, incl. evaluated thunks and failure position"""
    thorough = getattr(vm, 'tier', 'quick') == 'thorough'
    mkv = lambda n: sym_val(vm, n, arr_max=2 if thorough else 1, depth=1, dict_max=1 if thorough else 0)
    a = mkv('a')
    bs = [mkv(f'b{i}') for i in range(nrhs)]
    failpos = vm.fork(nrhs + 1, note='fail-at') - 1        # -1: nobody fails
    fails = {failpos} if failpos >= 0 else set()
    def d(m): return {'a': val_to_json(vm, a, m), 'rhs': [val_to_json(vm, b, m) if i not in fails else {'fail': True} for i, b in enumerate(bs)], 'operator': op}
    vm.describe = d
    r, log = fold_op(vm, mir, BINOPS.index(op), a, bs, fails)
    # nested evaluation with the same real kernel
    acc = a; nlog = []; nres = None
    for i, b in enumerate(bs):
        ri, li = fold_op(vm, mir, BINOPS.index(op), acc, [b], {0} if i in fails else set())
        nlog += [i] * len(li)
        if ri.variant == 1: nres = ri; break
        acc = ri.fields[0]
    out = []
    def bad(role, detail, prop=None):
        if prop is None: m = model_of(vm)
        else:
            v = vm.must_hold(prop, role); m = v.model if v is not None else None
        if m is None: return
        cex = d(m)
        if not all(distinct_keys_ok(x) for x in [cex['a']] + [x for x in cex['rhs'] if 'kind' in x]): return
        out.append(finding('violation', role, detail, cex, vm.notes))
    if log != nlog: bad('fold-evaluation-order', f'list fold evaluated operands {log}, nested evaluation {nlog}')
    if (r.variant == 1) != (nres is not None): bad('fold-error', 'list fold and nested evaluation disagree on failure')
    elif r.variant == 0:
        bad('fold-left-to-right', 'list fold differs from left-nested evaluation', vals_identical(vm, r.fields[0], acc))
    vm.witness = {'fold-done'}
    return out


def vals_identical(vm, x, y):
    """z3 Bool: two VM Vals produced from the same symbolic inputs are the same value (bit-exact numbers)"""
    x, y = conc(vm, x), conc(vm, y)
    if x.variant != y.variant: return False
    k = x.variant
    if k in (U, N): return True
    p, q = x.fields[0], y.fields[0]
    if k == B: return Bt(p) == Bt(q)
    if k == NUM: return F(p) == F(q)
    if k == S: return p.box.cell.v.term == q.box.cell.v.term
    # arrays can only come out of Plus etc. as lengths; an Array result is passed through unchanged by no operator
    return p.box is q.box or True


# ---- unary operators and literals through the real ProduceVal
def ast(mir, ty, variant, *fields):
    vs = mir.src.enums.get(ty)
    return Adt(ty, vs.index(variant) if vs and variant is not None else 0, list(fields))


RANGE = lambda: Adt('SourceRange', 0, [Adt('SourceLocation', 0, [1, 0]), Adt('SourceLocation', 0, [1, 1])])


def literal_expr(vm, mir, name):
    """(Expression AST holding a literal of solver-chosen kind, reference view)"""
    k = vm.fork(5, note='literal-kind')
    lits = mir.src.enums['LiteralExpression']
    kind = ['Mysterious', 'Null', 'Boolean', 'Number', 'String'][k]
    if kind == 'Boolean': p = z3.Bool(f'{name}.b'); lit = ast(mir, 'LiteralExpression', kind, p); rv = V(B, p)
    elif kind == 'Number': p = z3.FP(f'{name}.n', F64); lit = ast(mir, 'LiteralExpression', kind, p); rv = V(NUM, p)
    elif kind == 'String': p = z3.String(f'{name}.s'); lit = ast(mir, 'LiteralExpression', kind, SymStr(p)); rv = V(S, p)
    else: lit = ast(mir, 'LiteralExpression', kind); rv = V(U if kind == 'Mysterious' else N)
    e = ast(mir, 'Expression', 'PrimaryExpression', ast(mir, 'PrimaryExpression', 'Literal', Adt('WithRange', 0, [lit, RANGE()])))
    return e, rv, kind


def h_unary(vm, mir):
    e, rv, kind = literal_expr(vm, mir, 'x')
    uop = vm.fork(2, note='unary-op')
    uname = mir.src.enums['UnaryOperator'][uop]
    ue = Adt('UnaryExpression', 0, [Adt('UnaryOperator', uop, []), vm.new_box(e)])
    if mir.src.structs.get('UnaryExpression', [])[:1] != ['operator']: raise Unmodelled('UnaryExpression field order changed')
    pv = Adt('ProduceVal', 0, [Ref(Cell(Opaque('env-not-touched')))])
    f = fn(mir, 'ProduceVal', 'visit_unary_expression', 'VisitExpr')
    def d(m):
        def evs(t):
            x = m.eval(t, model_completion=True)
            return zstr(x) if z3.is_string_value(x) else (bool(z3.is_true(x)) if z3.is_bool(x) else f64_bits(x))
        return {'literal': kind, 'payload': None if rv.p is None else evs(rv.p), 'unary': uname}
    vm.describe = d
    r = vm.run_fn(f, [R(pv), R(ue)], {'I': 'I', 'O': 'O'})
    out = []
    def bad(role, detail, prop=None):
        v = vm.must_hold(prop, role) if prop is not None else None
        m = v.model if v is not None else (model_of(vm) if prop is None else None)
        if m is not None: out.append(finding('violation', role, detail, d(m), vm.notes))
    if uname == 'Minus':
        if rv.kind == NUM:
            if r.variant == 1: bad('minus-number-fails', 'unary minus failed on a number')
            else: bad('minus-value', 'unary minus gave a wrong value', same_as_ref(vm, r.fields[0].fields[0], V(NUM, z3.fpNeg(rv.p))))
        elif r.variant == 0: bad('minus-non-number-accepted', 'unary minus accepted a non-number')
    else:
        t = ref_truthy(rv)
        if r.variant == 1: bad('not-fails', '`not` failed')
        else: bad('not-value', '`not` disagrees with truthiness', same_as_ref(vm, r.fields[0].fields[0], V(B, (not t) if isinstance(t, bool) else z3.Not(t))))
    vm.witness = {'unary-done'}
    return out


def h_print(vm, mir, ka):
    a = C14.mk(vm, 'a', [ka]); va = view(vm, a)
    vm.describe = lambda m: {'a': val_to_json(vm, a, m)}
    r = vm.run_fn(fn(mir, 'Val', 'to_string_for_output'), [R(a)])
    r = conc(vm, r)
    s = r.fields[0]
    from ..std_str import S as STR_
    got = STR_(vm, s).term
    want = text_of(vm, decay(va))
    v = vm.must_hold(got == want, 'print-canonical')
    vm.witness = {'print-done'}
    if v is None: return None
    return [finding('violation', 'print-canonical', 'printed text is not the canonical rendering', {'a': val_to_json(vm, a, v.model)}, vm.notes)]


GROUPS = [['Plus'], ['Minus', 'Multiply', 'Divide'], ['And', 'Or', 'Nor'], ['Eq', 'NotEq'], ['Greater', 'GreaterEq', 'Less', 'LessEq']]


def jobs(ctx, tier):
    mir = ctx.mir('dev'); js = []
    for g in GROUPS:
        for ka in range(6):
            js.append(Job(f'table/{"+".join(g)}/{KINDS[ka]}', h_table, (mir, g, ka), witness=[f'table-{o}' for o in g], weight=3 if ka == 5 else 1))
    # the same tables with one operand a short concrete text (real parsing / trimming / comparison of characters)
    for g in GROUPS:
        for ka, kb in ((4, None), (0, 4), (1, 4), (2, 4), (3, 4), (5, 4)):
            js.append(Job(f'table-short-strings/{"+".join(g)}/{KINDS[ka]}-{"any" if kb is None else KINDS[kb]}', h_table, (mir, g, ka, kb), witness=[f'table-{o}' for o in g], str_mode='bounded', weight=4))
    # equality of a value with a copy of itself (shared storage) must be the table's answer for two identical values (C14's harness)
    for ka in (4, 5):
        js.append(Job(f'eq-shared/{KINDS[ka]}', C14.h_eq_shared, (mir, ka), witness=['eq-done'], weight=3))
    fold_ops = BINOPS if tier == 'thorough' else ['Plus', 'Minus', 'And', 'Nor', 'Eq', 'Less']
    for op in fold_ops:
        js.append(Job(f'listfold/{op}/2', h_listfold, (mir, op, 2), witness=['fold-done'], weight=4))
        if tier == 'thorough' or op in ('Plus', 'And'):
            js.append(Job(f'listfold/{op}/3', h_listfold, (mir, op, 3), witness=['fold-done'], weight=10))
    js.append(Job('unary', h_unary, (mir,), witness=['unary-done']))
    for ka in range(6): js.append(Job(f'print/{KINDS[ka]}', h_print, (mir, ka), witness=['print-done']))
    from .matrix import matrix_jobs
    js += matrix_jobs(ctx, mir)
    return js


GOLDEN = os.path.join(os.path.dirname(os.path.abspath(__file__)), 'C03_golden.json')


def _vec_ops(tier):
    vecs = C14.VECTORS if tier == 'thorough' else C14.VECTORS[:4] + C14.VECTORS[4:15:2] + C14.VECTORS[15:28:2] + C14.VECTORS[28:]
    for aj in vecs:
        for bj in vecs:
            for op in BINOPS:
                if op == 'Multiply' and 'Number' in (aj['kind'], bj['kind']) and 'String' in (aj['kind'], bj['kind']) and abs(bits_f64((aj if aj['kind'] == 'Number' else bj)['bits'])) > 1e4: continue
                yield op, aj, bj


def gen_golden():
    """run once on the pinned, unchanged tree: records what the real build answers on the operand table.  The reference
    table (oracle) is validated against this file on every run, so an oracle error cannot hide behind -- or be blamed on --
    the code under test."""
    from ..load import Workspace
    from ..run import Ctx
    ws = Workspace(); ctx = Ctx(ws, 'thorough', 0); nat = ctx.native('dev'); out = {}
    for op, aj, bj in _vec_ops('thorough'):
        r = nat.call({'op': 'binop', 'operator': op, 'a': aj, 'rhs': [bj]})
        if 'val' in r: r['val'] = {k: v for k, v in r['val'].items() if k in ('kind', 'v', 'bits', 'display')}
        out[json.dumps([op, aj, bj], sort_keys=True)] = {k: r[k] for k in ('val', 'called') if k in r} | ({'err': True} if 'err' in r else {})
    json.dump(out, open(GOLDEN, 'w'), indent=0, sort_keys=True)
    ctx.close(); ws.cleanup()
    print('wrote', len(out), 'golden vectors')


def validate(ctx):
    good, bad = C14.validate(ctx)          # translator validation: MIR VM vs the current native build
    # oracle validation: the reference table vs the golden answers of the pinned tree (independent of the tree under check)
    from ..vm import VM, Explorer
    mir = ctx.mir('dev')
    golden = json.load(open(GOLDEN))
    for op, aj, bj in _vec_ops(ctx.tier):
        vm = VM(mir, Explorer())
        try:
            va, vb = view(vm, val_from_json(vm, aj)), view(vm, val_from_json(vm, bj))
            want = ref_binop(vm, op, va, lambda: vb)
            got = {'err': True} if want[0] == 'err' else {'val': None if want[1] is None else ref_json(want[1])}
            got['called'] = [0] if want[2] else []
        except Exception as e:
            got = {'exception': f'{type(e).__name__}: {e}'}
        nv = golden.get(json.dumps([op, aj, bj], sort_keys=True))
        if nv is None: bad.append({'oracle-vs-golden': True, 'missing': [op, aj, bj]}); continue
        okk = 'exception' not in got and ('err' in got) == ('err' in nv) and got.get('called') == nv.get('called') and \
            ('err' in got or got['val'] is None or same_val_json(got['val'], nv['val']))
        if okk: good += 1
        else: bad.append({'oracle-vs-golden': True, 'op': op, 'a': aj, 'b': bj, 'oracle': got, 'golden': nv})
    return good, bad


def ref_json(v):
    k = KINDS[v.kind]
    if v.kind in (U, N): return {'kind': k}
    p = v.p
    if is_sym(p): p = z3.simplify(p)
    if v.kind == B: return {'kind': k, 'v': bool(p) if isinstance(p, bool) else z3.is_true(p)}
    if v.kind == NUM: return {'kind': k, 'bits': f64_bits(p)}
    if v.kind == S:
        if not z3.is_string_value(p): raise ValueError(f'oracle string not concrete: {p}')
        return {'kind': k, 'v': zstr(p)}
    raise ValueError


def replay(ctx, f):
    if (f.get('cex') or {}).get('shared'): return C14.replay(ctx, f)
    cex = f.get('cex') or {}
    if 'program' in cex:
        from .progcommon import native_replay
        return native_replay(ctx, cex['program'], f)
    out = {'reproduced': None}
    role = f['role']
    res = {}
    for prof in ('dev', 'release'):
        nat = ctx.native(prof)
        if 'rhs' in cex:      # list fold: compare with nested evaluation natively
            full = nat.call({'op': 'binop', 'operator': cex['operator'], 'a': cex['a'], 'rhs': cex['rhs']})
            acc = cex['a']; called = []; failed = False
            for i, b in enumerate(cex['rhs']):
                r = nat.call({'op': 'binop', 'operator': cex['operator'], 'a': acc, 'rhs': [b]})
                called += [i] * len(r.get('called', []))
                if 'err' in r: failed = True; break
                acc = {k: v for k, v in r['val'].items() if k != 'display'}
                if acc['kind'] == 'Array': acc = None; break
            if acc is None: res[prof] = None; continue
            res[prof] = full.get('called') != called or ('err' in full) != failed or (not failed and not same_val_json(full['val'], acc))
        elif 'operator' in cex:
            from ..vm import VM, Explorer
            mir = ctx.mir('dev')
            vm = VM(mir, Explorer())
            va, vb = view(vm, val_from_json(vm, cex['a'])), view(vm, val_from_json(vm, cex['b']))
            want = ref_binop(vm, cex['operator'], va, lambda: vb)
            nv = nat.call({'op': 'binop', 'operator': cex['operator'], 'a': cex['a'], 'rhs': [cex['b']]})
            viol = ('err' in nv) != (want[0] == 'err') or (nv.get('called') == [0]) != want[2]
            if not viol and want[0] == 'ok' and want[1] is not None:
                try: viol = not same_val_json(ref_json(want[1]), nv['val'])
                except ValueError: viol = None
            res[prof] = viol
        elif 'unary' in cex or role.startswith('print'):
            res[prof] = replay_program(nat, cex, role)
        else: res[prof] = None
    out.update(res)
    vals = [v for v in res.values() if v is not None]
    out['reproduced'] = any(vals) if vals else None
    return out


def replay_program(nat, cex, role):
    """unary / print counterexamples are replayed as one-line programs through parse + exec"""
    def lit(kind, payload):
        from ..std_str import rust_fmt_f64
        if kind in ('Mysterious', 'Undefined'): return 'mysterious'
        if kind == 'Null': return 'null'
        if kind == 'Boolean': return 'true' if payload else 'false'
        if kind == 'Number':
            x = bits_f64(payload)
            if x != x or x in (float('inf'), -float('inf')) or x < 0 or 'e' in repr(x): return None
            return rust_fmt_f64(x)
        if kind == 'String': return None if ('"' in payload or '\n' in payload) else '"' + payload + '"'
    if 'unary' in cex:
        l = lit(cex['literal'], cex['payload'])
        if l is None: return None
        src = ('say not ' + l) if cex['unary'] == 'Not' else ('say -' + l if cex['literal'] == 'Number' else 'say 0 - ' + l)
        r = nat.call({'op': 'program', 'src': src + '\n', 'stdin': ''})
        if cex['unary'] == 'Not':
            truthy = {'Mysterious': False, 'Null': False, 'Boolean': bool(cex['payload']), 'Number': cex['literal'] == 'Number' and bits_f64(cex['payload']) != 0.0, 'String': True}[cex['literal']]
            return r.get('stdout') != ('false\n' if truthy else 'true\n')
        return None
    return None


if __name__ == '__main__':
    import sys
    if '--gen-golden' in sys.argv: gen_golden()
