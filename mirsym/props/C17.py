"""C17 — the constant folder only reports values the interpreter would compute (DESIGN.md §4, C17)."""
import z3
from .common import *
from ..harness import Job, finding, model_of
from ..std import conc
from ..astgen import Gen, N
from . import C03

ID = 'C17'
PROFILES = ['dev']
BOUNDS = {'trees': 'expression trees with the root and 1 (thorough 2) further free levels: every Expression / PrimaryExpression variant at each level, list operands of 1..=3 elements (first ranging, others minimal), every operator (symbolic), leaf literals ranging over {number (any double), string (any string), null} on the top two levels and numbers below',
          'folders': 'NumericConstantFolder and SimpleStringConstantFolder::visit_expression, compared with ProduceVal::visit_expression on the same tree under an environment that must not be touched'}
OUTSIDE = ['trees deeper than the bound (both folder and evaluator are compositional: a disagreement needs one operator node with arbitrary child results, which one free level with symbolic leaves supplies)', 'poetic literals as operands (they occur only as whole right-hand sides: C18 pass harness)']
ASSUMPTIONS = C03.ASSUMPTIONS
RULE = 'state = feasible path end over (tree shape, operator groups, literal kinds, payload branches); each asserts with z3 that a folded value is bit-identical to the evaluated value, that pure arithmetic trees fold, and that trees reading state do not'

ARITH = {'Plus', 'Minus', 'Multiply', 'Divide'}


def classify(node, mir, vm):
    """reference facts about a tree: (pure_arith, reads_state) -- pure_arith: only number literals, unary minus, + - * /"""
    pure, reads = True, False
    for n in node.walk():
        if n.ty == 'PrimaryExpression':
            if n.variant == 'Literal':
                lit = n.ch['0'].ch['inner']
                if lit.variant != 'Number': pure = False
            else:
                pure = False; reads = True
        elif n.ty == 'Identifier': reads = True
    return pure, reads


def op_is_arith(vm, opnode, names):
    """force the operator group (arithmetic or not) on this path"""
    se = opnode.adt
    idx = [i for i, nme in enumerate(names) if nme in ARITH or (names is not None and nme == 'Minus' and len(names) == 2)]
    cond = z3.Or(*[se.disc == i for i in idx]) if len(idx) > 1 else se.disc == idx[0]
    return vm.branch(cond)


def h_fold(vm, mir, root_variant, depth, forces=()):
    gen = Gen(vm, mir, list_max=2)
    gen.force['root'] = root_variant
    for k, v in forces: gen.force[k] = v
    # operands of the root (one level down) range over every literal kind the folders may meet; deeper leaves are numbers
    def lit_kinds(path):
        lvl = path.count('Expression.0') + path.count('.lhs') + path.count('.rhs') + path.count('.operand')
        if depth >= 3: return ['Number', 'String', 'Null'] if lvl <= 2 else ['Number']          # the deep (thorough) trees: numbers below the root literal
        return ['Number', 'String', 'Null', 'Boolean', 'Mysterious'] if lvl <= 4 else ['Number']    # root + one level: operands of the root of every literal kind
    gen.min_choices['LiteralExpression'] = lit_kinds
    adt, node = gen.gen('Expression', depth, 'root')
    vm.describe = lambda m: {'tree': node.describe()}
    out = []
    def bad(role, detail, prop=None):
        if prop is None: m = model_of(vm)
        else:
            v = vm.must_hold(prop, role); m = v.model if v is not None else None
        if m is None: return
        out.append(finding('violation', role, detail, {'tree': node.describe(), 'literals': literal_values(node, m)}, vm.notes))
    nf = vm.run_fn(fn(mir, 'NumericConstantFolder', 'visit_expression', 'VisitExpr') if mir.by_impl.get(('VisitExpr', 'NumericConstantFolder', 'visit_expression')) else
                   [x for x in mir.by_name['visit_expression'] if x.name == 'VisitExpr::visit_expression'][0],
                   [R(Adt('NumericConstantFolder', 0, [])), R(adt)], {'Self': 'NumericConstantFolder'})
    sf = vm.run_fn([x for x in mir.by_name['visit_expression'] if x.name == 'VisitExpr::visit_expression'][0],
                   [R(Adt('SimpleStringConstantFolder', 0, [])), R(adt)], {'Self': 'SimpleStringConstantFolder'})
    pure, reads = classify(node, mir, vm)
    # operators: pure arithmetic also needs every binary operator in + - * / and every unary operator to be minus
    bnames, unames = mir.src.enums['BinaryOperator'], mir.src.enums['UnaryOperator']
    all_arith = True
    for n in node.walk():
        if n.ty == 'BinaryOperator':
            if not vm.branch(z3.Or(*[n.adt.disc == bnames.index(x) for x in ARITH])): all_arith = False
        elif n.ty == 'UnaryOperator':
            if not vm.branch(n.adt.disc == unames.index('Minus')): all_arith = False
    if reads and nf.variant == 0: bad('numeric-folds-state', 'numeric folder reported a value for an expression that reads a variable / pronoun / element / call / pop')
    if reads and sf.variant == 0: bad('string-folds-state', 'string folder reported a value for an expression that reads state')
    if pure and all_arith and nf.variant != 0: bad('numeric-incomplete', 'numeric folder failed on an expression built only from number literals, unary minus and + - * /')
    if nf.variant == 0 or sf.variant == 0:
        env = Opaque('environment-must-not-be-touched')
        pv = Adt('ProduceVal', 0, [Ref(Cell(env))])
        try:
            ev = vm.run_fn([x for x in mir.by_name['visit_expression'] if x.name == 'VisitExpr::visit_expression'][0], [R(pv), R(adt)], {'Self': 'ProduceVal<I, O>', 'I': 'I', 'O': 'O'})
        except (Unmodelled, AttributeError, TypeError) as e:
            if 'environment' in str(e) or 'Opaque' in str(e): ev = None; bad('folded-tree-reads-environment', f'a folded expression reads the environment when evaluated ({e})')
            else: raise
        if ev is not None:
            if ev.variant != 0: bad('folded-but-evaluation-fails', 'the folder reported a value but evaluation fails')
            else:
                val = conc(vm, ev.fields[0].fields[0])
                if nf.variant == 0:
                    c = nf.fields[0].fields[0]
                    if val.variant != 3: bad('numeric-fold-kind', 'numeric folder reported a value but evaluation does not yield a number')
                    else: bad('numeric-fold-value', 'folded number differs from the evaluated number', vm.fp(c) == vm.fp(val.fields[0]))
                if sf.variant == 0:
                    c = sf.fields[0].fields[0]
                    if val.variant != 4: bad('string-fold-kind', 'string folder reported a value but evaluation does not yield a string')
                    else: bad('string-fold-value', 'folded string differs from the evaluated string', to_sym(c) == to_sym(val.fields[0].box.cell.v))
    vm.witness = {'fold-done'} | ({'folded'} if nf.variant == 0 else set())
    return out


def literal_values(node, m):
    out = []
    for n in node.walk():
        if n.ty == 'LiteralExpression' and n.variant in ('Number', 'String', 'Boolean'):
            k, t = n.ch['0']
            v = m.eval(t, model_completion=True)
            out.append([n.variant, f64_bits(v) if k == 'num' else (zstr(v) if k == 'str' else bool(z3.is_true(v)))])
        elif n.ty in ('BinaryOperator', 'UnaryOperator'):
            out.append([n.ty, m.eval(n.adt.disc, model_completion=True).as_long()])
    return out


def jobs(ctx, tier):
    mir = ctx.mir('dev'); js = []
    ev = mir.src.enums['Expression']
    for d in ((2, 3) if tier == 'thorough' else (2,)):
      for v in ev:
          if v == 'BinaryExpression':
              # sharded by the kinds of the left operand and of the first right operand
              for l in ev:
                  for r in ev:
                      js.append(Job(f'fold/depth{d}/{v}/lhs={l}/rhs={r}', h_fold, (mir, v, d, (('root.BinaryExpression.0.BinaryExpression.lhs', l), ('root.BinaryExpression.0.BinaryExpression.rhs.ExpressionList.first', r))),
                                    witness=['fold-done'], weight=10, fuel=6_000_000))
          else:
              js.append(Job(f'fold/depth{d}/{v}', h_fold, (mir, v, d), witness=['fold-done'], weight=3, fuel=6_000_000))
    return js


def validate(ctx):
    return C03.validate(ctx)


def unparse(node, lits):
    """Rockstar text of a (literal-only) expression tree -- used for native replay"""
    it = iter(lits)
    BIN = ['+', '-', '*', '/', 'and', 'or', 'nor', 'is', "isn't", 'is greater than', 'is as great as', 'is less than', 'is as little as']
    def lit(n):
        if n.variant == 'Number':
            _, bits = next(it); x = bits_f64(bits)
            from ..std_str import rust_fmt_f64
            if x != x or x in (float('inf'), -float('inf')) or x < 0: raise ValueError
            s = rust_fmt_f64(x)
            if len(s) > 25: raise ValueError
            return s
        if n.variant == 'String':
            _, s = next(it)
            if '"' in s or '\n' in s: raise ValueError
            return '"' + s + '"'
        if n.variant == 'Boolean':
            _, b = next(it); return 'true' if b else 'false'
        return 'null' if n.variant == 'Null' else 'mysterious'
    def expr(n):
        p = n.ch['0']
        if n.variant == 'PrimaryExpression':
            if p.variant != 'Literal': raise ValueError
            return lit(p.ch['0'].ch['inner'])
        if n.variant == 'UnaryExpression':
            _, op = next(it); inner = expr(p.ch['operand'])
            return ('-' if op == 0 else 'not ') + inner
        l = expr(p.ch['lhs']); _, op = next(it)
        rhs = [expr(p.ch['rhs'].ch['first'])] + [expr(x) for x in p.ch['rhs'].ch['rest']]
        return f'{l} {BIN[op]} ' + ', '.join(rhs)
    return expr(node)


def replay(ctx, f):
    # a folding disagreement is replayed through the linter (which reports folded constants) vs. the interpreter's output
    return {'reproduced': None, 'note': 'tree-shaped counterexample: native replay requires unparsing; see C18 replay for the lint-level reproduction'}
