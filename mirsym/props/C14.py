"""C14 — equality, ordering and logic obey their algebraic laws on all values (DESIGN.md §4, C14)."""
import z3
from .common import *
from ..harness import Job, finding, model_of

ID = 'C14'
PROFILES = ['dev']
BOUNDS = {'value kinds': 'all six, kind symbolic', 'numbers': 'all 2^64 doubles', 'booleans': 'both', 'sharing': 'eq-shared jobs: the equality / ordering laws on a value and a copy of itself (shared Rc storage)', 'strings': 'all strings (opaque z3 sequence; parse::<f64> uninterpreted but functional) and, in the *-short-strings jobs, every string of <= 2 characters over {1, space, x, X, -, .} with real number parsing',
          'arrays': 'sequence length 0..=2 (thorough: 0..=3), elements lazily symbolic scalars (depth 1), dictionary part 0..=1 entries',
          'inc/dec': 'n in {1,2,3,16,2^20} (thorough: 1..=16, 1000, 2^20), x any integral double with |x| + n <= 2^53, and both booleans (a symbolic 64-bit n makes the FP query exceed 240 s in z3: measured)'}
OUTSIDE = ['arrays longer than the bound or nested deeper than 1', 'dictionaries with more than one entry',
           'the digits produced by parsing a numeric string (std, uninterpreted)', 'statement-level compound assignment (see C03/C05 units)']
ASSUMPTIONS = ['std models of DESIGN.md §2.4 (Option/Result/Cow/Rc/iterators/HashMap by key equality)',
               'str::parse::<f64> is a function of the string (uninterpreted pair parse_ok/parse_val)',
               'String ordering is z3 str.< (code-point lexicographic = Rust byte-wise order on UTF-8)',
               'hash-consistency of DictKey/DictKeyRef (Hash agrees with Eq) is assumed, only Eq is executed',
               'build/knock law read on integral values (DESIGN.md C14 reading note)']
RULE = 'state = feasible path end of a law harness over two lazily symbolic values (distinct kind/shape/branch decisions); every path end discharges pc ∧ ¬law with z3'


NUMERIC_ALPHA = [0x31, 0x20, 0x78, 0x58, 0x2D, 0x2E]      # '1', ' ', 'x', 'X', '-', '.'  (x / X: texts that differ only in letter case)


def short_numeric_string(vm, name):
    """bounded companion domain: strings of <= 2 characters over {'1',' ','x','-','.'} -- here number parsing is *real*
    (each character is split on its value), so laws that hinge on which texts parse are decided, not abstracted"""
    from ..strings import BStr, Buf
    n = vm.fork(3, note=f'{name}.len')
    cps = []
    for i in range(n):
        c = z3.BitVec(f'{name}.c{i}', 32)
        vm.assume(z3.Or(*[c == m for m in NUMERIC_ALPHA])); vm.domains[c.get_id()] = set(NUMERIC_ALPHA); vm.keep.append(c)
        cps.append(c)
    return BStr(Buf(cps, [1] * n))


def mk(vm, name, kinds=None):
    am = 3 if getattr(vm, 'tier', 'quick') == 'thorough' else 2
    if getattr(vm, 'str_mode', 'opaque') == 'bounded':
        return sym_val(vm, name, arr_max=1, depth=1, dict_max=0, kinds=kinds, str_factory=short_numeric_string)
    return sym_val(vm, name, arr_max=am, depth=1, dict_max=1, kinds=kinds)


def describe_ab(vm, a, b, extra=None):
    def d(m):
        out = {'a': val_to_json(vm, a, m), 'b': val_to_json(vm, b, m)}
        if extra: out.update(extra(m))
        return out
    return d


def law_failed(vm, law, prop, a, b, extra=None):
    v = vm.must_hold(prop, law)
    if v is None: return None
    cex = describe_ab(vm, a, b, extra)(v.model)
    if not (distinct_keys_ok(cex['a']) and distinct_keys_ok(cex['b'])): return None       # not a valid map state
    return finding('violation', law, f'law {law} fails', dict(cex, law=law), vm.notes)


def h_eq(vm, mir, ka):
    a, b = mk(vm, 'a', [ka]), mk(vm, 'b')
    vm.describe = describe_ab(vm, a, b)
    out = []
    r1, _ = fold_op(vm, mir, BINOPS.index('Eq'), a, [b]); r2, _ = fold_op(vm, mir, BINOPS.index('Eq'), b, [a])
    b1, b2 = result_bool(vm, r1), result_bool(vm, r2)
    if b1 is None or b2 is None: out.append(finding('violation', 'eq-total', 'equality returned an error', describe_ab(vm, a, b)(model_of(vm)), vm.notes)); return out
    out.append(law_failed(vm, 'eq-symmetric', as_bool_term(b1) == as_bool_term(b2), a, b))
    r3, _ = fold_op(vm, mir, BINOPS.index('NotEq'), a, [b]); b3 = result_bool(vm, r3)
    if b3 is None: out.append(finding('violation', 'eq-total', 'isnt returned an error', describe_ab(vm, a, b)(model_of(vm)), vm.notes)); return out
    out.append(law_failed(vm, 'noteq-is-negation', as_bool_term(b3) == z3.Not(as_bool_term(b1)), a, b))
    # the public kernel agrees with the operator
    e = vm.run_fn(fn(mir, 'Val', 'equals'), [R(vm.clone_val(a)), R(vm.clone_val(b))])
    out.append(law_failed(vm, 'operator-eq-is-equals', as_bool_term(e) == as_bool_term(b1), a, b))
    vm.witness = {'eq-done'}
    return [x for x in out if x]


def unshared_copy(vm, v):
    """structurally identical value in fresh storage (every Rc re-boxed; payload terms shared): what a program gets by building
    the same value a second time"""
    from ..values import RcVal, RcBox, HList, HMap
    from ..std import conc
    if isinstance(v, RcVal): return RcVal(RcBox(unshared_copy(vm, v.box.cell.v)), v.kind)
    if isinstance(v, SymEnum): v = conc(vm, v)
    if isinstance(v, Adt): return Adt(v.ty, v.variant, [unshared_copy(vm, x) for x in v.fields])
    if isinstance(v, HList): return HList([unshared_copy(vm, x) for x in v.items])
    if isinstance(v, HMap): return HMap([[unshared_copy(vm, a), unshared_copy(vm, b)] for a, b in v.entries], v.sorted, v.order_tag)
    return v


def h_eq_shared(vm, mir, ka):
    """the laws on a value and a *copy of itself* (derived Clone: strings and arrays share their Rc storage, as after
    `let y be x` or for `x is x`): equality must not depend on whether two values happen to share storage"""
    a = mk(vm, 'a', [ka])
    vm.describe = describe_ab(vm, a, a, lambda m: {'shared': True})
    out = []
    r1, _ = fold_op(vm, mir, BINOPS.index('Eq'), a, [a]); r3, _ = fold_op(vm, mir, BINOPS.index('NotEq'), a, [a])
    b1, b3 = result_bool(vm, r1), result_bool(vm, r3)
    if b1 is None or b3 is None: out.append(finding('violation', 'eq-total', 'equality of a value with its copy returned an error', vm.describe(model_of(vm)), vm.notes)); return out
    sh = lambda m: {'shared': True}
    # the verdict must not depend on whether the two operands share storage: same answer against an identical value built separately
    a2 = unshared_copy(vm, a)
    r5, _ = fold_op(vm, mir, BINOPS.index('Eq'), a, [a2]); b5 = result_bool(vm, r5)
    if b5 is None: out.append(finding('violation', 'eq-total', 'equality of a value with an identical value returned an error', vm.describe(model_of(vm)), vm.notes)); return out
    out.append(law_failed(vm, 'eq-independent-of-sharing', as_bool_term(b5) == as_bool_term(b1), a, a, sh))
    out.append(law_failed(vm, 'noteq-is-negation', as_bool_term(b3) == z3.Not(as_bool_term(b1)), a, a, sh))
    e = vm.run_fn(fn(mir, 'Val', 'equals'), [R(vm.clone_val(a)), R(vm.clone_val(a))])
    out.append(law_failed(vm, 'operator-eq-is-equals', as_bool_term(e) == as_bool_term(b1), a, a, sh))
    for lt, gt in (('LessEq', 'GreaterEq'), ('Less', 'Greater')):
        rl, _ = fold_op(vm, mir, BINOPS.index(lt), a, [a]); rg, _ = fold_op(vm, mir, BINOPS.index(gt), a, [a])
        bl, bg = result_bool(vm, rl), result_bool(vm, rg)
        if (bl is None) != (bg is None): out.append(finding('violation', f'{lt}-error-iff-{gt}-error', 'one direction fails on a value and its copy', dict(vm.describe(model_of(vm)), law=f'{lt}-error-iff-{gt}-error'), vm.notes)); continue
        if bl is None: continue
        out.append(law_failed(vm, f'{lt}-mirrors-{gt}', as_bool_term(bl) == as_bool_term(bg), a, a, sh))
        if lt == 'LessEq':
            out.append(law_failed(vm, 'le-and-ge-is-eq', z3.And(as_bool_term(bl), as_bool_term(bg)) == as_bool_term(b1), a, a, sh))
    vm.witness = {'eq-done'}
    return [x for x in out if x]


def h_ord(vm, mir, ka):
    a, b = mk(vm, 'a', [ka]), mk(vm, 'b')
    vm.describe = describe_ab(vm, a, b)
    out = []
    for lt, gt in (('Less', 'Greater'), ('LessEq', 'GreaterEq')):
        r1, _ = fold_op(vm, mir, BINOPS.index(lt), a, [b]); r2, _ = fold_op(vm, mir, BINOPS.index(gt), b, [a])
        if (r1.variant == 0) != (r2.variant == 0):
            out.append(finding('violation', f'{lt}-error-iff-{gt}-error', 'one direction is an error, the other is not', dict(describe_ab(vm, a, b)(model_of(vm)), law=f'{lt}-error-iff-{gt}-error'), vm.notes))
            continue
        if r1.variant == 0:
            out.append(law_failed(vm, f'{lt}-mirrors-{gt}', as_bool_term(result_bool(vm, r1)) == as_bool_term(result_bool(vm, r2)), a, b))
    # a <= b and a >= b  <=>  a is b   whenever an ordering exists
    c = vm.run_fn(fn(mir, 'Val', 'compare'), [R(vm.clone_val(a)), R(vm.clone_val(b))])
    if c.variant == 0:
        o = c.fields[0]
        from ..std import conc
        o = conc(vm, o)
        if o.variant == 1:
            le, _ = fold_op(vm, mir, BINOPS.index('LessEq'), a, [b]); ge, _ = fold_op(vm, mir, BINOPS.index('GreaterEq'), a, [b])
            eq, _ = fold_op(vm, mir, BINOPS.index('Eq'), a, [b])
            if le.variant or ge.variant or eq.variant:
                out.append(finding('violation', 'ordered-but-operator-errs', 'compare gives an ordering but <=, >= or is fails', dict(describe_ab(vm, a, b)(model_of(vm)), law='ordered-but-operator-errs'), vm.notes))
            else:
                both = z3.And(as_bool_term(result_bool(vm, le)), as_bool_term(result_bool(vm, ge)))
                out.append(law_failed(vm, 'le-and-ge-is-eq', both == as_bool_term(result_bool(vm, eq)), a, b))
            vm.witness = {'ordered'}
    return [x for x in out if x]


def truthy(vm, mir, v):
    return as_bool_term(vm.run_fn(fn(mir, 'Val', 'is_truthy'), [R(vm.clone_val(v))]))


def h_logic(vm, mir, ka):
    a, b = mk(vm, 'a', [ka]), mk(vm, 'b')
    vm.describe = describe_ab(vm, a, b)
    out = []
    ta, tb = truthy(vm, mir, a), truthy(vm, mir, b)
    res = {}
    for op, want, short_when in (('And', z3.And(ta, tb), z3.Not(ta)), ('Or', z3.Or(ta, tb), ta), ('Nor', z3.Not(z3.Or(ta, tb)), ta)):
        r, log = fold_op(vm, mir, BINOPS.index(op), a, [b])
        bv = result_bool(vm, r)
        if bv is None:
            out.append(finding('violation', f'{op}-total', f'{op} returned an error', dict(describe_ab(vm, a, b)(model_of(vm)), law=f'{op}-total'), vm.notes)); continue
        res[op] = as_bool_term(bv)
        out.append(law_failed(vm, f'{op}-agrees-with-truthiness', res[op] == want, a, b))
        # short-circuit: rhs evaluated exactly when the lhs does not decide
        evaluated = len(log) > 0
        out.append(law_failed(vm, f'{op}-short-circuit', z3.BoolVal(evaluated) == z3.Not(short_when), a, b))
    if 'Or' in res and 'Nor' in res: out.append(law_failed(vm, 'nor-is-not-or', res['Nor'] == z3.Not(res['Or']), a, b))
    vm.witness = {'logic-done'}
    return [x for x in out if x]


INC_N = {'quick': [1, 2, 3, 16, 1 << 20], 'thorough': list(range(1, 17)) + [1000, 1 << 20]}


def h_incdec(vm, mir, ka):
    a = mk(vm, 'a', [ka]); b = Adt('Val', 0, [])
    ns = INC_N[getattr(vm, 'tier', 'quick')]
    n = ns[vm.fork(len(ns), note='n')]
    extra = lambda m: {'n': n}
    vm.describe = describe_ab(vm, a, b, extra)
    inc = fn(mir, 'Val', 'inc')
    cur = Cell(vm.clone_val(a))
    if ka == 3:
        x = a.alt(3).fields[0]
        vm.assume(z3.And(z3.fpEQ(z3.fpRoundToIntegral(z3.RTZ(), x), x), z3.fpLEQ(z3.fpAbs(x), z3.FPVal(float((1 << 53) - n), F64))))
    r1 = vm.run_fn(inc, [Ref(cur), n])
    r2 = vm.run_fn(inc, [Ref(cur), -n])
    out = []
    if ka in (2, 3):
        if r1.variant or r2.variant:
            return [finding('violation', 'incdec-total', 'build/knock failed on a number or boolean', dict(describe_ab(vm, a, b, extra)(model_of(vm)), law='incdec-total'), vm.notes)]
        from ..std import conc
        after = conc(vm, cur.v)
        if after.variant != ka: return [finding('violation', 'incdec-kind', 'build/knock changed the kind', dict(describe_ab(vm, a, b, extra)(model_of(vm)), law='incdec-kind'), vm.notes)]
        if ka == 2: prop = as_bool_term(after.fields[0]) == a.alt(2).fields[0]
        else: prop = z3.fpEQ(vm.fp(after.fields[0]), a.alt(3).fields[0])
        out.append(law_failed(vm, 'build-then-knock-restores', prop, a, b, extra))
        vm.witness = {'incdec-done'}
    else:
        vm.witness = {'incdec-done'}
        if ka == 1:
            # null counts as 0: build n / knock n leaves the number 0
            from ..std import conc
            after = conc(vm, cur.v)
            if r1.variant or r2.variant or after.variant != 3: out.append(finding('violation', 'incdec-null', 'build/knock on null did not yield a number', dict(describe_ab(vm, a, b, extra)(model_of(vm)), law='incdec-null'), vm.notes))
            else: out.append(law_failed(vm, 'build-then-knock-null-is-zero', z3.fpEQ(vm.fp(after.fields[0]), z3.FPVal(0.0, F64)), a, b, extra))
        elif not (r1.variant == 1 and r2.variant == 1):
            out.append(finding('violation', 'incdec-error-kinds', 'build/knock on a non-numeric value did not fail', dict(describe_ab(vm, a, b, extra)(model_of(vm)), law='incdec-error-kinds'), vm.notes))
    return [x for x in out if x]


# ------------------------------------------------------------------ the logic laws through whole expressions (program level)
LAW_PRELUDE = {'undefined-name': None, 'mysterious': ['Put mysterious into X'], 'null': ['Put null into X'], 'boolean': ['Put 9001 is 9002 into X'], 'number': ['Put 9001 into X'],
               'string': ['Put "§1" into X'], 'empty-string': ['Put "" into X'], 'array': ['Rock X with 9001, "§1"'], 'empty-array': ['Rock X'], 'keyed-only-array': ['Let X at "k" be 9001'],
               'emptied-array': ['Rock X with 9001', 'Roll X']}
LAW_LINES = ['say not X', 'say X nor false', 'say not not X', 'If X', 'say true', 'Else', 'say false', '', 'say X and true', 'say X or false', 'say false nor X', 'say not (X and X)'.replace('(', '').replace(')', ''),
             'Until X', 'say "until-false"', 'Break', '', 'While X', 'say "while-true"', 'Break', '']


def h_program_laws(vm, mir, kind):
    """not / nor / and / or / if / while / until must all see the same truthiness of X, whatever its kind"""
    from .progcommon import instantiate, parsed_program, num_hole, str_hole, describe_holes
    from ..progrun import exec_in_vm
    from ..std import conc
    pre = LAW_PRELUDE[kind]
    if pre is None: raise Infeasible()
    text = '\n'.join(pre + LAW_LINES) + '\n'
    holes = {'n1': num_hole(vm, 'n1'), 'n2': num_hole(vm, 'n2'), 's1': SymStr(str_hole(vm, 's1'))}
    d0 = describe_holes(holes)
    vm.describe = lambda m: dict(d0(m), program=text, law='truthiness seen by not / nor / and / or / if / while / until')
    prog = instantiate(vm, mir, parsed_program(mir, text), holes)
    r, o, _ = exec_in_vm(vm, mir, prog)
    out = []
    def bad(role, detail):
        m = model_of(vm)
        if m is not None: out.append(finding('violation', role, detail, vm.describe(m), vm.notes))
    vm.witness = {'laws-done'}
    if conc(vm, r).variant == 1: bad('program-law:fails', 'a logic expression on a defined value failed'); return out
    w = []
    for x in o['writes']:
        t = z3.simplify(to_sym(x))
        if not z3.is_string_value(t): raise Unmodelled('truth values are printed as concrete text')
        w.append(zstr(t).strip())
    if len(w) < 8: bad('program-law:output-count', f'{len(w)} lines'); return out
    n, nr, nn, iff, andt, orf, fnor, nand = w[:8]
    rest = w[8:]
    t = iff                                    # the truthiness `if` sees
    neg = {'true': 'false', 'false': 'true'}
    if n != neg.get(t): bad('program-law:not-vs-if', f'`not X` is {n} but `if X` takes the {t} branch')
    if nr != n: bad('program-law:nor-false-vs-not', f'`X nor false` is {nr} but `not X` is {n}')
    if fnor != n: bad('program-law:false-nor-vs-not', f'`false nor X` is {fnor} but `not X` is {n}')
    if nn != t: bad('program-law:not-not', f'`not not X` is {nn} but `if X` takes the {t} branch')
    if andt != t: bad('program-law:and-true', f'`X and true` is {andt} but `if X` takes the {t} branch')
    if orf != t: bad('program-law:or-false', f'`X or false` is {orf} but `if X` takes the {t} branch')
    if nand != n: bad('program-law:not-and', f'`not X and X` is {nand} but `not X` is {n}') if False else None
    want_rest = (['until-false'] if t == 'false' else []) + (['while-true'] if t == 'true' else [])
    if rest != want_rest: bad('program-law:loops', f'until / while saw {rest}, `if X` takes the {t} branch')
    return out


COMPOUND_OPS = ['with', 'without', 'of', 'over']
COMPOUND_OPERANDS = ['9003', '"§2"', 'null', 'mysterious', 'true', 'X']


def h_compound_law(vm, mir, kind):
    """`Let X be <op> E` assigns exactly what `Let X be X <op> E` assigns (same outcome, same printed value), for X of every kind"""
    from .progcommon import instantiate, parsed_program, num_hole, str_hole, describe_holes
    from ..progrun import exec_in_vm
    from ..std import conc
    pre = LAW_PRELUDE[kind]
    if pre is None: raise Infeasible()
    op = COMPOUND_OPS[vm.fork(len(COMPOUND_OPS), note='op')]; e = COMPOUND_OPERANDS[vm.fork(len(COMPOUND_OPERANDS), note='operand')]
    ta = '\n'.join(pre + [f'Let X be {op} {e}', 'say X', 'say X plus 1']) + '\n'
    tb = '\n'.join(pre + [f'Let X be X {op} {e}', 'say X', 'say X plus 1']) + '\n'
    holes = {'n1': num_hole(vm, 'n1'), 'n2': num_hole(vm, 'n2'), 'n3': num_hole(vm, 'n3'), 's1': SymStr(str_hole(vm, 's1')), 's2': SymStr(str_hole(vm, 's2'))}
    d0 = describe_holes(holes)
    vm.describe = lambda m: dict(d0(m), compound=ta, explicit=tb, law='compound assignment equals its explicit form')
    ra, oa, _ = exec_in_vm(vm, mir, instantiate(vm, mir, parsed_program(mir, ta), holes))
    rb, ob, _ = exec_in_vm(vm, mir, instantiate(vm, mir, parsed_program(mir, tb), holes))
    out = []
    def bad(role, detail, prop=None):
        if prop is None: m = model_of(vm)
        else:
            v = vm.must_hold(prop, role); m = v.model if v is not None else None
        if m is not None: out.append(finding('violation', role, detail, vm.describe(m), vm.notes))
    vm.witness = {'laws-done'}
    ea, eb = conc(vm, ra).variant == 1, conc(vm, rb).variant == 1
    if ea != eb: bad('compound-law:outcome', f'`Let X be {op} {e}` {"fails" if ea else "succeeds"} but `Let X be X {op} {e}` {"fails" if eb else "succeeds"}'); return out
    wa, wb = oa['writes'], ob['writes']
    if len(wa) != len(wb): bad('compound-law:output-count', f'{len(wa)} vs {len(wb)} lines'); return out
    for i, (x, y) in enumerate(zip(wa, wb)):
        c = z3.simplify(to_sym(x) == to_sym(y))
        if z3.is_false(c): bad('compound-law:value', f'line {i}: the compound form and the explicit form print different values'); break
        if not z3.is_true(c): bad('compound-law:value', f'line {i}: the compound form and the explicit form print different values', c)
    return out


def jobs(ctx, tier):
    mir = ctx.mir('dev')
    js = []
    for kind in LAW_PRELUDE:
        if LAW_PRELUDE[kind] is not None: js.append(Job(f'compound-law/{kind}', h_compound_law, (mir, kind), witness=['laws-done'], fuel=20_000_000, weight=6))
    for kind in LAW_PRELUDE:
        if LAW_PRELUDE[kind] is not None: js.append(Job(f'program-laws/{kind}', h_program_laws, (mir, kind), witness=['laws-done'], fuel=20_000_000, weight=3))
    for ka in range(6):
        w = 5 if ka == 5 else 1
        js.append(Job(f'eq/{KINDS[ka]}', h_eq, (mir, ka), witness=['eq-done'], weight=w))
        js.append(Job(f'eq-shared/{KINDS[ka]}', h_eq_shared, (mir, ka), witness=['eq-done'], weight=w))
        js.append(Job(f'ord/{KINDS[ka]}', h_ord, (mir, ka), witness=(['ordered'] if ka in (0, 1, 3, 4) else []), weight=w))
        js.append(Job(f'logic/{KINDS[ka]}', h_logic, (mir, ka), witness=['logic-done'], weight=w))
        if ka in (1, 2, 3, 4):
            js.append(Job(f'eq-short-strings/{KINDS[ka]}', h_eq, (mir, ka), witness=['eq-done'], str_mode='bounded', weight=3))
            js.append(Job(f'ord-short-strings/{KINDS[ka]}', h_ord, (mir, ka), witness=(['ordered'] if ka != 2 else []), str_mode='bounded', weight=3))
        js.append(Job(f'incdec/{KINDS[ka]}', h_incdec, (mir, ka), witness=['incdec-done'], timeout_ms=60_000 if tier == 'quick' else 300_000))
    return js


# ------------------------------------------------------------------ translator validation + replay
VECTORS = [{'kind': 'Undefined'}, {'kind': 'Null'}, {'kind': 'Boolean', 'v': True}, {'kind': 'Boolean', 'v': False}] + \
    [{'kind': 'Number', 'bits': f64bits(x)} for x in (0.0, -0.0, 1.0, -1.5, 2.0, float('nan'), float('inf'), -float('inf'), 9007199254740992.0, 5e-324, 0.1)] + \
    [{'kind': 'String', 'v': s} for s in ('', '1', 'abc', '1e3', ' 1', 'true', '-0', 'NaN', 'inf', 'é', 'ab', 'b', '0.1')] + \
    [{'kind': 'Array', 'arr': [], 'dict': []}, {'kind': 'Array', 'arr': [{'kind': 'Null'}], 'dict': []},
     {'kind': 'Array', 'arr': [{'kind': 'Number', 'bits': f64bits(1.0)}, {'kind': 'String', 'v': 'x'}], 'dict': []},
     {'kind': 'Array', 'arr': [], 'dict': [[{'kind': 'String', 'v': 'k'}, {'kind': 'Number', 'bits': f64bits(2.0)}]]},
     {'kind': 'Array', 'arr': [{'kind': 'Boolean', 'v': True}], 'dict': [[{'kind': 'Null'}, {'kind': 'Undefined'}]]}]


def vm_binop(vm, mir, op, aj, bj):
    r, log = fold_op(vm, mir, BINOPS.index(op), val_from_json(vm, aj), [val_from_json(vm, bj)])
    if r.variant == 0: return {'val': val_to_json(vm, r.fields[0]), 'called': log}
    return {'err': True, 'called': log}


def validate(ctx):
    """push concrete operand tables through both the MIR VM and the real build (Serval-style translator validation)"""
    from ..vm import VM, Explorer
    mir = ctx.mir('dev'); nat = ctx.native('dev')
    good, bad = 0, []
    vecs = VECTORS if ctx.tier == 'thorough' else VECTORS[:4] + VECTORS[4:15:2] + VECTORS[15:28:2] + VECTORS[28:]
    for aj in vecs:
        for bj in vecs:
            for op in BINOPS:
                if op == 'Multiply' and 'Number' in (aj['kind'], bj['kind']) and 'String' in (aj['kind'], bj['kind']) and \
                        abs(bits_f64((aj if aj['kind'] == 'Number' else bj)['bits'])) > 1e4:
                    continue      # string repetition count beyond modest resource bounds (minutes of native run time)
                vm = VM(mir, Explorer())
                try: got = vm_binop(vm, mir, op, aj, bj)
                except Exception as e: got = {'exception': f'{type(e).__name__}: {e}'}
                want = nat.call({'op': 'binop', 'operator': op, 'a': aj, 'rhs': [bj]})
                okk = ('err' in got) == ('err' in want) and got.get('called') == want.get('called') and \
                    ('err' in got or ('val' in want and 'val' in got and same_val_json(got['val'], want['val'])))
                if okk: good += 1
                else: bad.append({'op': op, 'a': aj, 'b': bj, 'vm': got, 'native': want})
    return good, bad


def native_bool(nat, op, a, b, shared=False):
    r = nat.call({'op': 'binop', 'operator': op, 'a': a, 'rhs': [b], 'shared': bool(shared)})
    if 'val' in r and r['val']['kind'] == 'Boolean': return r['val']['v'], r
    return None, r


def replay(ctx, f):
    """recompute the violated law on the concrete counterexample with the real build (dev and release)"""
    cex = f.get('cex') or {}
    law = cex.get('law', f['role'])
    out = {'reproduced': None}
    if 'compound' in cex:
        from .progcommon import program_text
        vals = {k: v for k, v in cex.items() if k in ('n1', 'n2', 'n3', 's1', 's2')}
        a, b = program_text(cex['compound'], vals), program_text(cex['explicit'], vals)
        if a is None or b is None: return out
        res = {}
        for prof in ('dev', 'release'):
            ra = ctx.native(prof).call({'op': 'program', 'src': a, 'stdin': ''}, timeout=20); rb = ctx.native(prof).call({'op': 'program', 'src': b, 'stdin': ''}, timeout=20)
            out[prof + '_native'] = {'compound': (ra.get('result'), ra.get('stdout')), 'explicit': (rb.get('result'), rb.get('stdout'))}
            res[prof] = (ra.get('result'), ra.get('stdout')) != (rb.get('result'), rb.get('stdout'))
        out.update(res); out['reproduced'] = any(res.values())
        return out
    if 'program' in cex:
        # program-level law: run natively and re-judge the printed truth values
        from .progcommon import program_text
        src = program_text(cex['program'], {k: v for k, v in cex.items() if k in ('n1', 'n2', 's1')})
        if src is None: return out
        res = {}
        for prof in ('dev', 'release'):
            nv = ctx.native(prof).call({'op': 'program', 'src': src, 'stdin': ''}, timeout=20)
            w = (nv.get('stdout') or '').split('\n')[:-1]
            out[prof + '_native'] = {'stdout': nv.get('stdout'), 'result': nv.get('result')}
            if nv.get('result') != 'ok' or len(w) < 8: res[prof] = True; continue
            n, nr, nn, t, andt, orf, fnor = w[0], w[1], w[2], w[3], w[4], w[5], w[6]
            neg = {'true': 'false', 'false': 'true'}
            want_rest = (['until-false'] if t == 'false' else []) + (['while-true'] if t == 'true' else [])
            res[prof] = not (n == neg.get(t) and nr == n and fnor == n and nn == t and andt == t and orf == t and w[8:] == want_rest)
        out.update(res); out['reproduced'] = any(res.values())
        return out
    if 'a' not in cex: return out
    res = {}
    for prof in ('dev', 'release'):
        nat = ctx.native(prof); a, b = cex['a'], cex['b']
        viol = None
        def B(op, x, y): return native_bool(nat, op, x, y, cex.get('shared'))[0]
        if law == 'eq-symmetric': viol = B('Eq', a, b) != B('Eq', b, a)
        elif law == 'noteq-is-negation': viol = B('NotEq', a, b) != (not B('Eq', a, b))
        elif law == 'eq-independent-of-sharing': viol = native_bool(nat, 'Eq', a, b, True)[0] != native_bool(nat, 'Eq', a, b, False)[0]
        elif law == 'operator-eq-is-equals': viol = B('Eq', a, b) != nat.call({'op': 'val', 'fn': 'equals', 'a': a, 'b': b}).get('bool')
        elif '-mirrors-' in law:
            lt, gt = law.split('-mirrors-'); viol = B(lt, a, b) != B(gt, b, a)
        elif '-error-iff-' in law:
            lt, gt = law.replace('-error', '').split('-iff-'); viol = (B(lt, a, b) is None) != (B(gt, b, a) is None)
        elif law == 'le-and-ge-is-eq':
            le, ge, eq = B('LessEq', a, b), B('GreaterEq', a, b), B('Eq', a, b)
            viol = None not in (le, ge, eq) and ((le and ge) != eq)
        elif law.endswith('-agrees-with-truthiness') or law.endswith('-short-circuit') or law == 'nor-is-not-or' or law.endswith('-total'):
            ta = nat.call({'op': 'val', 'fn': 'is_truthy', 'a': a}).get('bool'); tb = nat.call({'op': 'val', 'fn': 'is_truthy', 'a': b}).get('bool')
            want = {'And': ta and tb, 'Or': ta or tb, 'Nor': not (ta or tb)}
            short = {'And': not ta, 'Or': ta, 'Nor': ta}
            viol = False
            for op in ('And', 'Or', 'Nor'):
                v, r = native_bool(nat, op, a, b)
                if v is None or v != want[op]: viol = True
                if (len(r.get('called', [])) > 0) == short[op]: viol = True
        elif law.startswith('build-then-knock') or law.startswith('incdec'):
            r = nat.call({'op': 'val', 'fn': 'inc_dec', 'a': a, 'n': cex.get('n', 1)})
            if a['kind'] in ('Number', 'Boolean'):
                viol = 'err' in r or r.get('self', {}).get('kind') != a['kind'] or \
                    (a['kind'] == 'Boolean' and r['self']['v'] != a['v']) or (a['kind'] == 'Number' and bits_f64(r['self']['bits']) != bits_f64(a['bits']))
            elif a['kind'] == 'Null': viol = 'err' in r or r['self']['kind'] != 'Number' or bits_f64(r['self']['bits']) != 0.0
            else: viol = 'err' not in r
        res[prof] = viol
    out.update(res)
    out['reproduced'] = bool(res.get('dev') or res.get('release')) if None not in res.values() else None
    return out
