"""C04 — control flow follows the program text: branches, loops, break / continue (program level)."""
import z3
from .common import *
from .progcommon import *
from . import C03

ID = 'C04'
PROFILES = ['dev']
TEMPLATES = {
 'if-else': ('say 1\nIf 9001\nsay 2\nElse\nsay 3\n\nsay 4\n', {'n1': {}}),
 'if-no-else': ('If 9001\nsay 1\n\nsay 2\n', {'n1': {}}),
 'nested-if': ('If 9001\nsay 1\nIf 9002\nsay 2\nElse\nsay 3\n\nsay 4\nElse\nsay 5\n\nsay 6\n', {'n1': {}, 'n2': {}}),
 'while-count': ('X is 0\nWhile X is less than 9001\nBuild X up\nsay X\n\nsay "end"\n', {'n1': {'lo': -1, 'hi': 3}}),
 'until-count': ('X is 0\nUntil X is as high as 9001\nBuild X up\nsay X\n\nsay "end"\n', {'n1': {'lo': -1, 'hi': 3}}),
 'break-in-if': ('X is 0\nWhile X is less than 3\nBuild X up\nIf X is 9001\nBreak\n\nsay X\n\nsay "end"\n', {'n1': {'lo': 0, 'hi': 4, 'integral': True}}),
 'continue-in-if': ('X is 0\nWhile X is less than 3\nBuild X up\nIf X is 9001\nContinue\n\nsay X\n\nsay "end"\n', {'n1': {'lo': 0, 'hi': 4, 'integral': True}}),
 'break-in-nested-if': ('X is 0\nWhile X is less than 3\nBuild X up\nIf X is greater than 9001\nIf X is less than 9002\nBreak\n\nsay "a"\n\nsay X\n\nsay "end"\n', {'n1': {'lo': -1, 'hi': 3, 'integral': True}, 'n2': {'lo': 0, 'hi': 4, 'integral': True}}),
 'nested-loops-break-inner': ('X is 0\nWhile X is less than 2\nBuild X up\nY is 0\nWhile Y is less than 3\nBuild Y up\nIf Y is 9001\nBreak\n\nIf Y is 9002\nContinue\n\nsay Y\n\nsay X\n\nsay "end"\n', {'n1': {'lo': 0, 'hi': 4, 'integral': True}, 'n2': {'lo': 0, 'hi': 4, 'integral': True}}),
 'until-with-break': ('X is 0\nUntil X is 3\nBuild X up\nIf 9001\nsay X\nElse\nBreak\n\n\nsay "end"\n', {'n1': {}}),
 'error-stops': ('say 1\nIf 9001\nsay 2 at 1\n\nsay 3\n', {'n1': {}}),
 'error-in-loop': ('X is 0\nWhile X is less than 3\nBuild X up\nsay X\nIf X is 9001\nsay mysterious at 0\n\n\nsay "end"\n', {'n1': {'lo': 0, 'hi': 4, 'integral': True}}),
 'loop-condition-re-evaluated': ('X is 9001\nWhile X\nsay X\nKnock X down\n\nsay "end"\n', {'n1': {'lo': 0, 'hi': 3, 'integral': True}}),
 # conditions with a side effect: each evaluation is observable (a loop left by break / continue / an error must not evaluate it again)
 'effectful-condition-break': ('Rock the list with 1, 2, 3\nWhile roll the list\nsay 1\nBreak\n\nsay roll the list\n', {}),
 'effectful-condition-break-in-if': ('Rock the list with 0, 0, 5\nUntil roll the list\nIf 9001\nBreak\n\nsay 7\n\nsay roll the list\nsay roll the list\n', {'n1': {}}),
 'effectful-condition-continue': ('Rock the list with 1, 2, 0, 4\nX is 0\nWhile roll the list\nBuild X up\nIf X is 9001\nContinue\n\nsay X\n\nsay roll the list\n', {'n1': {'lo': 0, 'hi': 3, 'integral': True}}),
 'effectful-condition-if': ('Rock the list with 9001, 2, 3\nIf roll the list\nsay 1\nElse\nsay 2\n\nsay roll the list\n', {'n1': {}}),
 'effectful-condition-return': ('F takes P\nRock the list with 1, 2, 3\nWhile roll the list\ngive back roll the list\n\ngive back 9\n\nsay F taking 1\n', {}),
 'condition-kinds': ('If "§1"\nsay 1\n\nIf null\nsay 2\n\nIf mysterious\nsay 3\n\nIf 9001 is 9002\nsay 4\nElse\nsay 5\n', {'n1': {}, 'n2': {}, 's1': {}}),
}
BOUNDS = {'top-level blocks': 'every program of <= 3 (thorough 4) statements with a blank line (a new top-level block) at one or at every top-level boundary, and one before the final marker',
          'condition kinds': 'X of every kind {mysterious, null, boolean, number, string, empty string, array, empty array} as the whole condition (plain and negated) of if / if-else / while / until',
          'generated programs': 'EVERY program of the grammar  Block ::= Stmt{0..3};  Stmt ::= say <marker> | <runtime error> | If c Block [Else Block] | While/Until <2 iterations> Block | Break | Continue (inside loops)  with at most 4 statements (thorough 5), nesting <= 3, empty blocks included, every condition a symbolic placeholder (outside loops: any double; inside loops: compared with the loop counter)',
          'programs': 'plus the %d templates of this file (if / else, nested ifs, while, until, break / continue directly and from nested ifs, nested loops, errors inside branches and loops), parsed by the real parser' % len(TEMPLATES),
          'values': 'every number placeholder is any double (conditions) or any double in the stated range (loop bounds, <= 4 iterations); string placeholders are any string',
          'observables': 'every line written, in order, and the outcome (success / runtime error)'}
OUTSIDE = ['programs outside the templates; deeper nesting than 3; break / continue outside loops (only checked for crashes: C09)']
ASSUMPTIONS = C03.ASSUMPTIONS + ['reference interpreter (mirsym/refinterp.py) = the scoping / control-flow rules of the statement, validated per run against the native build on the repository\'s own test programs',
                                 'Write / BufRead are environment models (one record per call)']
RULE = 'state = feasible path end of one template (all branch decisions of the real interpreter and of the reference over the symbolic placeholders); each compares written lines and outcome by z3'


def mk_holes(vm, spec):
    holes = {}
    for k, o in spec.items():
        if k.startswith('n'): holes[k] = num_hole(vm, k, o.get('lo'), o.get('hi'), o.get('integral', False))
        else: holes[k] = SymStr(str_hole(vm, k))
    return holes


def h_template(vm, mir, name, templates=None):
    text, spec = (templates or TEMPLATES)[name]
    holes = mk_holes(vm, spec)
    prog = instantiate(vm, mir, parsed_program(mir, text), holes)
    d0 = describe_holes(holes)
    vm.describe = lambda m: dict(d0(m), template=name)
    return run_both(vm, mir, prog, describe=vm.describe)


GEN_SIZE = {'quick': 3, 'thorough': 5}
CHUNK = 12


def h_shapes(vm, mir, chunk, tag):
    i = vm.fork(len(chunk), note='shape') if len(chunk) > 1 else 0
    text, spec = chunk[i][0], chunk[i][1]
    holes = mk_holes(vm, spec)
    try: prog0 = program_of_shape(mir, chunk[i])
    except Unmodelled as e: raise Unmodelled(f'generated shape does not parse: {text!r}')
    prog = instantiate(vm, mir, prog0, holes)
    d0 = describe_holes(holes)
    vm.describe = lambda m: dict(d0(m), program=text)
    return run_both(vm, mir, prog, describe=vm.describe)


def shape_jobs(mir, shapes, tag, chunk=CHUNK):
    from ..progen import chunks
    return [Job(f'{tag}/{k}', h_shapes, (mir, ch, tag), witness=['run-done'], fuel=20_000_000, weight=3 * len(ch)) for k, ch in enumerate(chunks(shapes, chunk))]


def jobs(ctx, tier):
    from ..progen import control_flow_shapes
    mir = ctx.mir('dev')
    js = [Job(f'template/{n}', h_template, (mir, n), witness=['run-done'], fuel=20_000_000, weight=5) for n in TEMPLATES]
    from ..progen import condition_kind_shapes
    js += shape_jobs(mir, preparse(ctx, condition_kind_shapes()), 'condition-kinds', chunk=2)
    from ..progen import multi_block_shapes
    js += shape_jobs(mir, preparse(ctx, multi_block_shapes(3 if tier == 'quick' else 4)), 'multi-block', chunk=24)
    if tier == 'quick': return js + shape_jobs(mir, preparse(ctx, control_flow_shapes(4)), 'shapes<=4', chunk=24)
    # (all 6-statement programs without until / error statements were run once: 101 000 programs, 2 h on this machine, held; not part of the tier)
    return js + shape_jobs(mir, preparse(ctx, control_flow_shapes(5)), 'shapes<=5', chunk=48)


def validate(ctx):
    from .. import progval
    return progval.validate_programs(ctx, limit=(10 if ctx.tier == 'quick' else 40))


def replay(ctx, f):
    cex = f.get('cex') or {}
    if 'program' in cex: return native_replay(ctx, cex['program'], f)
    name = cex.get('template')
    if name not in TEMPLATES: return {'reproduced': None}
    return native_replay(ctx, TEMPLATES[name][0], f)
