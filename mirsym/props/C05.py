"""C05 — functions, scopes and pronouns: calls are by value and locals do not leak (program level)."""
import z3
from .common import *
from .progcommon import *
from . import C03, C04

ID = 'C05'
PROFILES = ['dev']
T = {
 # calls made from a block that has not declared anything yet, then names equal to the callee's parameters in the same block
 'call-in-fresh-block-shadowing-parameter': ('X is 10\nF takes X\ngive back X\n\nIf 9001\nPut F taking 9002 into R\nsay X\nsay R\nX is 3\n\nsay X\n', {'n1': {}, 'n2': {}}),
 'call-in-fresh-loop-body-parameter-unknown': ('F takes P\ngive back P\n\nC is 0\nWhile C is less than 1\nBuild C up\nsay F taking 9001\nsay P\n\nsay "end"\n', {'n1': {}}),
 'call-in-fresh-else-block-then-local': ('F takes P\ngive back P\n\nIf 9001\nsay 1\nElse\nsay F taking 2\nP is 7\nsay P\n\nsay P\n', {'n1': {}}),
 'by-value-args': ('X is 9001\nF takes Y\nBuild Y up\ngive back Y\n\nsay F taking X\nsay X\n', {'n1': {}}),
 'locals-do-not-leak': ('F takes Y\nZ is 9001\ngive back Z\n\nsay F taking 1\nsay Z\n', {'n1': {}}),
 'outer-variable-updated': ('X is 1\nF takes Y\nX is Y\ngive back X\n\nsay F taking 9001\nsay X\n', {'n1': {}}),
 'branch-local': ('If 9001\nZ is 2\nsay Z\n\nsay Z\n', {'n1': {}}),
 'branch-updates-outer': ('Z is 1\nIf 9001\nZ is 9002\n\nsay Z\n', {'n1': {}, 'n2': {}}),
 'loop-local': ('X is 0\nWhile X is less than 2\nBuild X up\nIf X is 9001\nsay Z\n\nZ is X\n\nsay X\n', {'n1': {'lo': 0, 'hi': 3, 'integral': True}}),
 'pronoun-last-named': ('X is 9001\nY is 9002\nsay it\nsay X\nsay it\nPut 3 into it\nsay X\nsay Y\n', {'n1': {}, 'n2': {}}),
 'pronoun-none-after-block': ('X is 1\nIf 9001\nY is 2\n\nsay it\n', {'n1': {}}),
 'pronoun-none-after-call': ('X is 1\nF takes Y\ngive back Y\n\nPut F taking 9001 into Z\nsay it\nsay X\nLet W be F taking 2\nF taking 3\nsay it\n', {'n1': {}}),
 'pronoun-none-at-start': ('say it\n', {}),
 'return-first-reached': ('F takes N\nWhile N is greater than 0\nIf N is 9001\ngive back "hit"\n\nKnock N down\n\ngive back "miss"\n\nsay F taking 3\n', {'n1': {'lo': 0, 'hi': 4, 'integral': True}}),
 'return-default-mysterious': ('F takes N\nIf N is 9001\ngive back 1\n\n\nsay F taking 5\n', {'n1': {}}),
 'recursion': ('F takes N\nIf N is less than 1\ngive back 1\n\nLet M be N minus 1\ngive back N times F taking M\n\nsay F taking 9001\n', {'n1': {'lo': -1, 'hi': 3, 'integral': True}}),
 'wrong-arity': ('F takes X and Y\ngive back X\n\nsay "before"\nsay F taking 9001\n', {'n1': {}}),
 'wrong-arity-too-many': ('F takes X\ngive back X\n\nsay "before"\nsay F taking 9001, 2\n', {'n1': {}}),
 'call-non-function': ('X is 9001\nsay "before"\nsay X taking 2\n', {'n1': {}}),
 'unknown-name': ('say "before"\nsay Y plus 9001\n', {'n1': {}}),
 'arguments-left-to-right': ('G takes V\nsay V\ngive back V\n\nF takes P and Q\ngive back P minus Q\n\nsay F taking G taking 9001, G taking 9002\n', {'n1': {}, 'n2': {}}),
 'array-argument-by-value': ('Rock Arr with 9001\nF takes L\nRock L with 2\ngive back L\n\nLet R be F taking Arr\nsay Arr\nsay R\nsay Arr at 0\n', {'n1': {}}),
 'array-assignment-by-value': ('Rock Arr with 9001, 2\nLet Copy be Arr\nLet Copy at 0 be 7\nRoll Arr into H\nsay H\nsay Copy at 0\nsay Arr\nsay Copy\n', {'n1': {}}),
 'parameter-shadows-outer': ('X is 9001\nF takes X\nX is 5\ngive back X\n\nsay F taking 9002\nsay X\n', {'n1': {}, 'n2': {}}),
 'duplicate-parameter': ('F takes X and X\ngive back X\n\nsay "before"\nsay F taking 1, 9001\n', {'n1': {}}),
 'function-in-function': ('F takes X\nG takes Y\ngive back Y plus 1\n\ngive back G taking X\n\nsay F taking 9001\nsay G taking 1\n', {'n1': {}}),
 'compound-and-incdec': ('X is 9001\nLet X be with 2\nsay X\nLet X be times 9002, 2\nsay X\nBuild X up, up\nKnock X down\nsay X\nY is true\nBuild Y up\nsay Y\nZ is "a"\nLet Z be with 9003\nsay Z\n', {'n1': {}, 'n2': {}, 'n3': {}}),
 'subscript-writes': ('Let Arr at 0 be 9001\nLet Arr at "k" be 9002\nLet Arr at 0 at 1 be 3\nsay Arr at 0 at 1\nsay Arr at "k"\nsay Arr\nLet it at 2 be 5\nsay Arr\n', {'n1': {}, 'n2': {}}),
}
BOUNDS = {'generated programs': 'function shapes: globals X, Y; F with parameters from {[X],[Y],[Z],[X,Y],[Y,X]}, a body of <= 1 (thorough 2) atoms out of 14 (writes to a parameter / global / fresh local, pronoun writes after a mention, reads, compound assignment, pronoun read, return from inside a loop, return from inside an if, a loop with a local left by break), a return out of {X, Y, it, X plus Y}, called with every argument list over {X, Y, literal}; scope shapes: every sequence of <= 2 (thorough 3) statements out of 24 (6 atoms bare / inside an if / inside a one-pass loop / inside a loop left by break) followed by reads of X and Z; all literals symbolic doubles',
          'programs': 'plus the %d templates of this file (argument passing, locals, outer updates, branch / loop scopes, pronouns, returns from nested positions, recursion <= 4 deep, arity / kind / unknown-name errors, evaluation order, arrays by value, shadowing, compound assignment, nested subscript writes)' % len(T),
          'values': 'every placeholder is any double (or any double in the stated range where it bounds recursion / loops)'}
OUTSIDE = ['programs outside the templates', 'identifier texts are concrete (re-casing / renaming is C15)']
ASSUMPTIONS = C04.ASSUMPTIONS
RULE = C04.RULE


def h_template(vm, mir, name): return C04.h_template(vm, mir, name, T)


def jobs(ctx, tier):
    from ..progen import function_shapes, scope_shapes
    mir = ctx.mir('dev')
    js = [Job(f'template/{n}', h_template, (mir, n), witness=['run-done'], fuel=20_000_000, weight=5) for n in T]
    q = tier == 'quick'
    js += C04.shape_jobs(mir, preparse(ctx, function_shapes(1 if q else 2)), 'function-shapes', chunk=24)
    js += C04.shape_jobs(mir, preparse(ctx, scope_shapes(2 if q else 3)), 'scope-shapes', chunk=24)
    return js


validate = C04.validate


def replay(ctx, f):
    cex = f.get('cex') or {}
    if 'program' in cex: return native_replay(ctx, cex['program'], f)
    name = cex.get('template')
    if name not in T: return {'reproduced': None}
    return native_replay(ctx, T[name][0], f)
