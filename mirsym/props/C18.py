"""C18 — the constant-assignment lint is exact and its suggested rewrite is equivalent (DESIGN.md §4, C18)."""
import re
import z3
from .common import *
from ..harness import Job, finding, model_of
from ..std import conc
from ..astgen import Gen, N
from ..strings import BStr, Buf
from . import C03, C17

ID = 'C18'
PROFILES = ['dev']
LINE = 7
BOUNDS = {'statements': 'one Assignment / PoeticAssignment::Number / ArrayPush, every form: compound operator present/absent, target identifier (simple name / pronoun) or subscript, value absent / expression list of 1..=2 / poetic literal',
          'right-hand sides': 'expression trees with the root and one further free level (as C17), literal kinds {number, string, null}',
          'constants': 'the folded number is any double; its text is any string f64::Display can produce: NaN, inf, -inf, or [-]digits[.digits] -- one digit in the statement-form jobs, 1..=2 integer and 0..=2 fraction digits in the spelling job, every digit ranging over {0, 1, 5, 9}',
          'strings': 'string literals of 0..=2 characters over {a, line feed}'}
OUTSIDE = ['re-parsing the suggested line with the real parser (string-level parsing, DESIGN.md §5): instead the words are decoded with the poetic digit rule (word length mod 10, period = decimal point), which C11 ties to compute_value',
           'numerals longer than 6 characters', 'message wording beyond target, value, line and the poetic payload']
ASSUMPTIONS = ['f64::Display yields NaN | inf | -inf | [-]digits[.digits] (no exponent): the rendering is an environment stub returning any such string', 'std fmt (format!/write! with plain {}) per documentation'] + C03.ASSUMPTIONS
RULE = 'state = feasible path end over (statement form, tree shape, operator groups, literal kinds, numeral shape and digits); each compares reported/not reported, target, value text, line and the decoded poetic words with the reference, and asserts no panic/UB edge'


# ------------------------------------------------------------------ environment: what f64::Display may return
DIGITS = [48, 49, 53, 57]       # 0 (ten letters), 1, 5, 9


def install_fmt_stub(vm, full=False):
    cache = {}

    def hook(vm_, x):
        key = x.sexpr() if is_sym(x) else repr(x)
        if key in cache: return cache[key][0]
        tag = f'fmt{len(cache)}'
        kind = vm_.fork(4, note=f'{tag}.kind')          # 0 numeral, 1 NaN, 2 inf, 3 -inf
        # the text class is tied to the value class (std contract): NaN <-> "NaN", +/-inf <-> "inf"/"-inf", sign bit <-> leading '-'
        xf = vm_.fp(x)
        simple = z3.is_const(xf) or (xf.num_args() == 1 and z3.is_const(xf.arg(0)))      # literal or its negation
        assume = vm_.assume if simple else (lambda c: None)     # for compound terms the class constraint makes z3's incremental FP checks time out (measured): left unconstrained there
        if kind == 1: s, desc = 'NaN', ('special', 'NaN'); assume(z3.fpIsNaN(xf))
        elif kind == 2: s, desc = 'inf', ('special', 'inf'); assume(z3.And(z3.fpIsInf(xf), z3.fpIsPositive(xf)))
        elif kind == 3: s, desc = '-inf', ('special', '-inf'); assume(z3.And(z3.fpIsInf(xf), z3.fpIsNegative(xf)))
        else:
            neg = vm_.fork(2, note=f'{tag}.neg') == 1
            assume(z3.And(z3.Not(z3.fpIsNaN(xf)), z3.Not(z3.fpIsInf(xf)), z3.fpIsNegative(xf) if neg else z3.fpIsPositive(xf)))
            ni = 1 + (vm_.fork(2, note=f'{tag}.int-digits') if full else 0)
            nf = vm_.fork(3, note=f'{tag}.frac-digits') if full else 0
            cps = [0x2D] if neg else []
            digs = []
            def digit(nm):
                c = z3.BitVec(f'{tag}.{nm}', 32)
                vm_.assume(z3.Or(*[c == d for d in DIGITS])); vm_.domains[c.get_id()] = set(DIGITS); vm_.keep.append(c)
                return c
            for i in range(ni): c = digit(f'i{i}'); cps.append(c); digs.append(c)
            if nf:
                cps.append(0x2E); digs.append('.')
                for i in range(nf): c = digit(f'f{i}'); cps.append(c); digs.append(c)
            s = BStr(Buf(cps, [1] * len(cps))); desc = ('numeral', neg, digs)
        if isinstance(s, str):
            from ..strings import bstr_from_py
            s = bstr_from_py(s)
        cache[key] = (s, desc)
        return s
    vm.fmt_f64_hook = hook; vm.fmt_cache = cache
    return cache


def render_target(node):
    """reference Render of an AssignmentLHS / PrimaryExpression target -> list of code points"""
    def name(vn):
        idn = vn.ch['0']
        words = [w[1] for w in ([idn.ch['0']] if vn.variant == 'Simple' else [idn.ch['0'], idn.ch['1']] if vn.variant == 'Common' else idn.ch['0'])]
        out = []
        for i, w in enumerate(words):
            if i: out.append(32)
            out += w.chars()
        return out
    def ident(w):
        i = w.ch['inner']
        return name(i.ch['0']) if i.variant == 'VariableName' else [ord(c) for c in '<pronoun>']
    if node.ty == 'AssignmentLHS':
        return ident(node.ch['0']) if node.variant == 'Identifier' else [ord(c) for c in '<expression>']
    if node.ty == 'PrimaryExpression':
        if node.variant == 'Identifier': return ident(node.ch['0'])
        return [ord(c) for c in ('<literal>' if node.variant == 'Literal' else '<expression>')]
    raise AssertionError(node)


def cps_of(vm, s):
    from ..std_str import S, _bounded
    return _bounded(vm, S(vm, s)).chars()


def same_text(vm, got, want):
    """z3 Bool / bool: two code point lists are equal"""
    from .C07 import cps_eq
    return cps_eq(vm, got, want)


def decode_words(text):
    """poetic digit rule on concrete suggestion words: returns list of digits / '.'"""
    out = []
    for part in re.split(r'( |\.)', text):
        if part == '.': out.append('.')
        elif part and part != ' ':
            if set(part) != {'*'}: return None
            out.append(len(part) % 10)
    return out


def h_stmt(vm, mir, stmt, forces=(), full_numerals=False):
    gen = Gen(vm, mir, list_max=1)
    gen.force['root'] = stmt
    for k, v in forces: gen.force[k] = v
    gen.min_choices['LiteralExpression'] = lambda path: ['Number', 'String', 'Null']
    gen.min_choices['Identifier'] = lambda path: ['VariableName', 'Pronoun']
    gen.names = lambda g, path: bstr('xy')
    gen.strings = lambda g, path: short_string(vm, f's.{g.n}')
    gen.line = LINE
    for k, v in forces:
        if k.endswith(('.first', '.Expression.0')): gen.deep[k] = 1 if v == 'BinaryExpression' else 2    # forced right-hand side root (+ one free level; operands of a binary root are leaves of every literal kind)
    # layout: everything on one line, or (Put-like) the value on the statement's first line and the target on the next one;
    # the diagnostic belongs to the statement's first line in both (a target *before* the value on an earlier line is not judged)
    if stmt == 'Assignment' and vm.fork(2, note='layout') == 1:
        orig_gen = gen.gen
        def gen_with_line(ty, depth, path='root'):
            gen.line = LINE + 1 if '.Assignment.dest' in path else LINE
            return orig_gen(ty, depth, path)
        gen.gen = gen_with_line
    adt, node = gen.gen('Statement', 2, 'root')
    cache = install_fmt_stub(vm, full_numerals)
    vm.describe = lambda m: describe(vm, node, cache, m)
    out = []
    def bad(role, detail, prop=None):
        if prop is None: m = model_of(vm)
        else:
            v = vm.must_hold(prop, role); m = v.model if v is not None else None
        if m is None: return
        out.append(finding('violation', role, detail, describe(vm, node, cache, m), vm.notes))
    payload = node.ch['0']
    meth = {'Assignment': 'visit_assignment', 'PoeticAssignment': 'visit_poetic_assignment', 'ArrayPush': 'visit_array_push'}[stmt]
    f = resolve_method(vm, mir, 'BoringAssignmentPass', 'VisitProgram', meth)
    r = vm.run_fn(f[0], [R(Adt('BoringAssignmentPass', 0, [])), R(payload.adt)], f[1])
    if r.variant != 0: bad('lint-fails', 'the pass returned an error'); return out
    lb = mir.src.enums['ListBuilder']; v = conc(vm, r.fields[0]); kind = lb[v.variant]
    diags = [] if kind == 'Empty' else [v.fields[0]] if kind == 'One' else list(v.fields[0].fields[0].items)
    # ---- reference: what must be reported
    want = expected_report(vm, mir, stmt, payload)
    if want is None:
        if diags: bad('reports-non-constant', 'a diagnostic was produced for a statement that must not be reported')
        vm.witness = {'stmt-done', 'silent'}; return out
    if len(diags) != 1: bad('misses-constant', f'{len(diags)} diagnostics for a reportable constant assignment'); return out
    d = diags[0]
    if mir.src.structs.get('Diag') != ['issue', 'suggestions', 'line']: raise Unmodelled('Diag fields changed')
    issue, sugg, line = d.fields
    if line != LINE: bad('wrong-line', f'diagnostic line {line}, statement is on line {LINE}')
    kindv, valcps, target, verb, spellable = want
    exp_issue = [ord(c) for c in 'Assignment of literal value `'] + valcps + [ord(c) for c in '` into `'] + target + [ord(c) for c in "` isn't very rock'n'roll"]
    e = same_text(vm, cps_of(vm, issue), exp_issue)
    if e is False: bad('issue-text', 'issue does not name the value and the target')
    elif e is not True: bad('issue-text', 'issue does not name the value and the target', e)
    suggs = [cps_of(vm, x) for x in sugg.fields[0].items]
    if kindv == 'number':
        neg_or_special, digs = spellable
        if neg_or_special:
            for sg in suggs:
                if any(isinstance(c, int) and c == 42 for c in sg): bad('misleading-suggestion', 'a poetic spelling is suggested for a value that has none (negative / NaN / infinite)')
        else:
            if len(suggs) != 1: bad('suggestion-count', f'{len(suggs)} suggestions for a spellable constant'); return out
            txt = ''.join(chr(c) if isinstance(c, int) else '?' for c in suggs[0])
            m = re.fullmatch(r'Consider using a poetic literal such as: `(.*)`', txt, re.S)
            head = ''.join(chr(c) if isinstance(c, int) else '?' for c in target)
            pref = (head + ' is ') if verb == 'is' else ('Rock ' + head + ' like ')
            if not m or not m.group(1).startswith(pref): bad('suggestion-form', f'suggestion {txt!r} is not of the form `{pref}<words>`'); return out
            dec = decode_words(m.group(1)[len(pref):])
            if dec is None or len(dec) != len(digs): bad('suggestion-words', f'poetic words {m.group(1)[len(pref):]!r} do not spell a numeral of the reported shape'); return out
            conds = []
            for got, wd in zip(dec, digs):
                if wd == '.':
                    if got != '.': conds = False; break
                else:
                    if got == '.': conds = False; break
                    conds.append(wd == 48 + got)
            if conds is False: bad('suggestion-words', 'poetic words do not spell the reported value')
            elif conds: bad('suggestion-words', 'poetic words do not spell the reported value', z3.And(*conds) if len(conds) > 1 else conds[0])
    else:
        has_break = spellable
        if has_break is True:
            if suggs: bad('misleading-string-suggestion', 'a `says` line is suggested for a string containing a line break')
        elif has_break is False:
            exp = [ord(c) for c in 'Consider using a poetic literal such as: `'] + target + [ord(c) for c in ' says '] + valcps[1:-1] + [96]
            if len(suggs) != 1: bad('suggestion-count', f'{len(suggs)} suggestions for a plain string constant')
            else:
                e = same_text(vm, suggs[0], exp)
                if e is False: bad('string-suggestion', 'string suggestion is not `<target> says <text>`')
                elif e is not True: bad('string-suggestion', 'string suggestion is not `<target> says <text>`', e)
    vm.witness = {'stmt-done', 'reported'}
    return out


def resolve_method(vm, mir, ty, trait, meth):
    fs = mir.by_impl.get((trait, ty, meth))
    if fs: return fs[0], {}
    for f in mir.by_name.get(meth, []):
        if f.name == f'{trait}::{meth}': return f, {'Self': ty}
    raise Unmodelled(f'{ty}::{meth} not found')


def bstr(s): return BStr(Buf([ord(c) for c in s]))


def short_string(vm, name):
    n = vm.fork(3, note=f'{name}.len'); cps = []
    for i in range(n):
        c = z3.BitVec(f'{name}.c{i}', 32)
        vm.assume(z3.Or(c == 0x61, c == 0x0A)); vm.domains[c.get_id()] = {0x61, 0x0A}; vm.keep.append(c)
        if not hasattr(vm, 'cp_width'): vm.cp_width = {}
        vm.cp_width[c.get_id()] = 1
        cps.append(c)
    return BStr(Buf(cps, [1] * n))


def pure_arith(vm, mir, e):
    """reference: expression built only from number literals, unary minus and + - * / (forces operator groups)"""
    pure, reads = C17.classify(e, mir, vm)
    if not pure: return False
    bnames, unames = mir.src.enums['BinaryOperator'], mir.src.enums['UnaryOperator']
    okk = True
    for n in e.walk():
        if n.ty == 'BinaryOperator':
            if not vm.branch(z3.Or(*[n.adt.disc == bnames.index(x) for x in C17.ARITH])): okk = False
        elif n.ty == 'UnaryOperator':
            if not vm.branch(n.adt.disc == unames.index('Minus')): okk = False
    return okk


def plain_string(e):
    if e.variant != 'PrimaryExpression' or e.ch['0'].variant != 'Literal': return None
    lit = e.ch['0'].ch['0'].ch['inner']
    return lit.ch['0'][1] if lit.variant == 'String' else None


def expected_report(vm, mir, stmt, p):
    """None (must be silent) or (kind, value text cps, target cps, verb, spellability info)"""
    from ..vm import VM
    if stmt == 'Assignment':
        if p.ch['operator'] is not None: return None
        el = p.ch['value'].ch['0']
        if el.ch['rest']: return None
        e = el.ch['first']; target = render_target(p.ch['dest']); verb = 'is'; allow_string = True
    elif stmt == 'PoeticAssignment':
        if p.variant != 'Number': return None
        a = p.ch['0']; r = a.ch['rhs']
        if r.variant != 'Expression': return None
        e = r.ch['0']; target = render_target(a.ch['dest']); verb = 'is'; allow_string = True
    else:
        v = p.ch['value']
        if v is None or v.variant != 'ExpressionList': return None
        el = v.ch['0']
        if el.ch['rest']: return None
        e = el.ch['first']; target = render_target(p.ch['array']); verb = 'like'; allow_string = False
    if pure_arith(vm, mir, e):
        x = ref_fold(vm, mir, e)
        s = vm.fmt_f64_hook(vm, x) if is_sym(x) else None
        if s is None:
            from ..std_str import fmt_float
            s = fmt_float(vm, x)
        desc = [d for (st, d) in vm.fmt_cache.values() if st is s]
        d = desc[0] if desc else None
        if d is None: raise Unmodelled('rendering of the folded constant not found')
        if d[0] == 'special': return ('number', s.chars(), target, verb, (True, None))
        return ('number', s.chars(), target, verb, (d[1], d[2]))
    if allow_string:
        ps = plain_string(e)
        if ps is not None:
            cs = ps.chars()
            hb = None
            brk = [c for c in cs if not isinstance(c, int) or c in (10, 13)]
            if not brk: hb = False
            else:
                cond = z3.Or(*[c == 10 for c in cs if not isinstance(c, int)]) if any(not isinstance(c, int) for c in cs) else z3.BoolVal(True)
                hb = vm.branch(cond)
            return ('string', [34] + cs + [34], target, 'says', hb)
    return None


def ref_fold(vm, mir, e):
    """reference value of a pure arithmetic tree (same IEEE operations, left fold over list operands)"""
    p = e.ch['0']
    if e.variant == 'PrimaryExpression': return p.ch['0'].ch['inner'].ch['0'][1]
    if e.variant == 'UnaryExpression': return z3.fpNeg(vm.fp(ref_fold(vm, mir, p.ch['operand'])))
    acc = ref_fold(vm, mir, p.ch['lhs'])
    bn = mir.src.enums['BinaryOperator']
    for x in [p.ch['rhs'].ch['first']] + p.ch['rhs'].ch['rest']:
        y = ref_fold(vm, mir, x)
        d = p.ch['operator'].adt.disc
        for nm, op in (('Plus', 'Add'), ('Minus', 'Sub'), ('Multiply', 'Mul'), ('Divide', 'Div')):
            if vm.branch(d == bn.index(nm)): acc = vm.fbinop(op, acc, y); break
    return acc


def describe(vm, node, cache, m):
    out = {'statement': node.describe()}
    fm = []
    for key, (s, d) in cache.items():
        fm.append(''.join(chr(c if isinstance(c, int) else m.eval(c, model_completion=True).as_long()) for c in s.chars()))
    out['constant_renders_as'] = fm
    strs = []
    for n in node.walk():
        if n.ty == 'LiteralExpression' and n.variant == 'String':
            s = n.ch['0'][1]
            strs.append(''.join(chr(c if isinstance(c, int) else m.eval(c, model_completion=True).as_long()) for c in s.chars()))
    out['strings'] = strs
    return out


CONCRETE_CONSTANTS = ['0', '5', '10', '105', '0.5', '1234.5678', '1000000000000000', '9007199254740993', '9223372036854775808', '18446744073709551616', '100000000000000000000',
                      '123456789012345678901234567890', '0.000001', '99999999999999999999.5', '10 times 10', '10000000000 times 10000000000', '1 over 8', '3 minus 1, 1', '255 over 5, 3']


def h_concrete(vm, mir):
    """end to end on concrete constants (real parser, real folder, real pass, exact f64 rendering -- no rendering stub): the issue names
    the value the interpreter would assign, and the poetic words of the suggestion spell exactly the named value"""
    from ..progrun import parse_in_vm, exec_in_vm
    from .C19 import diag_list, text_of
    lit = CONCRETE_CONSTANTS[vm.fork(len(CONCRETE_CONSTANTS), note='constant')]
    form = vm.fork(3, note='form')
    src = [f'Put {lit} into X\n', f'X is {lit}\n', f'Rock X with {lit}\n'][form]
    d = lambda m: {'program': src}
    vm.describe = d
    out = []
    def bad(role, detail):
        m = model_of(vm)
        if m is not None: out.append(finding('violation', role, detail, d(m), vm.notes))
    vm.witness = {'stmt-done'}
    r = conc(vm, parse_in_vm(vm, mir, src))
    if r.variant == 1: raise Unmodelled(f'concrete constant program does not parse: {src!r}')
    prog = r.fields[0]
    bp = resolve_method(vm, mir, 'BoringAssignmentPass', 'VisitProgram', 'visit_program')
    lr = vm.run_fn(bp[0], [R(Adt('BoringAssignmentPass', 0, [])), R(prog)], bp[1])
    if lr.variant != 0: bad('lint-fails', 'the pass returned an error'); return out
    diags = diag_list(vm, mir, lr.fields[0])
    if len(diags) != 1: bad('misses-constant', f'{len(diags)} diagnostics for a constant assignment'); return out
    issue = text_of(vm, diags[0].fields[0]); suggs = [text_of(vm, x) for x in diags[0].fields[1].fields[0].items]
    m1 = re.fullmatch(r"Assignment of literal value `(.*)` into `(.*)` isn't very rock'n'roll", issue, re.S)
    if not m1: bad('issue-text', f'unexpected issue text {issue!r}'); return out
    shown = m1.group(1)
    # the value the program assigns: run `say X` (for the push: the pushed element)
    run_src = src + ('say X\n' if form < 2 else 'say X at 0\n')
    pr = conc(vm, parse_in_vm(vm, mir, run_src)); res, o, _ = exec_in_vm(vm, mir, pr.fields[0])
    printed = text_of(vm, o['writes'][0]).rstrip('\n') if o['writes'] else None
    if printed != shown: bad('issue-value', f'the issue names {shown!r} but the program assigns {printed!r}')
    for sg in suggs:
        m2 = re.fullmatch(r'Consider using a poetic literal such as: `(.*)`', sg, re.S)
        if not m2: bad('suggestion-form', f'unexpected suggestion {sg!r}'); continue
        body = m2.group(1)
        pref = 'X is ' if form < 2 else 'Rock X like '
        if not body.startswith(pref): bad('suggestion-form', f'suggestion {body[:40]!r} does not start with {pref!r}'); continue
        dec = decode_words(body[len(pref):])
        if dec is None: bad('suggestion-words', 'the suggestion is not made of poetic placeholder words'); continue
        numeral = ''.join('.' if x == '.' else str(x) for x in dec)
        if numeral.rstrip('.') != shown and not (('.' in shown) and numeral == shown):
            bad('suggestion-words', f'poetic words spell {numeral[:40]} but the reported value is {shown[:40]}')
    return out


def jobs(ctx, tier):
    mir = ctx.mir('dev'); js = []
    js.append(Job('concrete-constants', h_concrete, (mir,), witness=['stmt-done'], str_mode='bounded', weight=10, fuel=20_000_000))
    ev = mir.src.enums['Expression']
    for v in ev:
        js.append(Job(f'Assignment/rhs={v}', h_stmt, (mir, 'Assignment', (('root.Assignment.0.Assignment.value.ExpressionList.0.ExpressionList.first', v),)), witness=['stmt-done'], str_mode='bounded', weight=8, fuel=6_000_000))
        js.append(Job(f'PoeticNumber/rhs={v}', h_stmt, (mir, 'PoeticAssignment', (('root.PoeticAssignment.0', 'Number'), ('root.PoeticAssignment.0.Number.0.PoeticNumberAssignment.rhs', 'Expression'),
                                                                               ('root.PoeticAssignment.0.Number.0.PoeticNumberAssignment.rhs.Expression.0', v))), witness=['stmt-done'], str_mode='bounded', weight=8, fuel=6_000_000))
        js.append(Job(f'ArrayPush/rhs={v}', h_stmt, (mir, 'ArrayPush', (('root.ArrayPush.0.ArrayPush.value?', 'Some'), ('root.ArrayPush.0.ArrayPush.value', 'ExpressionList'),
                                                                      ('root.ArrayPush.0.ArrayPush.value.ExpressionList.0.ExpressionList.first', v))), witness=['stmt-done'], str_mode='bounded', weight=8, fuel=6_000_000))
    js.append(Job('spelling/all-numeral-shapes', h_stmt, (mir, 'Assignment', (('root.Assignment.0.Assignment.value.ExpressionList.0.ExpressionList.first', 'PrimaryExpression'),
                                                                           ('root.Assignment.0.Assignment.value.ExpressionList.0.ExpressionList.first.PrimaryExpression.0', 'Literal'),
                                                                           ('root.Assignment.0.Assignment.value.ExpressionList.0.ExpressionList.rest', 0),
                                                                           ('root.Assignment.0.Assignment.operator?', 'None'), ('root.Assignment.0.Assignment.dest', 'Identifier')), True),
                  witness=['stmt-done', 'reported'], str_mode='bounded', weight=10, fuel=6_000_000))
    # a binary right-hand side whose operand list has two elements (`10 minus 2, 3`): the reported value is the left fold
    base = 'root.Assignment.0.Assignment.value.ExpressionList.0.ExpressionList.first'
    js.append(Job('Assignment/rhs=BinaryExpression/operand-list-of-2', h_stmt, (mir, 'Assignment', ((base, 'BinaryExpression'), (base + '.BinaryExpression.0.BinaryExpression.rhs.ExpressionList.rest', 1),
                                                                                                   ('root.Assignment.0.Assignment.value.ExpressionList.0.ExpressionList.rest', 0), ('root.Assignment.0.Assignment.operator?', 'None'),
                                                                                                   ('root.Assignment.0.Assignment.dest', 'Identifier'))), witness=['stmt-done'], str_mode='bounded', weight=12, fuel=6_000_000))
    js.append(Job('PoeticAssignment/other-forms', h_stmt, (mir, 'PoeticAssignment', (('root.PoeticAssignment.0.Number.0.PoeticNumberAssignment.rhs', 'PoeticNumberLiteral'),)), witness=['stmt-done'], str_mode='bounded', weight=2))
    js.append(Job('ArrayPush/no-value', h_stmt, (mir, 'ArrayPush', (('root.ArrayPush.0.ArrayPush.value?', 'None'),)), witness=['stmt-done'], str_mode='bounded'))
    js.append(Job('ArrayPush/poetic-literal', h_stmt, (mir, 'ArrayPush', (('root.ArrayPush.0.ArrayPush.value?', 'Some'), ('root.ArrayPush.0.ArrayPush.value', 'PoeticNumberLiteral'))), witness=['stmt-done'], str_mode='bounded'))
    return js


LINT_VEC = ['Put 5 into X\n', 'X is 5\n', 'Let X be 1 + 2 * 3\n', 'Put "hello" into X\n', 'Let X be with 5\n', 'Rock the list with 5\n', 'Rock the list with 1, 2\n', 'Put 1 over 8 into my heart\n',
            'Put 10 into X\nPut 0.5 into Y\n', 'Put 105 into X\n', 'Put X into Y\n', 'Put 1, 2 into X\n', 'X is "a"\n', 'Let X be 2 - 1\n', 'Put 3 into X at 1\n', 'Rock X with "a"\n']


def vm_lint(vm, mir, prog_adt):
    f = fn(mir, 'Linter', 'run')
    raise NotImplementedError


def validate(ctx):
    """the lint passes run natively on sample programs; the VM has no parser front end yet, so the translator is validated on
    the value kernels it shares with C03 (same MIR interpreter, same models)"""
    return C03.validate(ctx)


def replay(ctx, f):
    """panic findings are replayed by linting a one-line program whose constant renders as in the counterexample"""
    cex = f.get('cex') or {}
    out = {'reproduced': None}
    rend = (cex.get('constant_renders_as') or [None])[0]
    res = {}
    for prof in ('dev', 'release'):
        nat = ctx.native(prof)
        if rend is not None:
            expr = {'NaN': '0 over 0', 'inf': '1 over 0', '-inf': '-1 over 0'}.get(rend)
            if expr is None: expr = rend
            src = f'Put {expr} into X\n'
            r = nat.call({'op': 'lint', 'src': src}, timeout=20)
            out[prof + '_native'] = {k: r.get(k) for k in ('panic', 'crash', 'timeout', 'diags')}
            if f['kind'] in ('panic', 'ub'): res[prof] = bool('panic' in r or 'crash' in r or 'timeout' in r)
            elif 'panic' in r or 'crash' in r: res[prof] = True
            else:
                ds = r.get('diags', [])
                if f['role'] in ('misleading-suggestion',): res[prof] = any('*' in s for d in ds for s in d['suggestions'])
                else: res[prof] = None
        elif cex.get('strings'):
            s = cex['strings'][0]
            if '"' in s: res[prof] = None; continue
            r = nat.call({'op': 'lint', 'src': f'Put "{s}" into X\n'}, timeout=20)
            out[prof + '_native'] = {k: r.get(k) for k in ('panic', 'crash', 'timeout', 'diags')}
            if f['role'] == 'misleading-string-suggestion': res[prof] = any(('\n' in sg) for d in r.get('diags', []) for sg in d['suggestions'])
            else: res[prof] = True if ('panic' in r or 'crash' in r) else None
        else: res[prof] = None
    out.update(res)
    vals = [v for v in res.values() if v is not None]
    out['reproduced'] = any(vals) if vals else None
    return out
