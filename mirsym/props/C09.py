"""C09 — running any parseable program never crashes the interpreter (program level + crash-site inventory)."""
import re
import z3
from .common import *
from .progcommon import *
from . import C03, C04, C05, C08

ID = 'C09'
PROFILES = ['dev']
# crash-oriented templates: every statement / expression form on operands of unexpected kinds, control flow outside loops,
# names that are functions, unwritable targets, ill-formed values
CRASH = {
 'function-name-assigned': ('F takes X\ngive back X\n\nF is 9001\nsay F\n', {'n1': {}}),
 'function-name-assigned-inner': ('F takes X\ngive back X\n\nIf 9001\nF is 1\n\nsay 1\n', {'n1': {}}),
 'function-name-subscript-write': ('F takes X\ngive back X\n\nLet F at 9001 be 1\n', {'n1': {}}),
 'function-name-incremented': ('F takes X\ngive back X\n\nBuild F up\n', {}),
 'function-name-read': ('F takes X\ngive back X\n\nsay F plus 9001\n', {'n1': {}}),
 'break-twice-top-level': ('say 1\nbreak\n\nsay 2\nbreak\nsay 3\n', {}),
 'continue-top-level': ('continue\n\ncontinue\nsay 1\n', {}),
 'return-twice-top-level': ('give back 9001\n\ngive back 2\nsay 3\n', {'n1': {}}),
 'break-then-return': ('break\n\ngive back 1\n', {}),
 'break-in-function-outside-loop': ('F takes X\nbreak\nsay X\ngive back X\n\nsay F taking 9001\nsay F taking 2\n', {'n1': {}}),
 'continue-in-if-outside-loop': ('If 9001\ncontinue\n\nsay 1\n\nsay 2\ncontinue\n', {'n1': {}}),
 'pop-from-kinds': ('X is 9001\nRoll X\nsay 1\n', {'n1': {}}),
 'pop-from-literal': ('Roll 9001 into X\nsay X\n', {'n1': {}}),
 'pop-expression-from-string': ('X is "§1"\nsay roll X\n', {'s1': {}}),
 'pop-mysterious-name': ('Roll Q into X\nsay X\n', {}),
 'push-onto-literal': ('Rock 9001 with 2\nsay 1\n', {'n1': {}}),
 'push-onto-kinds': ('X is "§1"\nRock X with 9001\nsay X\nY is true\nRock Y\nsay Y\n', {'n1': {}, 's1': {}}),
 'subscript-kinds': ('X is 9001\nsay X at 1\n', {'n1': {}}),
 'subscript-write-kinds': ('X is 9001\nLet X at 9002 be 3\nsay X\n', {'n1': {}, 'n2': {}}),
 'subscript-write-string': ('X is "§1"\nLet X at 0 be 3\n', {'s1': {}}),
 'subscript-array-key': ('Rock K with 1\nRock Arr with 2\nsay Arr at K\nLet Arr at K be 9001\n', {'n1': {}}),
 'index-any-number': ('Rock Arr with 1, 2\nsay Arr at 9001\nLet Arr at 9002 be 1\nsay Arr at 0\n', {'n1': {}, 'n2': {'lo': -5, 'hi': 6}}),
 'index-huge': ('Let Arr at 9001 be 1\n', {'n1': {'lo': 1e18}}),
 'incdec-kinds': ('X is "§1"\nBuild X up\n', {'s1': {}}),
 'incdec-undefined': ('Build Q up\nsay Q\n', {}),
 'incdec-null-bool': ('X is null\nBuild X up\nsay X\nY is true\nKnock Y down, down, down\nsay Y\nPut mysterious into Z\nKnock Z down\n', {}),
 'rounding-kinds': ('X is "§1"\nTurn up X\n', {'s1': {}}),
 'rounding-values': ('X is 9001\nTurn up X\nsay X\nTurn down X\nTurn round X\nsay X\nTurn it around\nsay X\n', {'n1': {}}),
 'mutation-kinds': ('X is 9001\nCut X\n', {'n1': {}}),
 'mutation-cast-values': ('X is 9001\nCast X\nsay X\n', {'n1': {}}),
 'mutation-cast-string-radix': ('X is "§1"\nCast X with 9001\nsay X\n', {'n1': {}, 's1': {}}),
 'mutation-cast-string': ('X is "§1"\nCast X\nsay X\nCast "12" into Y\nsay Y\n', {'s1': {}}),
 'mutation-into': ('X is "a,b"\nCut X into Y with ","\nsay X\nsay Y\nJoin Y into Z with 9001\n', {'n1': {}}),
 'poetic-suffixes': ('X is a rockstar\'s dream\nsay X\nY is rock\'n\'roll. it\'s over\nsay Y\nRock Arr like we\'re here\nsay Arr\n', {}),
 'join-strings': ('Rock Arr with "a", "§1"\nJoin Arr with "-"\nsay Arr\nRock Brr with "x"\nLet Brr at "k" be "y"\nJoin Brr into Z\nsay Z\n', {'s1': {}}),
 'mutation-join-kinds': ('Rock Arr with 9001, "§1"\nJoin Arr\nsay Arr\n', {'n1': {}, 's1': {}}),
 'mutation-on-literal': ('Cut "a b" into X with " "\nsay X\n', {}),
 'compound-kinds': ('X is "§1"\nLet X be without 9001\nsay X\nLet X be over 0\nsay X\nLet Y be with 1\n', {'n1': {}, 's1': {}}),
 'compare-kinds': ('say 9001 is greater than "§1"\nsay true is less than false\n', {'n1': {}, 's1': {}}),
 'compare-arrays': ('Rock Arr with 1\nsay Arr is less than 9001\nsay Arr is greater than Arr\n', {'n1': {}}),
 'negate-kinds': ('X is "§1"\nsay -1 times X\nsay not X\nsay 0 minus 9001\n', {'n1': {}, 's1': {}}),
 'string-times-number': ('say "ab" times 9001\n', {'n1': {'lo': -2, 'hi': 3}}),
 'divide-by-zero': ('say 9001 over 0\nsay 0 over 0\nsay 1 over -0\nPut 1 over 0 into X\nBuild X up\nsay X\n', {'n1': {}}),
 'pronoun-errors': ('say it\n', {}),
 'pronoun-after-function-scope': ('F takes X\nsay it\ngive back it\n\nsay F taking 9001\nsay it\n', {'n1': {}}),
 'pronoun-write-unset': ('Put 1 into it\n', {}),
 'pronoun-subscript-unset': ('Let it at 0 be 1\n', {}),
 'poetic-forms': ('X is a rockstar\nsay X\nY is nothing\nsay Y\nZ says hello there\nsay Z\nRock Arr like a wall\nsay Arr\nW is ice. cold\nsay W\n', {}),
 'call-statement-kinds': ('X is 9001\nX taking 1\n', {'n1': {}}),
 'deep-nesting': ('If 1\nIf 1\nIf 1\nIf 9001\nsay 1\n\n\n\n\nsay 2\n', {'n1': {}}),
 'listen-forms': ('Listen\nListen to X\nsay X\nListen to X at 9001\nsay X\n', {'n1': {}}),
 'function-redefinition': ('F takes X\ngive back 1\n\nF takes Y\ngive back 2\n\nsay F taking 9001\n', {'n1': {}}),
 'variable-then-function': ('F is 9001\nF takes X\ngive back X\n\nsay F\n', {'n1': {}}),
 'array-function-arg': ('F takes L\nRoll L into H\ngive back H\n\nsay F taking 9001\nRock Arr\nsay F taking Arr\n', {'n1': {}}),
}
BOUNDS = {'generated programs': 'kind x statement matrix: X of every kind {undefined name, mysterious, null, boolean, number, string, array with list and dictionary part, empty array, function} x 51 one-operand statement / expression forms + 38 two-operand forms with the other operand of kind {number, string, array, null} (1827 programs); numbers any double (an operand used as index / repeat count: <= 3, >= 6e17 or NaN -- values in between only allocate), strings any opaque string and, in a second run, a bounded string of 0..=1 (thorough 2) symbolic characters incl. multi-byte ones, and in a third run 10 long texts (100 ASCII bytes; 2-, 3- and 4-byte characters x every alignment, 80+ bytes); poetic number literals of 1..=40 (thorough 120) words with 4 dot placements',
          'programs': '%d crash-oriented templates + the templates of C04 / C05 / C08 (%d), each parsed by the real parser; every placeholder is any double / any string' % (len(CRASH), len(C04.TEMPLATES) + len(C05.T) + len(C08.T)),
          'edges': 'panic, debug assertion, unreachable!, unimplemented!, MIR overflow / bounds asserts, RefCell double borrow, unwrap on None / Err, unchecked_unwrap on None / Err, unreachable_unchecked, and rendering (Display) of every runtime error produced',
          'inventory': 'every crash site of the interpreter modules in the MIR is listed; the function containing it must have been executed by some harness path, otherwise the check is inconclusive'}
OUTSIDE = ['programs outside the templates (the inventory bounds what can be missed to crash sites whose *function* was executed but whose edge needs a state no template reaches)', 'stack exhaustion, allocation failure (resource bounds)']
ASSUMPTIONS = C04.ASSUMPTIONS
RULE = 'state = feasible path end of the real interpreter on one template; a feasible crash edge is a finding (z3 supplies the placeholder values), every produced error is rendered'
SITE_PREFIXES = ('exec_stmt::', 'produce_val::', 'write_val::', 'environment::', 'sym_table::', 'val::', 'exec::', 'op', 'binary_operator_fold', 'subscript_val', 'wrap', 'not_writable_error', 'index_string', 'position_or_end')
AST_FUNCS = ('compute_value', 'greedily_match_suffixes', 'word_len', 'ten_to_the')
SITE_RX = re.compile(r'\b(panic|panic_fmt|panic_display|begin_panic|unreachable_unchecked|unreachable_display|assert_failed|unchecked_unwrap|unchecked_expect|unwrap_failed|expect_failed)\b|Option::<.*>::(unwrap|expect)\(|Result::<.*>::(unwrap|expect)\(')


def all_templates():
    out = {}
    for src, pre in ((CRASH, 'crash'), (C04.TEMPLATES, 'c04'), (C05.T, 'c05'), (C08.T, 'c08')):
        for k, v in src.items(): out[f'{pre}/{k}'] = v
    return out


def h_run(vm, mir, name):
    text, spec = all_templates()[name]
    holes = C04.mk_holes(vm, spec)
    stdin = [(str_hole(vm, f'line{i}'), True) for i in range(2)] if 'isten' in text else []
    prog = instantiate(vm, mir, parsed_program(mir, text), holes)
    d0 = describe_holes(holes, stdin)
    vm.describe = lambda m: dict(d0(m), template=name)
    lines = [SymStr(z3.Concat(t, zs('\n'))) for t, _ in stdin]
    res, odata, idata = exec_in_vm(vm, mir, prog, lines)
    res = conc(vm, res)
    if res.variant == 1:
        from ..std_fmt import display_to_string
        display_to_string(vm, 'RuntimeError', R(res.fields[0]))        # the message must be renderable
        vm.witness = {'run-done', 'error-rendered'}
    else: vm.witness = {'run-done'}
    return None


def crash_sites(mir):
    sites = {}
    for f in mir.fns.values():
        if not (f.name.startswith(SITE_PREFIXES) or (f.name.startswith('ast::') and any(x in f.name for x in AST_FUNCS)) or (f.name.startswith('ast::') and f.impl is not None and f.impl.trait == 'Iterator')): continue
        if f.name.startswith('val::display') or '::tests::' in f.name: continue
        if 'fmt' == f.method and f.impl is not None and f.impl.derive: continue       # derived Debug
        n = 0
        for bb in f.blocks.values():
            for line in bb:
                if SITE_RX.search(line) or (line.startswith('assert(') and 'misaligned' not in line and 'null pointer' not in line): n += 1
        if n: sites[f.name] = n
    return sites


def sym_short_string(vm, name, nmax=2):
    """bounded string of 0..=nmax symbolic characters; classes: digit / ASCII letter / blank / other ASCII / 2-, 3-, 4-byte members of R"""
    from .lexcommon import R_BY_WIDTH
    from ..strings import BStr, Buf
    from .. import chartab
    n = vm.fork(nmax + 1, note=f'{name}.len')
    cps, ws = [], []
    for i in range(n):
        c = z3.BitVec(f'{name}.c{i}', 32); vm.keep.append(c)
        k = vm.fork(7, note=f'{name}.class{i}')
        if k == 0: vm.assume(chartab.is_ascii_digit(c)); w = 1
        elif k == 1: vm.assume(chartab.is_ascii_alphabetic(c)); w = 1
        elif k == 2: vm.assume(chartab.is_ascii_whitespace(c)); w = 1
        elif k == 3: vm.assume(z3.And(z3.ULT(c, 128), z3.Not(chartab.is_ascii_alphanumeric(c)), z3.Not(chartab.is_ascii_whitespace(c)))); w = 1
        else:
            w = k - 2; ms = R_BY_WIDTH[w]
            vm.assume(z3.Or(*[c == m for m in ms]) if len(ms) > 1 else c == ms[0]); vm.domains[c.get_id()] = set(ms)
        if not hasattr(vm, 'cp_width'): vm.cp_width = {}
        vm.cp_width[c.get_id()] = w
        cps.append(c); ws.append(w)
    return BStr(Buf(cps, ws))


def h_kind(vm, mir, chunk, bounded):
    i = vm.fork(len(chunk), note='shape') if len(chunk) > 1 else 0
    text, spec = chunk[i][0], chunk[i][1]
    holes = {}
    for k in spec:
        if k.startswith('n') and bounded == 'long':
            holes[k] = {'n1': 5.0, 'n2': 2.0, 'n3': 1.0}.get(k, 1.0)          # this run is about long texts: numbers are concrete, so every rendering is concrete text
        elif k.startswith('n'):
            holes[k] = x = num_hole(vm, k)
            # the second operand may be an index / repeat count: values whose only effect is a huge allocation are outside the property (resource bounds)
            if k == 'n3' or spec[k].get('index'): vm.assume(z3.Or(z3.fpLEQ(x, z3.FPVal(3.0, F64)), z3.fpGEQ(x, z3.FPVal(6e17, F64)), z3.fpIsNaN(x)))
        elif bounded == 'long':
            # long multi-byte texts: every byte offset up to 80 lies inside a character of at least one layout (cuts, elisions, padding)
            holes[k] = bstr_from_py(LONG_TEXTS[vm.fork(len(LONG_TEXTS), note=k)]) if k == 's1' else bstr_from_py('a,')
        elif bounded:
            if k == 's1': holes[k] = sym_short_string(vm, k, 1 if getattr(vm, 'tier', 'quick') == 'quick' else 2)
            else: holes[k] = bstr_from_py(['', '1', 'a,'][vm.fork(3, note=k)])
        else: holes[k] = SymStr(str_hole(vm, k))
    stdin = [(str_hole(vm, f'line{j}'), True) for j in range(1)] if 'isten' in text else []
    prog = instantiate(vm, mir, program_of_shape(mir, chunk[i]), holes)
    d0 = describe_holes({k: (h if not isinstance(h, BStr) else SymStr(to_sym(h))) for k, h in holes.items()}, stdin)
    vm.describe = lambda m: dict(d0(m), program=text)
    lines = [SymStr(z3.Concat(t, zs('\n'))) for t, _ in stdin]
    try: res, odata, idata = exec_in_vm(vm, mir, prog, lines)
    except Unmodelled as e:
        if bounded or 'opaque symbolic string' not in str(e): raise
        vm.witness = {'run-done', 'deferred-to-bounded-strings'}       # character-level string work: decided by the bounded-string job of the same shape
        return None
    res = conc(vm, res)
    if res.variant == 1:
        from ..std_fmt import display_to_string
        try: display_to_string(vm, 'RuntimeError', R(res.fields[0]))
        except Unmodelled as e:
            if bounded or 'opaque symbolic string' not in str(e): raise
            vm.witness = {'run-done', 'deferred-to-bounded-strings'}       # character-level work on the rendered value: decided by the bounded / long string jobs of the same shape
            return None
        vm.witness = {'run-done', 'error-rendered'}
    else: vm.witness = {'run-done'}
    return None


LONG_TEXTS = ['x' * 100] + [p + c * n for c, n in (('\u00e9', 40), ('\u212a', 30), ('\U0001F600', 20)) for p in ('', 'x', 'xx', 'xxx')[:len(c.encode()) ]]


def jobs(ctx, tier):
    from ..progen import kind_shapes, chunks
    mir = ctx.mir('dev')
    js = [Job(f'run/{n}', h_run, (mir, n), witness=['run-done'], fuel=20_000_000, weight=3) for n in all_templates()]
    shapes = preparse(ctx, kind_shapes())
    for k, ch in enumerate(chunks(shapes, 12)):
        js.append(Job(f'kinds/{k}', h_kind, (mir, ch, False), witness=['run-done'], fuel=20_000_000, weight=12))
    from ..progen import poetic_length_shapes
    for k, ch in enumerate(chunks(preparse(ctx, poetic_length_shapes(40 if tier == 'quick' else 120)), 10)):
        js.append(Job(f'poetic-lengths/{k}', h_kind, (mir, ch, False), witness=['run-done'], fuel=20_000_000, weight=12))
    withstr = [sh for sh in shapes if any(k.startswith('s') for k in sh[1])]
    for k, ch in enumerate(chunks(withstr, 4)):
        js.append(Job(f'kinds-bounded-strings/{k}', h_kind, (mir, ch, True), witness=['run-done'], fuel=20_000_000, weight=12, str_mode='bounded'))
    for k, ch in enumerate(chunks(withstr, 12)):
        js.append(Job(f'kinds-long-strings/{k}', h_kind, (mir, ch, 'long'), witness=['run-done'], fuel=40_000_000, weight=12, str_mode='bounded'))
    return js


def produceval_unimplemented_reachable(mir):
    """ProduceValOutput::{combine, default} and ProduceVal::visit_array_push_rhs are unimplemented!().  They are unreachable iff no
    VisitExpr method that ExecStmt / WriteVal invoke on a ProduceVal leads (through trait-default bodies) to a method that folds
    results.  Computed from the MIR text: entry calls, then closure over `<Self as VisitExpr>::m` calls of default bodies,
    stopping at methods ProduceVal overrides (whose own bodies are scanned as well)."""
    call_rx = re.compile(r'<(?:Self|ProduceVal<[^>]*>|ProduceVal) as VisitExpr>::(\w+)')
    entries = set()
    for f in mir.fns.values():
        if f.name.startswith(('exec_stmt::', 'write_val::', 'subscript_val')) or (f.name.startswith('produce_val::') and f.impl is not None and f.impl.trait == 'VisitExpr'):
            txt = '\n'.join(l for b in f.blocks.values() for l in b)
            for m in re.finditer(r'<ProduceVal<[^>]*> as VisitExpr>::(\w+)|ProduceVal::<[^>]*>::(visit_\w+)', txt): entries.add(m.group(1) or m.group(2))
    overrides = {k[2]: fs[0] for k, fs in mir.by_impl.items() if k[0] == 'VisitExpr' and k[1] == 'ProduceVal'}
    seen, todo, bad = set(), list(entries), []
    while todo:
        m = todo.pop()
        if m in seen: continue
        seen.add(m)
        f = overrides.get(m) or next((x for x in mir.by_name.get(m, []) if x.name == f'VisitExpr::{m}'), None)
        if f is None: continue
        txt = '\n'.join(l for b in f.blocks.values() for l in b)
        if m not in overrides and re.search(r'combine_all::<|as Combine>::combine|\bleaf::<', txt): bad.append(m)
        if m == 'visit_array_push_rhs': bad.append(m)
        for mm in call_rx.finditer(txt): todo.append(mm.group(1))
        # closures of the method
        for g in mir.fns.values():
            if g.is_closure and g.name.startswith(f.name + '::'):
                t2 = '\n'.join(l for b in g.blocks.values() for l in b)
                for mm in call_rx.finditer(t2): todo.append(mm.group(1))
    return sorted(set(bad)), sorted(entries)


def post_check(ctx, results):
    """inventory: every function with a crash site must have been executed by some path of some job"""
    mir = ctx.mir('dev')
    executed = set()
    for r in results: executed.update(r.get('fns', {}).keys())
    sites = crash_sites(mir)
    base = lambda n: re.sub(r'#\d+$', '', n)
    missing = sorted(n for n in sites if n not in executed and not n.endswith(('::fmt',)) and 'tests' not in n)
    reach, entries = produceval_unimplemented_reachable(mir)
    unimpl = [n for n in missing if re.search(r'produce_val::<impl at [^>]*>::(combine|default|visit_array_push_rhs)$', n)]
    if not reach: missing = [n for n in missing if n not in unimpl]        # shown unreachable by the call-closure argument
    return {'crash_site_functions': len(sites), 'crash_sites': sum(sites.values()), 'functions_not_executed': missing,
            'producevaloutput_unimplemented': {'entry_methods_called_on_ProduceVal': entries, 'default_methods_that_would_fold_results': reach, 'excused_as_unreachable': unimpl if not reach else []}}


validate = C04.validate


def replay(ctx, f):
    cex = f.get('cex') or {}
    if 'program' in cex: return native_replay(ctx, cex['program'], f)
    name = cex.get('template')
    t = all_templates().get(name)
    if t is None: return {'reproduced': None}
    return native_replay(ctx, t[0], f)
