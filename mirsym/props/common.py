"""Shared harness helpers for the value-kernel properties (C14, C03, C06, C07, C10)."""
import struct, math, json
import z3
from ..values import *
from ..strings import *
from ..symval import *
from ..harness import Job, finding, model_of
from ..std import ok, err, some, NONE

BINOPS = ['Plus', 'Minus', 'Multiply', 'Divide', 'And', 'Or', 'Nor', 'Eq', 'NotEq', 'Greater', 'GreaterEq', 'Less', 'LessEq']


def fn(mir, ty, name, trait=None):
    fs = mir.by_impl.get((trait, ty, name))
    if not fs: raise Unmodelled(f'function {ty}::{name} not found in the MIR (renamed or removed?)')
    return fs[0]


def free_fn(mir, name):
    fs = [f for f in mir.by_name.get(name.split('::')[-1], []) if f.name.endswith(name)]
    if not fs: raise Unmodelled(f'function {name} not found in the MIR')
    return fs[0]


def R(v): return Ref(Cell(v))


def f64bits(x): return struct.unpack('<Q', struct.pack('<d', x))[0]
def bits_f64(b): return struct.unpack('<d', struct.pack('<Q', b))[0]


def val_from_json(vm, j):
    k = j['kind']
    if k == 'Undefined': return Adt('Val', 0, [])
    if k == 'Null': return Adt('Val', 1, [])
    if k == 'Boolean': return Adt('Val', 2, [bool(j['v'])])
    if k == 'Number': return Adt('Val', 3, [bits_f64(j['bits'])])
    if k == 'String': return Adt('Val', 4, [rc(const_str(vm, j['v']))])
    if k == 'Array':
        ents = []
        for kj, vj in j.get('dict', []):
            kk = kj['kind']
            key = Adt('DictKey', ['Undefined', 'Null', 'Boolean', 'String'].index(kk), [] if kk in ('Undefined', 'Null') else [bool(kj['v'])] if kk == 'Boolean' else [const_str(vm, kj['v'])])
            ents.append([key, val_from_json(vm, vj)])
        return Adt('Val', 5, [rc(mk_array([val_from_json(vm, x) for x in j.get('arr', [])], ents, tag=vm.fresh('dict')))])
    raise ValueError(k)


def val_to_json(vm, v, model=None):
    """JSON of a VM Val (evaluated under `model` if it has symbolic parts)"""
    def ev(t):
        if model is None:
            t = z3.simplify(t); return t
        return model.eval(t, model_completion=True)
    if isinstance(v, Ref): v = vm.ref_get(v)
    if isinstance(v, SymEnum): v = v.alt(ev(v.disc).as_long())
    kind = KINDS[v.variant]
    if kind in ('Undefined', 'Null'): return {'kind': kind}
    p = v.fields[0]
    if kind == 'Boolean': return {'kind': kind, 'v': bool(z3.is_true(ev(p))) if is_sym(p) else bool(p)}
    if kind == 'Number': return {'kind': kind, 'bits': f64_bits(ev(p) if is_sym(p) else p)}
    if kind == 'String': return {'kind': kind, 'v': str_of(p.box.cell.v, ev)}
    arr = p.box.cell.v
    return {'kind': kind, 'arr': [val_to_json(vm, x, model) for x in arr.fields[0].fields[0].items],
            'dict': [[key_to_json(vm, k, ev), val_to_json(vm, x, model)] for k, x in arr.fields[1].entries]}


def key_to_json(vm, k, ev):
    if isinstance(k, SymEnum): k = k.alt(ev(k.disc).as_long())
    kind = ['Undefined', 'Null', 'Boolean', 'String'][k.variant]
    if kind == 'Boolean':
        p = k.fields[0]; return {'kind': kind, 'v': bool(z3.is_true(ev(p))) if is_sym(p) else bool(p)}
    if kind == 'String': return {'kind': kind, 'v': str_of(k.fields[0], ev)}
    return {'kind': kind}


def distinct_keys_ok(j):
    """a JSON array value is only a *valid* state if its dictionary keys are pairwise distinct"""
    if j.get('kind') != 'Array': return True
    ks = [json.dumps(k, sort_keys=True) for k, _ in j.get('dict', [])]
    return len(set(ks)) == len(ks) and all(distinct_keys_ok(v) for _, v in j.get('dict', [])) and all(distinct_keys_ok(v) for v in j.get('arr', []))


def render_val(j):
    """Display of a Val as rrss renders it (used to compare VM results with native results, dict entries sorted)"""
    k = j['kind']
    if k == 'Undefined': return 'mysterious'
    if k == 'Null': return 'null'
    if k == 'Boolean': return 'true' if j['v'] else 'false'
    if k == 'Number':
        from ..std_str import rust_fmt_f64
        return rust_fmt_f64(bits_f64(j['bits']))
    if k == 'String': return '"' + j['v'] + '"'
    parts = [render_val(x) for x in j.get('arr', [])]
    ents = sorted(render_key(kk) + ': ' + render_val(vv) for kk, vv in j.get('dict', []))
    return '[' + ', '.join(parts + ents) + ']'


def render_key(j):
    k = j['kind']
    if k == 'Undefined': return 'mysterious'
    if k == 'Null': return 'null'
    if k == 'Boolean': return 'true' if j['v'] else 'false'
    return '"' + j['v'] + '"'


def same_val_json(a, b):
    """structural equality of two Val JSONs (NaN == NaN, -0 != +0), dictionary order-insensitive"""
    if a['kind'] != b['kind']: return False
    k = a['kind']
    if k == 'Number':
        x, y = bits_f64(a['bits']), bits_f64(b['bits'])
        return (x != x and y != y) or a['bits'] == b['bits']
    if k in ('Boolean', 'String'): return a['v'] == b['v']
    if k == 'Array':
        if 'display' in a or 'display' in b:
            da = a.get('display') or render_val(a); db = b.get('display') or render_val(b)
            return da == db
        return render_val(a) == render_val(b)
    return True


# ------------------------------------------------------------------ running the operator kernel from MIR
def thunk(vm, val, log, idx, fail=False):
    """environment stub for an rhs operand: records that it was evaluated, yields Ok(val) or an error"""
    def f(vm_, this):
        log.append(idx)
        if fail: return err(Adt('RuntimeError', 1, [Adt('ValError', 8, [const_str(vm_, '<thunk failure>')])]))
        return ok(vm_.clone_val(val))
    return HostFn(f, f'thunk{idx}')


def fold_op(vm, mir, opidx, a, rhs_vals, fails=()):
    """binary_operator_fold(op, a, thunks, &mut ()) executed from MIR.  Returns (result Adt, list of evaluated operand indices)"""
    f = free_fn(mir, 'binary_operator_fold')
    log = []
    thunks = [thunk(vm, v, log, i, i in fails) for i, v in enumerate(rhs_vals)]
    op = opidx if isinstance(opidx, (Adt, SymEnum)) else Adt('BinaryOperator', opidx, [])
    r = vm.run_fn(f, [op, vm.clone_val(a), It('list', thunks, 0), R(UNIT)], {'This': '()'})
    return r, log


def as_bool_term(x): return z3.BoolVal(x) if isinstance(x, bool) else x


def result_bool(vm, r):
    """payload of Ok(Val::Boolean(b)) -> b ; None if Err"""
    if r.variant != 0: return None
    v = r.fields[0]
    if isinstance(v, SymEnum): raise Unmodelled('symbolic result kind')
    if v.variant != 2: raise Unmodelled(f'operator returned non-boolean {v!r}')
    return v.fields[0]


def freeze_val(vm, v):
    """capture the *current* structure of a value whose top-level kind is already decided, so that it can be described
    under a model later even if the containers are mutated in between (elements are captured by identity)"""
    from ..std import conc
    if isinstance(v, Ref): v = vm.ref_get(v)
    top = conc(vm, v) if isinstance(v, SymEnum) else v
    if top.variant != 5: return lambda m: val_to_json(vm, v, m)
    arr = top.fields[0].box.cell.v
    items = list(arr.fields[0].fields[0].items)
    ents = [(e[0], e[1]) for e in arr.fields[1].entries]

    def d(m):
        def ev(t): return m.eval(t, model_completion=True) if m is not None else z3.simplify(t)
        return {'kind': 'Array', 'arr': [val_to_json(vm, x, m) for x in items], 'dict': [[key_to_json(vm, k, ev), val_to_json(vm, x, m)] for k, x in ents]}
    return d
