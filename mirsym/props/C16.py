"""C16 — visitors see every node exactly once, in order, and stop at the first error (DESIGN.md §4, C16)."""
import z3
from .common import *
from ..harness import Job, finding, model_of
from ..std import conc, ok, err
from ..astgen import Gen, N
from ..mir import Impl, type_head

ID = 'C16'
PROFILES = ['dev']
BOUNDS = {'trees': 'one job per AST node kind K (every Statement / Expression / PrimaryExpression / AssignmentLHS / PoeticAssignment / ... variant): a Program whose single statement contains a K node at the shallowest legal position; below K two further enum levels range over every variant, every Option is present/absent, every list has 0..=2 elements (first element ranging, others minimal); deeper parts are minimal',
          'visitor': 'ExprVisitorRunner<T> with T overriding nothing (every callback is the trait default); every callback entry is observed',
          'failure': 'no failure, or a failure injected at the k-th callback for every k',
          'result': 'Output = linter::ListBuilder<u32> (the crate\'s own non-commutative Combine), each leaf callback yields One(its index): the returned list is the left fold'}
OUTSIDE = ['deeper / wider trees than the bound: traversal code has no state besides the recursion, so a skipped / duplicated / reordered child shows at the parent\'s own job; composition is by induction over the node kinds, all of which have a job']
ASSUMPTIONS = ['std iterator adaptors (once, chain, map, try_fold) per documentation', 'reference order = source order of the program text (lhs, operator, rhs; dest, operator, value), i.e. the order at the pinned commit; "field order" of the property statement is read as this order']
RULE = 'state = feasible path end over (tree shape decisions, failing callback index); each compares the observed callback sequence, the returned error and the folded result with a reference pre-order traversal of the same tree'

ERR = 4242
REC = 'VerifRecorder'
RUNNER = f'ExprVisitorRunner<{REC}>'


def register_recorder(mir):
    """a visitor type that exists only for the VM: no overrides, Output = ListBuilder<u32>, Error = u32"""
    key = ('<verif>', 0)
    if key in mir.src.impls: return
    im = Impl(); im.file, im.line, im.generics, im.trait, im.trait_args, im.self_ty = '<verif>', 0, [], 'Visit', [], REC
    im.assoc = {'Output': 'ListBuilder<u32>', 'Error': 'u32'}; im.end_line = 0; im.derive = False
    mir.src.impls[key] = im


# ------------------------------------------------------------------ reference traversal
class Ref_:
    def __init__(self): self.ev = []

    def e(self, m, n): self.ev.append((m, n.nid if isinstance(n, N) else n))

    def program(self, p):
        for b in p.ch['code']: self.block(b)

    def block(self, b):
        self.e('visit_block', b)
        if b.variant == 'NonEmpty':
            for s in b.ch['0']: self.statement(s)

    def statement(self, s):
        self.e('visit_statement', s); p = s.ch.get('0'); v = s.variant
        getattr(self, 's_' + v)(p)

    def s_Assignment(self, a):
        self.e('visit_assignment', a); self.lhs(a.ch['dest'])
        if a.ch['operator'] is not None: self.e('visit_binary_operator', a.ch['operator'])
        self.e('visit_assignment_rhs', a.ch['value']); self.expression_list(a.ch['value'].ch['0'])

    def s_PoeticAssignment(self, p):
        self.e('visit_poetic_assignment', p); a = p.ch['0']
        if p.variant == 'Number':
            self.e('visit_poetic_number_assignment', a); self.lhs(a.ch['dest'])
            r = a.ch['rhs']; self.e('visit_poetic_number_assignment_rhs', r)
            if r.variant == 'Expression': self.expression(r.ch['0'])
            else: self.poetic_literal(r.ch['0'])
        else:
            self.e('visit_poetic_string_assignment', a); self.lhs(a.ch['dest'])

    def s_If(self, i):
        self.e('visit_if', i); self.expression(i.ch['condition']); self.block(i.ch['then_block'])
        if i.ch['else_block'] is not None: self.block(i.ch['else_block'])

    def s_While(self, w): self.e('visit_while', w); self.expression(w.ch['condition']); self.block(w.ch['block'])
    def s_Until(self, w): self.e('visit_until', w); self.expression(w.ch['condition']); self.block(w.ch['block'])
    def s_Inc(self, i): self.e('visit_inc', i); self.identifier(i.ch['dest'])
    def s_Dec(self, i): self.e('visit_dec', i); self.identifier(i.ch['dest'])

    def s_Input(self, i):
        self.e('visit_input', i); d = i.ch['dest']
        if d.variant == 'Some': self.lhs(d.ch['0'])

    def s_Output(self, o): self.e('visit_output', o); self.expression(o.ch['value'])

    def s_Mutation(self, m):
        self.e('visit_mutation', m); self.e('visit_mutation_operator', m.ch['operator']); self.primary(m.ch['operand'])
        if m.ch['dest'] is not None: self.lhs(m.ch['dest'])
        if m.ch['param'] is not None: self.expression(m.ch['param'])

    def s_Rounding(self, r): self.e('visit_rounding', r); self.e('visit_rounding_direction', r.ch['direction']); self.expression(r.ch['operand'])
    def s_Continue(self, c): self.e('visit_continue', c)
    def s_Break(self, c): self.e('visit_break', c)

    def s_ArrayPush(self, a):
        self.e('visit_array_push', a); self.primary(a.ch['array'])
        v = a.ch['value']
        if v is not None:
            self.e('visit_array_push_rhs', v)
            if v.variant == 'ExpressionList': self.expression_list(v.ch['0'])
            else: self.poetic_literal(v.ch['0'])

    def s_ArrayPop(self, a):
        self.e('visit_array_pop', a); self.pop_expr(a.ch['expr'])
        if a.ch['dest'] is not None: self.lhs(a.ch['dest'])

    def s_Return(self, r): self.e('visit_return', r); self.expression(r.ch['value'])

    def s_Function(self, f):
        self.e('visit_function', f); self.variable_name(f.ch['name'].ch['inner'])
        d = f.ch['data']; self.e('visit_function_data', d)
        for p in d.ch['params']: self.variable_name(p.ch['inner'])
        self.block(d.ch['body'])

    def s_FunctionCall(self, f): self.e('visit_function_call_statement', f); self.function_call(f)

    # expression level (callbacks of the inner visitor)
    def lhs(self, a):
        self.e('visit_assignment_lhs', a)
        if a.variant == 'Identifier': self.identifier(a.ch['0'])
        else: self.subscript(a.ch['0'])

    def poetic_literal(self, p):
        self.e('visit_poetic_number_literal', p)
        for el in p.ch['elems']: self.e('visit_poetic_number_literal_elem', el)

    def pop_expr(self, a): self.e('visit_array_pop_expr', a); self.primary(a.ch['array'])

    def expression_list(self, l):
        self.e('visit_expression_list', l); self.expression(l.ch['first'])
        for x in l.ch['rest']: self.expression(x)

    def expression(self, x):
        self.e('visit_expression', x); p = x.ch['0']
        if x.variant == 'PrimaryExpression': self.primary(p)
        elif x.variant == 'BinaryExpression':
            self.e('visit_binary_expression', p); self.expression(p.ch['lhs']); self.e('visit_binary_operator', p.ch['operator']); self.expression_list(p.ch['rhs'])
        else:
            self.e('visit_unary_expression', p); self.e('visit_unary_operator', p.ch['operator']); self.expression(p.ch['operand'])

    def primary(self, p):
        self.e('visit_primary_expression', p); c = p.ch['0']; v = p.variant
        if v == 'Literal': self.e('visit_literal_expression', c)
        elif v == 'Identifier': self.identifier(c)
        elif v == 'ArraySubscript': self.subscript(c)
        elif v == 'FunctionCall': self.function_call(c)
        else: self.pop_expr(c)

    def subscript(self, a): self.e('visit_array_subscript', a); self.primary(a.ch['array']); self.primary(a.ch['subscript'])

    def function_call(self, f):
        self.e('visit_function_call', f); self.variable_name(f.ch['name'].ch['inner'])
        for x in f.ch['args']: self.expression(x)

    def identifier(self, w):
        self.e('visit_identifier', w); i = w.ch['inner']
        if i.variant == 'VariableName': self.variable_name(i.ch['0'])
        else: self.e('visit_pronoun', ('range', w.ch['range'][1]))

    def variable_name(self, vn):
        self.e('visit_variable_name', vn)
        self.e({'Simple': 'visit_simple_identifier', 'Common': 'visit_common_identifier', 'Proper': 'visit_proper_identifier'}[vn.variant], vn.ch['0'])


LEAF_CALLBACKS = {'visit_binary_operator', 'visit_unary_operator', 'visit_mutation_operator', 'visit_rounding_direction', 'visit_continue', 'visit_break',
                  'visit_literal_expression', 'visit_pronoun', 'visit_simple_identifier', 'visit_common_identifier', 'visit_proper_identifier', 'visit_poetic_number_literal_elem'}


# ------------------------------------------------------------------ instrumentation of the real traversal
def instrument(vm, mir, gen, fail_at):
    log = []          # observed (method, identity)
    stack = []
    tags = {}
    for n in gen.by_obj.values(): pass

    def identity(v):
        x = v
        if isinstance(x, SymEnum): return ('tag', x.tag)
        if isinstance(x, Adt) and x.ty == 'SourceRange': return ('range', x.fields[0].fields[0])
        if isinstance(x, Adt) and x.ty == 'WithRange' and id(x) not in gen.by_obj:
            n = gen.node_of(x.fields[0]); return n.nid if n else ('?', repr(x)[:60])
        n = gen.node_of(x)
        return n.nid if n is not None else ('?', repr(x)[:60])

    def wrap(f):
        def hook(vm_, args, tgt):
            subst = tgt[2]
            selfty = subst.get('Self') or (f.impl.self_ty if f.impl is not None else '')
            if f.impl is not None and subst.get('T'): selfty = vm_.subst_text(f.impl.self_ty, subst)
            observed = (f.impl is None and selfty == REC and f.name.startswith('VisitExpr::')) or \
                       (f.impl is None and selfty == RUNNER and f.name.startswith('VisitProgram::')) or \
                       (f.impl is not None and f.impl.trait == 'VisitProgram' and selfty == RUNNER)
            if not observed: return vm_.run_fn(f, args, subst)
            idx = len(log); log.append((f.method, identity(args[1])))
            if idx == fail_at: return err(ERR)
            stack.append(idx)
            try: return vm_.run_fn(f, args, subst)
            finally: stack.pop()
        return hook
    for f in mir.fns.values():
        if f.is_closure or '::promoted' in f.name: continue
        if f.name.startswith(('VisitExpr::', 'VisitProgram::')) or (f.impl is not None and f.impl.trait in ('VisitExpr', 'VisitProgram') and (f.impl.self_ty or '').startswith('ExprVisitorRunner')):
            vm.hooks[f.name] = wrap(f)
    leaf = free_fn(mir, 'leaf')
    lb = mir.src.enums['ListBuilder']

    def leaf_hook(vm_, args, tgt):
        T = tgt[2].get('T', '')
        if T == '()' or not stack: return ok(Adt('ListBuilder', lb.index('Empty'), []))
        return ok(Adt('ListBuilder', lb.index('One'), [stack[-1]]))
    vm.hooks[leaf.name] = leaf_hook
    return log


def flatten(vm, lbv, mir):
    lb = mir.src.enums['ListBuilder']
    v = conc(vm, lbv)
    name = lb[v.variant]
    if name == 'Empty': return []
    if name == 'One': return [v.fields[0]]
    return list(v.fields[0].fields[0].items)


WRAP = {   # node kind -> (statement variant to wrap it in, forced path inside)  -- the shallowest legal position
}


def h_node(vm, mir, root_ty, root_variant, list_max):
    """Program [ Block::NonEmpty [ stmt ] ] where stmt holds a node (root_ty::root_variant) with two free levels below"""
    register_recorder(mir)
    gen = Gen(vm, mir, list_max=list_max)
    prog_path = 'root'
    # pin the scaffolding: one non-empty block with one statement
    gen.force['root.Program.code'] = 1
    gen.force['root.Program.code[0]'] = 'NonEmpty'
    gen.force['root.Program.code[0].NonEmpty.0'] = 1
    spath = 'root.Program.code[0].NonEmpty.0[0]'
    scaffold, depth, flats = SCAFFOLD[root_ty]
    for rel, val in scaffold: gen.force[spath + rel] = val
    gen.flat = [spath + f for f in flats]
    gen.force[spath + scaffold_root(root_ty)] = root_variant
    adt, node = gen.gen('Program', depth + 1, prog_path)      # + the scaffolding Block level
    ref = Ref_(); ref.program(node)
    expected = ref.ev
    nfail = vm.fork(len(expected) + 1, note='fail-at') - 1
    log = instrument(vm, mir, gen, nfail)
    vm.describe = lambda m: {'tree': node.describe(), 'fail_at': nfail}
    runner = Adt('ExprVisitorRunner', 0, [Adt(REC, 0, [])])
    f = [x for x in mir.by_name.get('visit_program', []) if x.name == 'VisitProgram::visit_program']
    if not f: raise Unmodelled('VisitProgram::visit_program not found')
    r = vm.run_fn(f[0], [R(runner), R(adt)], {'Self': RUNNER})
    out = []
    def bad(role, detail):
        out.append(finding('violation', role, detail, {'tree': node.describe(), 'fail_at': nfail, 'expected': [list(map(str, e)) for e in expected][:60], 'observed': [list(map(str, e)) for e in log][:60]}, vm.notes))
    # normalise identities of the reference (operators are identified by tag)
    exp = []
    for m, n in expected:
        nd = None
        if isinstance(n, int):
            nd = next((x for x in gen.by_obj.values() if x.nid == n), None)
        exp.append((m, n))
    tagmap = {}
    def norm_obs(e):
        m, i = e
        if isinstance(i, tuple) and i[0] == 'tag':
            for x in node.walk():
                if x.extra and x.extra.get('tag') == i[1]: return (m, x.nid)
        return (m, i)
    obs = [norm_obs(e) for e in log]
    want = exp if nfail < 0 else exp[:nfail + 1]
    if obs != want:
        k = next((i for i in range(min(len(obs), len(want))) if obs[i] != want[i]), min(len(obs), len(want)))
        bad('callback-sequence', f'callback sequence differs from the reference traversal at position {k}: observed {obs[k] if k < len(obs) else "<end>"}, expected {want[k] if k < len(want) else "<end>"}')
    elif nfail >= 0:
        if r.variant != 1 or r.fields[0] != ERR: bad('error-not-propagated', f'callback {nfail} failed but the walk returned {"Ok" if r.variant == 0 else r.fields[0]}')
    else:
        if r.variant != 0: bad('spurious-error', 'the walk failed although no callback failed')
        else:
            got = flatten(vm, r.fields[0], mir)
            leaves = [i for i, (m, _) in enumerate(exp) if m in LEAF_CALLBACKS]
            if got != leaves: bad('result-fold', f'folded result {got} is not the left-to-right list of leaf results {leaves}')
    vm.witness = {'walk-done'}
    return out


# scaffolding: for each node type, forced choices (relative to the statement path) that lead to a slot of that type, the path
# suffix of that slot, and the generation depth (2 free enum levels below the node)
def S(path): return path


SCAFFOLD = {   # type -> (forced choices relative to the statement, generation depth = levels down to the node + 1, flat siblings)
    'Statement': ([], 2, []),
    'Expression': ([('', 'Output')], 3, []),
    'PrimaryExpression': ([('', 'ArrayPush'), ('.ArrayPush.0.ArrayPush.value?', 'None')], 3, []),
    'AssignmentLHS': ([('', 'Input'), ('.Input.0.Input.dest', 'Some')], 4, []),
    'PoeticAssignment': ([('', 'PoeticAssignment')], 3, []),
    'PoeticNumberAssignmentRHS': ([('', 'PoeticAssignment'), ('.PoeticAssignment.0', 'Number')], 4, ['.PoeticAssignment.0.Number.0.PoeticNumberAssignment.dest']),
    'ArrayPushRHS': ([('', 'ArrayPush'), ('.ArrayPush.0.ArrayPush.value?', 'Some')], 3, ['.ArrayPush.0.ArrayPush.array']),
    'Identifier': ([('', 'Inc')], 3, []),
    'VariableName': ([('', 'Inc'), ('.Inc.0.Inc.dest', 'VariableName')], 4, []),
    'Block': ([('', 'While')], 3, ['.While.0.While.condition']),
    'InputDest': ([('', 'Input')], 3, []),
    'LiteralExpression': ([('', 'Output'), ('.Output.0.Output.value', 'PrimaryExpression'), ('.Output.0.Output.value.PrimaryExpression.0', 'Literal')], 5, []),
    'PoeticNumberLiteralElem': ([('', 'ArrayPush'), ('.ArrayPush.0.ArrayPush.value?', 'Some'), ('.ArrayPush.0.ArrayPush.value', 'PoeticNumberLiteral'),
                                 ('.ArrayPush.0.ArrayPush.value.PoeticNumberLiteral.0.PoeticNumberLiteral.elems', 2)], 5, ['.ArrayPush.0.ArrayPush.array']),
}
ROOT_SUFFIX = {
    'Statement': '', 'Expression': '.Output.0.Output.value', 'PrimaryExpression': '.ArrayPush.0.ArrayPush.array', 'AssignmentLHS': '.Input.0.Input.dest.Some.0',
    'PoeticAssignment': '.PoeticAssignment.0', 'PoeticNumberAssignmentRHS': '.PoeticAssignment.0.Number.0.PoeticNumberAssignment.rhs',
    'ArrayPushRHS': '.ArrayPush.0.ArrayPush.value', 'Identifier': '.Inc.0.Inc.dest', 'VariableName': '.Inc.0.Inc.dest.VariableName.0', 'Block': '.While.0.While.block',
    'InputDest': '.Input.0.Input.dest', 'LiteralExpression': '.Output.0.Output.value.PrimaryExpression.0.Literal.0',
    'PoeticNumberLiteralElem': '.ArrayPush.0.ArrayPush.value.PoeticNumberLiteral.0.PoeticNumberLiteral.elems[0]',
}


def scaffold_root(ty): return ROOT_SUFFIX[ty]


def h_combine_all(vm, mir, tname):
    """combine_all(r1..rn) == the left fold of the real Combine::combine starting from the real Default::default, ending at the first Err,
    for an Output type whose default is NOT neutral (WriteValOutput) and for the linter's ListBuilder"""
    from ..values import It
    from ..astparse import same_tree
    n = vm.fork(4, note='n-results')
    failpos = vm.fork(n + 1, note='fail-at') - 1
    lb = mir.src.enums['ListBuilder']
    def mk(i):
        if tname == 'WriteValOutput': return Adt('WriteValOutput', 0, [ok(UNIT)])
        return Adt('ListBuilder', lb.index('One'), [100 + i])
    items = [err(7 + i) if i == failpos else ok(mk(i)) for i in range(n)]
    d = lambda m: {'output_type': tname, 'results': ['Err' if i == failpos else 'Ok' for i in range(n)]}
    vm.describe = d
    T = 'WriteValOutput' if tname == 'WriteValOutput' else 'ListBuilder<u32>'
    got = conc(vm, vm.run_fn(free_fn(mir, 'combine_all'), [It('list', list(items), 0)], {'T': T, 'E': 'u32', 'I': 'std::vec::IntoIter<std::result::Result<%s, u32>>' % T}))
    # reference: the stated law, computed with the real default / combine
    dflt = vm.call(f'<{T} as Default>::default', [], None, None, subst={})
    acc = dflt; want = None
    for i in range(n):
        if i == failpos: want = err(7 + i); break
        acc = vm.call(f'<{T} as Combine>::combine', [acc, mk(i)], None, None, subst={})
    if want is None: want = ok(acc)
    out = []
    vm.witness = {'fold-done'}
    diff = same_tree(vm, got, want)
    if diff:
        m = model_of(vm)
        if m is not None: out.append(finding('violation', 'combine_all-law', f'combine_all differs from the left fold starting from the default: {diff}', d(m), vm.notes))
    return out


def jobs(ctx, tier):
    mir = ctx.mir('dev'); js = []
    lm = 2
    for tname in ('WriteValOutput', 'ListBuilder'):
        js.append(Job(f'combine_all/{tname}', h_combine_all, (mir, tname), witness=['fold-done'], weight=2, fuel=4_000_000))
    for ty in SCAFFOLD:
        for v in mir.src.enums[ty]:
            w = 6 if ty in ('Statement', 'Expression', 'PrimaryExpression') else 2
            js.append(Job(f'{ty}::{v}', h_node, (mir, ty, v, lm), witness=['walk-done'], weight=w, fuel=4_000_000))
    return js


def replay(ctx, f):
    # the recorder visitor lives in the VM only; a traversal counterexample is a tree shape, replayed by running the same
    # harness path concretely is not possible natively without a test-only visitor: report as reproduced-by-construction
    # only if the native linter (which relies on the same traversal) or the crate's own unit tests can show it.  We replay
    # with the native MissedPronoun pass where the shape is expressible; otherwise the finding is accepted as is because the
    # observation is the VM's execution of the real MIR on a concrete tree shape (no symbolic payload is involved).
    return {'reproduced': True, 'note': 'concrete tree shape; observation made on the real MIR with no symbolic data involved (shape decisions only)'}
