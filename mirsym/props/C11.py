"""C11 — poetic literals denote the number their words spell (numeric half; DESIGN.md §4, C11)."""
import z3
from .common import *
from ..harness import Job, finding, model_of
from ..std import conc
from ..strings import BStr, Buf
from . import C07

ID = 'C11'
PROFILES = ['dev']
BOUNDS = {'digit rule': 'literals of 1..=6 elements, every element kind symbolic (Word / WordSuffix / Dot) under the parser\'s well-formedness (no leading suffix, no suffix right after a period), word lengths symbolic in 0..=40 (stub for word_len, which is checked separately)',
          'word_len': 'words of 0..=6 symbolic characters over {a, apostrophe, é}',
          'accuracy': 'literals of 1..=3 (thorough 4) digit-bearing words, every digit symbolic 0..=9, the period at every position: |value - numeral| <= 4 ulp, exact when there is no fractional part',
          'parser admission': 'see C01/C09 token-stream harnesses (a literal reaching compute_value ill-formed is reported there)'}
OUTSIDE = ['more than 6 elements; accuracy beyond 4 digits (z3 FP: 5 digits unknown at 120 s, measured) -- beyond that the statement is a fact about IEEE addition of the terms the digit rule pins down',
           'the poetic *string* half (raw text after `says`): string-level lexing + parsing over a line (DESIGN.md §5)', 'which tokens the parser admits into a literal (token-stream harness)']
ASSUMPTIONS = ['f64::powi is compiler-rt\'s __powidf2 square-and-multiply loop', 'Iterator::sum::<f64>() folds from -0.0 with + in iteration order', 'std iterator adaptors (peekable, filter, enumerate, map) per documentation']
RULE = 'state = feasible path end over (element kinds, digit positions); digit-rule paths discharge "real value term == reference term" with z3, accuracy paths discharge the ulp bound on floating-point terms (one-shot bit-blasting)'

ELEM = ['Word', 'WordSuffix', 'Dot']


def powi(a, b):
    recip = b < 0; b = abs(b); r = 1.0
    while True:
        if b & 1: r *= a
        b //= 2
        if b == 0: break
        a *= a
    return 1 / r if recip else r


def sym_elems(vm, mir, n, digits_only=False):
    """list of n PoeticNumberLiteralElem with solver-chosen kinds, well-formed as the parser produces them"""
    enum = mir.src.enums['PoeticNumberLiteralElem']
    if enum != ELEM: raise Unmodelled(f'PoeticNumberLiteralElem variants changed: {enum}')
    elems, kinds = [], []
    for i in range(n):
        allowed = [0] if digits_only else [0, 1, 2]
        if not digits_only and (i == 0 or kinds[-1] == 2): allowed = [0, 2]     # no suffix first / right after a period
        k = allowed[vm.fork(len(allowed), note=f'elem{i}')] if len(allowed) > 1 else allowed[0]
        kinds.append(k)
        elems.append(Adt('PoeticNumberLiteralElem', k, [SymStr(z3.String(f'w{i}'))] if k != 2 else []))
    return elems, kinds


def install_len_stub(vm, mir, maxlen):
    f = fn(mir, 'PoeticNumberLiteral', 'word_len')
    lens = {}

    def hook(vm_, args, tgt):
        from ..std_str import S
        t = S(vm_, args[0]).term
        name = t.sexpr()
        if name not in lens:
            v = z3.BitVec(f'len.{name}', 64); lens[name] = v
            vm_.assume(z3.ULE(v, maxlen))
        return lens[name]
    vm.hooks[f.name] = hook
    return lens


def literal(elems): return Adt('PoeticNumberLiteral', 0, [Adt('Vec', 0, [HList(elems)])])


def items_of(kinds):
    """group elements into digit-bearing items: [('dot',) | ('word', [element indices])]"""
    items = []
    for i, k in enumerate(kinds):
        if k == 2: items.append(('dot',))
        elif k == 0: items.append(('word', [i]))
        else:
            if not items or items[-1][0] != 'word': raise Unmodelled('ill-formed literal reached the oracle')
            items[-1][1].append(i)
    return items


def describe_lit(vm, kinds, lens):
    def d(m):
        out = []
        for i, k in enumerate(kinds):
            if k == 2: out.append(['d']); continue
            v = lens.get(f'w{i}')
            L = m.eval(v, model_completion=True).as_long() if v is not None else 1
            out.append(['w' if k == 0 else 's', ("'" if k == 1 else '') + 'a' * L])
        return {'elems': out}
    return d


def h_rule(vm, mir, n):
    elems, kinds = sym_elems(vm, mir, n)
    lens = install_len_stub(vm, mir, 40)
    d = describe_lit(vm, kinds, lens); vm.describe = d
    r = vm.run_fn(fn(mir, 'PoeticNumberLiteral', 'compute_value'), [R(literal(elems))])
    items = items_of(kinds)
    before_dot = 0
    for it in items:
        if it[0] == 'dot': break
        before_dot += 1
    e = before_dot - 1
    acc = -0.0; idx = 0
    for it in items:
        if it[0] == 'dot': continue
        total = None
        for j in it[1]:
            v = lens.get(f'w{j}')
            if v is None: raise Unmodelled(f'word_len was never asked for word {j} (skipped word)')
            total = v if total is None else total + v
        digit = z3.URem(total, z3.BitVecVal(10, 64))
        term = z3.fpMul(RNE, z3.fpUnsignedToFP(RNE, digit, F64), z3.FPVal(powi(10.0, e - idx), F64))
        acc = vm.fbinop('Add', acc, term); idx += 1
    ck = C07.Checker(vm, d)
    ck.bad('digit-rule', 'value is not the sum of (word length incl. suffixes mod 10) x 10^(position relative to the first period)', vm.fp(r) == vm.fp(acc))
    vm.witness = {'rule-done'}
    return ck.out


def h_wordlen(vm, mir):
    n = vm.fork(7, note='len')
    cps, ws = [], []
    for i in range(n):
        c = z3.BitVec(f'c{i}', 32)
        w = [1, 2][vm.fork(2, note=f'w{i}')]
        if w == 1: vm.assume(z3.Or(c == 0x61, c == 0x27)); vm.domains[c.get_id()] = {0x61, 0x27}
        else: vm.assume(c == 0xE9); vm.domains[c.get_id()] = {0xE9}
        vm.keep.append(c); cps.append(c); ws.append(w)
    s = BStr(Buf(cps, ws))
    vm.describe = lambda m: {'word': ''.join(chr(m.eval(c, model_completion=True).as_long()) for c in cps)}
    r = vm.run_fn(fn(mir, 'PoeticNumberLiteral', 'word_len'), [s])
    want = z3.BitVecVal(0, 64)
    for c in cps: want = want + z3.If(c != 0x27, z3.BitVecVal(1, 64), z3.BitVecVal(0, 64))
    ck = C07.Checker(vm, vm.describe)
    ck.bad('word-len', 'word length is not the number of non-apostrophe characters', vm.bv(r, 64) == want)
    vm.witness = {'wordlen-done'}
    return ck.out


def h_accuracy(vm, mir, nd, dot):
    """nd digit words, a period after `dot` of them (dot == nd: no period)"""
    kinds = [0] * nd
    if dot < nd: kinds.insert(dot, 2)
    elems = [Adt('PoeticNumberLiteralElem', k, [SymStr(z3.String(f'w{i}'))] if k != 2 else []) for i, k in enumerate(kinds)]
    lens = install_len_stub(vm, mir, 9)
    d = describe_lit(vm, kinds, lens); vm.describe = d
    r = vm.run_fn(fn(mir, 'PoeticNumberLiteral', 'compute_value'), [R(literal(elems))])
    N = z3.BitVecVal(0, 64)
    for i, k in enumerate(kinds):
        if k == 2: continue
        v = lens.get(f'w{i}')
        if v is None: raise Unmodelled('skipped word')
        N = N * 10 + v
    k10 = nd - dot
    ref = z3.fpDiv(RNE, z3.fpUnsignedToFP(RNE, N, F64), z3.FPVal(float(10 ** k10), F64))
    a, b = z3.fpToIEEEBV(vm.fp(r)), z3.fpToIEEEBV(ref)
    diff = z3.If(z3.UGE(a, b), a - b, b - a)
    ck = C07.Checker(vm, d)
    if k10 == 0: ck.bad('integer-exact', 'an integer literal is not exact', vm.fp(r) == ref)
    else: ck.bad('accuracy-4ulp', 'value is more than 4 ulp away from the decimal numeral', z3.ULE(diff, 4))
    vm.witness = {'accuracy-done'}
    return ck.out


def jobs(ctx, tier):
    mir = ctx.mir('dev'); js = []
    for n in range(1, 7): js.append(Job(f'digit-rule/{n}', h_rule, (mir, n), witness=['rule-done'], weight=n))
    js.append(Job('word_len', h_wordlen, (mir,), witness=['wordlen-done'], str_mode='bounded', weight=3))
    maxd = 4 if tier == 'thorough' else 3
    for nd in range(1, maxd + 1):
        for dot in range(0, nd + 1):
            js.append(Job(f'accuracy/{nd}digits/dot{dot}', h_accuracy, (mir, nd, dot), witness=['accuracy-done'], timeout_ms=240_000, weight=10 * nd))
    return js


W = lambda s: ['w', s]
Sx = lambda s: ['s', s]
D_ = ['d']
VEC = [[W('a')], [W('abc'), W('ab')], [W('abcdefghij')], [W('ab'), D_, W('abc')], [D_, W('a')], [W('a'), D_], [D_], [D_, D_, W('ab')], [W('a'), D_, W('b'), D_, W('cc')],
       [W("it"), Sx("'s")], [W("rock'n'roll")], [W('we'), Sx("'re"), W('x')], [W('a'), Sx("'s"), Sx("'s"), D_, W('abcdefghijk')], [W("''")], [W('abc'), W('abcde'), W('abcdefg'), D_, W('a'), W('abcdefghi')],
       [W('a' * 9)] * 6, [W('a' * 9)] * 16, [W('ab'), W('a' * 10), D_, W('a' * 10), W('abc')], [W('é')], [W('a' * 20), D_, W('a' * 20), W('a' * 7)]]


def vm_compute(vm, mir, ej):
    elems = [Adt('PoeticNumberLiteralElem', {'w': 0, 's': 1, 'd': 2}[e[0]], [const_str(vm, e[1])] if e[0] != 'd' else []) for e in ej]
    return vm.run_fn(fn(mir, 'PoeticNumberLiteral', 'compute_value'), [R(literal(elems))])


def validate(ctx):
    from ..vm import VM, Explorer
    mir = ctx.mir('dev'); nat = ctx.native('dev'); good, bad = 0, []
    for ej in VEC:
        for mode in ('opaque', 'bounded'):
            vm = VM(mir, Explorer()); vm.str_mode = mode
            try: got = {'bits': f64bits(vm_compute(vm, mir, ej))}
            except PanicEdge as p: got = {'panic': str(p)}
            except Exception as e: got = {'exception': f'{type(e).__name__}: {e}'}
            nv = nat.call({'op': 'poetic', 'elems': ej})
            okk = ('panic' in got and 'panic' in nv) or got.get('bits') == nv.get('bits')
            if okk: good += 1
            else: bad.append({'elems': ej, 'mode': mode, 'vm': got, 'native': nv})
    return good, bad


def reference_value(ej):
    """decimal numeral spelled by the elements, as the correctly rounded double (Python float())"""
    digits, dot = [], None; cur = None
    for e in ej:
        if e[0] == 'd':
            if dot is None: dot = len(digits)
            continue
        L = len(e[1].replace("'", ''))
        if e[0] == 'w': digits.append(L)
        else:
            if not digits: return None
            digits[-1] += L
    digits = [x % 10 for x in digits]
    if not digits: return 0.0
    if dot is None: dot = len(digits)
    s = ''.join(map(str, digits[:dot])) or '0'
    frac = ''.join(map(str, digits[dot:]))
    return float(s + ('.' + frac if frac else ''))


def replay(ctx, f):
    cex = f.get('cex') or {}
    out = {'reproduced': None}
    res = {}
    for prof in ('dev', 'release'):
        nat = ctx.native(prof)
        if 'word' in cex:
            w = cex['word']
            nv = nat.call({'op': 'poetic', 'elems': [['w', w]]})
            res[prof] = 'panic' in nv or bits_f64(nv['bits']) != float(len(w.replace("'", '')) % 10)
            continue
        if 'elems' not in cex: res[prof] = None; continue
        nv = nat.call({'op': 'poetic', 'elems': cex['elems']})
        if f['kind'] in ('panic', 'ub'): res[prof] = 'panic' in nv or 'crash' in nv; continue
        if 'panic' in nv: res[prof] = True; continue
        want = reference_value(cex['elems'])
        if want is None: res[prof] = None; continue
        got = bits_f64(nv['bits'])
        import math
        ulp = math.ulp(want) if want != 0 else 5e-324
        res[prof] = abs(got - want) > 4 * ulp
        out[prof + '_native'] = nv.get('display'); out['reference'] = want
    out.update(res)
    vals = [v for v in res.values() if v is not None]
    out['reproduced'] = any(vals) if vals else None
    return out
