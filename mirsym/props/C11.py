"""C11 — poetic literals denote the number their words spell (numeric half; DESIGN.md §4, C11)."""
import z3
from .common import *
from ..harness import Job, finding, model_of
from ..std import conc
from ..strings import BStr, Buf
from . import C07

ID = 'C11'
PROFILES = ['dev']
BOUNDS = {'text level': 'through the real lexer + parser + interpreter: poetic number texts of <= 2 (thorough 3) elements out of 26 spellings (quick: all 1-element and every 4th 2-element text; thorough: all 2-element and every 8th 3-element text) (word lengths 1, 2, 3, 9, 10, 11, 20; apostrophes inside / leading / trailing; \'s / \'re suffixes; hyphens; keywords as words; capitals; non-ASCII letters), each optionally followed by a period or a comma, plus 192 texts with a digit run / `formula-1` / the list keywords `and` / `or` as the second chunk, in `X is ...` and `Rock .. like ...`: the printed number equals the numeral the words spell (exact for integers, <= 4 ulp otherwise); long literals of 3..=24 (thorough 40) words with 4 period placements; `X says <text>` with 0..=2 (thorough 3) symbolic characters (any of ASCII ∪ R except line feed, quote, open parenthesis): the literal is exactly the text; 27 right-hand sides starting with a literal word / negative number are ordinary expressions',
          'digit rule': 'literals of 1..=6 elements, every element kind symbolic (Word / WordSuffix / Dot) under the parser\'s well-formedness (no leading suffix, no suffix right after a period), word lengths symbolic in 0..=40 (stub for word_len, which is checked separately)',
          'word_len': 'words of 0..=6 symbolic characters over {a, apostrophe, é}',
          'accuracy': 'literals of 1..=3 (thorough 4) digit-bearing words, every digit symbolic 0..=9, the period at every position: |value - numeral| <= 4 ulp, exact when there is no fractional part',
          'parser admission': 'see C01/C09 token-stream harnesses (a literal reaching compute_value ill-formed is reported there)'}
OUTSIDE = ['more than 6 elements; accuracy beyond 4 digits (z3 FP: 5 digits unknown at 120 s, measured) -- beyond that the statement is a fact about IEEE addition of the terms the digit rule pins down',
           'the poetic *string* half (raw text after `says`): string-level lexing + parsing over a line (DESIGN.md §5)', 'which tokens the parser admits into a literal (token-stream harness)']
ASSUMPTIONS = ['f64::powi is compiler-rt\'s __powidf2 square-and-multiply loop', 'Iterator::sum::<f64>() folds from -0.0 with + in iteration order', 'std iterator adaptors (peekable, filter, enumerate, map) per documentation']
RULE = 'state = feasible path end over (element kinds, digit positions); digit-rule paths discharge "real value term == reference term" with z3, accuracy paths discharge the ulp bound on floating-point terms (one-shot bit-blasting)'

ELEM = ['Word', 'WordSuffix', 'Dot']


def powi(a, b):
    recip = b < 0; b = abs(b); r = 1.0
    while True:
        if b & 1: r *= a
        b //= 2
        if b == 0: break
        a *= a
    return 1 / r if recip else r


def sym_elems(vm, mir, n, digits_only=False):
    """list of n PoeticNumberLiteralElem with solver-chosen kinds, well-formed as the parser produces them"""
    enum = mir.src.enums['PoeticNumberLiteralElem']
    if enum != ELEM: raise Unmodelled(f'PoeticNumberLiteralElem variants changed: {enum}')
    elems, kinds = [], []
    for i in range(n):
        allowed = [0] if digits_only else [0, 1, 2]
        if not digits_only and (i == 0 or kinds[-1] == 2): allowed = [0, 2]     # no suffix first / right after a period
        k = allowed[vm.fork(len(allowed), note=f'elem{i}')] if len(allowed) > 1 else allowed[0]
        kinds.append(k)
        elems.append(Adt('PoeticNumberLiteralElem', k, [SymStr(z3.String(f'w{i}'))] if k != 2 else []))
    return elems, kinds


def install_len_stub(vm, mir, maxlen):
    f = fn(mir, 'PoeticNumberLiteral', 'word_len')
    lens = {}

    def hook(vm_, args, tgt):
        from ..std_str import S
        t = S(vm_, args[0]).term
        name = t.sexpr()
        if name not in lens:
            v = z3.BitVec(f'len.{name}', 64); lens[name] = v
            vm_.assume(z3.ULE(v, maxlen))
        return lens[name]
    vm.hooks[f.name] = hook
    return lens


def literal(elems): return Adt('PoeticNumberLiteral', 0, [Adt('Vec', 0, [HList(elems)])])


def items_of(kinds):
    """group elements into digit-bearing items: [('dot',) | ('word', [element indices])]"""
    items = []
    for i, k in enumerate(kinds):
        if k == 2: items.append(('dot',))
        elif k == 0: items.append(('word', [i]))
        else:
            if not items or items[-1][0] != 'word': raise Unmodelled('ill-formed literal reached the oracle')
            items[-1][1].append(i)
    return items


def describe_lit(vm, kinds, lens):
    def d(m):
        out = []
        for i, k in enumerate(kinds):
            if k == 2: out.append(['d']); continue
            v = lens.get(f'w{i}')
            L = m.eval(v, model_completion=True).as_long() if v is not None else 1
            out.append(['w' if k == 0 else 's', ("'" if k == 1 else '') + 'a' * L])
        return {'elems': out}
    return d


def h_rule(vm, mir, n):
    elems, kinds = sym_elems(vm, mir, n)
    lens = install_len_stub(vm, mir, 40)
    d = describe_lit(vm, kinds, lens); vm.describe = d
    r = vm.run_fn(fn(mir, 'PoeticNumberLiteral', 'compute_value'), [R(literal(elems))])
    items = items_of(kinds)
    before_dot = 0
    for it in items:
        if it[0] == 'dot': break
        before_dot += 1
    e = before_dot - 1
    acc = -0.0; idx = 0
    N = z3.BitVecVal(0, 64); ndig = 0
    for it in items:
        if it[0] == 'dot': continue
        total = None
        for j in it[1]:
            v = lens.get(f'w{j}')
            if v is None: raise Unmodelled(f'word_len was never asked for word {j} (skipped word)')
            total = v if total is None else total + v
        digit = z3.URem(total, z3.BitVecVal(10, 64))
        term = z3.fpMul(RNE, z3.fpUnsignedToFP(RNE, digit, F64), z3.FPVal(powi(10.0, e - idx), F64))
        acc = vm.fbinop('Add', acc, term); idx += 1
        N = N * 10 + digit; ndig += 1
    ck = C07.Checker(vm, d)
    vm.witness = {'rule-done'}
    # (1) cheap and sufficient: bit-identical to the left-to-right sum of digit x 10^position (itself within the tolerance: accuracy jobs)
    v1 = vm.must_hold(vm.fp(r) == vm.fp(acc), 'digit-rule')
    if v1 is None: return ck.out
    # (2) not that sum (another summation order, a scaled integer, ...): judge by the statement itself -- exact for integers, <= 4 ulp of
    #     the decimal numeral otherwise.  The model of (1) is tried first; only if it is within the tolerance is the FP query needed.
    k10 = max(ndig - before_dot, 0)
    ref = z3.fpDiv(RNE, z3.fpUnsignedToFP(RNE, N, F64), z3.FPVal(float(10 ** k10), F64))
    a, b = z3.fpToIEEEBV(vm.fp(r)), z3.fpToIEEEBV(ref)
    diff = z3.If(z3.UGE(a, b), a - b, b - a)
    tol = (vm.fp(r) == ref) if k10 == 0 else z3.ULE(diff, 4)
    what = 'value is not the numeral spelt by (word length incl. suffixes mod 10) per digit, first period = decimal point (exact for integers, <= 4 ulp otherwise)'
    try: within = z3.is_true(v1.model.eval(tol, model_completion=True))
    except z3.Z3Exception: within = True
    if not within:
        ck.out.append(finding('violation', 'digit-rule', what, d(v1.model), vm.notes)); return ck.out
    ck.bad('digit-rule', what, tol)
    return ck.out


def h_wordlen(vm, mir):
    n = vm.fork(7, note='len')
    cps, ws = [], []
    for i in range(n):
        c = z3.BitVec(f'c{i}', 32)
        w = [1, 2][vm.fork(2, note=f'w{i}')]
        if w == 1: vm.assume(z3.Or(c == 0x61, c == 0x27)); vm.domains[c.get_id()] = {0x61, 0x27}
        else: vm.assume(c == 0xE9); vm.domains[c.get_id()] = {0xE9}
        vm.keep.append(c); cps.append(c); ws.append(w)
    s = BStr(Buf(cps, ws))
    vm.describe = lambda m: {'word': ''.join(chr(m.eval(c, model_completion=True).as_long()) for c in cps)}
    r = vm.run_fn(fn(mir, 'PoeticNumberLiteral', 'word_len'), [s])
    want = z3.BitVecVal(0, 64)
    for c in cps: want = want + z3.If(c != 0x27, z3.BitVecVal(1, 64), z3.BitVecVal(0, 64))
    ck = C07.Checker(vm, vm.describe)
    ck.bad('word-len', 'word length is not the number of non-apostrophe characters', vm.bv(r, 64) == want)
    vm.witness = {'wordlen-done'}
    return ck.out


def h_accuracy(vm, mir, nd, dot):
    """nd digit words, a period after `dot` of them (dot == nd: no period)"""
    kinds = [0] * nd
    if dot < nd: kinds.insert(dot, 2)
    elems = [Adt('PoeticNumberLiteralElem', k, [SymStr(z3.String(f'w{i}'))] if k != 2 else []) for i, k in enumerate(kinds)]
    lens = install_len_stub(vm, mir, 9)
    d = describe_lit(vm, kinds, lens); vm.describe = d
    r = vm.run_fn(fn(mir, 'PoeticNumberLiteral', 'compute_value'), [R(literal(elems))])
    N = z3.BitVecVal(0, 64)
    for i, k in enumerate(kinds):
        if k == 2: continue
        v = lens.get(f'w{i}')
        if v is None: raise Unmodelled('skipped word')
        N = N * 10 + v
    k10 = nd - dot
    ref = z3.fpDiv(RNE, z3.fpUnsignedToFP(RNE, N, F64), z3.FPVal(float(10 ** k10), F64))
    a, b = z3.fpToIEEEBV(vm.fp(r)), z3.fpToIEEEBV(ref)
    diff = z3.If(z3.UGE(a, b), a - b, b - a)
    ck = C07.Checker(vm, d)
    if k10 == 0: ck.bad('integer-exact', 'an integer literal is not exact', vm.fp(r) == ref)
    else: ck.bad('accuracy-4ulp', 'value is more than 4 ulp away from the decimal numeral', z3.ULE(diff, 4))
    vm.witness = {'accuracy-done'}
    return ck.out


# ------------------------------------------------------------------ text level: real lexer + parser + interpreter
WORDS = {1: 'a', 2: 'it', 3: 'ice', 9: 'rockstars', 10: 'abcdefghij', 11: 'abcdefghijk', 20: 'abcdefghijabcdefghij'}


def poetic_elements():
    """[(text, letters counted)] element spellings: plain words of several lengths (incl. multiples of 10), apostrophes inside / leading /
    trailing (not counted), 's / 're suffixes (counted with their word), hyphens (count as letters), keywords as words, capitals, non-ASCII letters"""
    el = [(w, n) for n, w in WORDS.items()]
    el += [("don't", 4), ("rock'n'roll", 9), ("'cause", 5), ("lovin'", 5), ("rockstar's", 9), ("we're", 4), ("it's", 3), ("ROCKSTAR'S", 9), ("WE'RE", 4), ("We'Re", 4), ("mommy's-boy", 10), ("MOMMY'S-BOY", 10), ('ice-cold', 8), ('all-consuming', 13), ('a-b', 3), ('know-it-all', 11), ('rock-and-roll', 13), ('grown-up', 8), ('up-and-down', 11),
           ('nothing', 7), ('with', 4), ('is', 2), ('taking', 6), ('Tommy', 5), ('ROCK', 4), ('éé', 2), ('mütley', 6), ('Ünder', 5)]
    return el


def poetic_texts(maxlen):
    """[(text, decimal numeral as a string)]: sequences of <= maxlen elements, each optionally followed by a period or a comma"""
    import itertools
    el = poetic_elements(); out = []
    first_ok = [e for e in el if e[0] not in ('nothing', 'with', 'is', 'taking')]
    punct = ['', '.', ',']
    for n in range(1, maxlen + 1):
        pools = [first_ok if i == 0 else el for i in range(n)]
        # to keep the product small, elements beyond the first two are drawn from a short list
        pools = [p if i < 2 else [e for e in p if e[0] in ('a', 'abcdefghij', "rockstar's", 'ice-cold', 'nothing', 'éé')] for i, p in enumerate(pools)]
        for combo in itertools.product(*pools):
            for ps in itertools.product(punct, repeat=n):
                words = [c[0] + p for c, p in zip(combo, ps)]
                digits, seen_dot = '', False
                for c, p in zip(combo, ps):
                    digits += str(c[1] % 10)
                    if p == '.' and not seen_dot: digits += '.'; seen_dot = True
                out.append((' '.join(words), digits))
    return out


SPECIAL = [('57', 2), ('formula-1', 9), ('and', 3), ('AND', 3), ('or', 2), ('9', 1)]


def special_texts():
    """[(text, numeral)]: chunks that are not plain words in non-first position -- digit runs (also after a hyphen) and the list
    keywords `and` / `or`, which are separators elsewhere -- after a comma, a period or nothing, optionally followed by a further word"""
    import itertools
    out = []
    for first, (sp, n), p1, p2, third in itertools.product([('a', 1), ("rockstar's", 9)], SPECIAL, ['', '.', ','], ['', '.', ','], ['', 'ice']):
        if p2 == '.' and sp[-1].isdigit(): continue          # `57.` is one number token (a numeral with a trailing point): whether it is a word is not settled by the statement
        words = [first[0] + p1, sp + p2] + ([third] if third else [])
        digits, seen = '', False
        for (w, k), p in zip([first, (sp, n)] + ([(third, 3)] if third else []), [p1, p2, '']):
            digits += str(k % 10)
            if p == '.' and not seen: digits += '.'; seen = True
        out.append((' '.join(words), digits))
    # a worded minus in front of a digit run is two chunks of a poetic literal (only `-5` is a negative number)
    out += [('without 5', '71'), ('minus 10', '52'), ('without 1 friend', '716'), ('minus 5 ice', '513'), ('Without 5', '71'), ('MINUS 10', '52')]
    return out


def long_texts(nmax):
    """literals of 3..=nmax words with non-zero digits (word i has 1 + (3 i mod 9) letters), without a period and with the period after the
    first / the middle / all but the last word: every power of ten up to 10^(nmax-1) and down to 10^-(nmax-1) is exercised"""
    out = []
    for n in range(3, nmax + 1):
        lens = [1 + (3 * i + n) % 9 for i in range(n)]
        words = ['abcdefghi'[:k] for k in lens]
        for d in sorted({None, 1, n // 2, n - 1} - {0, n}, key=lambda x: -1 if x is None else x):
            ws = list(words); digits = ''.join(str(k) for k in lens)
            if d is not None: ws[d - 1] += '.'; digits = digits[:d] + '.' + digits[d:]
            out.append((' '.join(ws), digits))
    return out


def h_poetic_text(vm, mir, cases, form):
    """`X is <words>` / `Rock A like <words>` through the real parser and interpreter: the printed number is the numeral the words spell"""
    from ..progrun import parse_in_vm, exec_in_vm
    from ..std import conc
    text, numeral = cases[vm.fork(len(cases), note='literal')] if len(cases) > 1 else cases[0]
    src = (f'X is {text}\nsay X\n' if form == 'is' else f'Rock the list like {text}\nsay the list at 0\n')
    d = lambda m: {'program': src, 'numeral': numeral}
    vm.describe = d
    out = []
    def bad(role, detail):
        m = model_of(vm)
        if m is not None: out.append(finding('violation', role, detail, d(m), vm.notes))
    vm.witness = {'text-done'}
    r = conc(vm, parse_in_vm(vm, mir, src))
    if r.variant == 1: bad('poetic-text:rejected', 'a well-formed poetic literal is rejected'); return out
    res, o, _ = exec_in_vm(vm, mir, r.fields[0])
    if conc(vm, res).variant == 1 or len(o['writes']) != 1: bad('poetic-text:run', 'the program did not print one line'); return out
    w = o['writes'][0]; got = (w.concrete() if isinstance(w, BStr) else zstr(z3.simplify(to_sym(w)))).strip()
    want = float(numeral)
    try: g = float(got)
    except ValueError: bad('poetic-text:not-a-number', f'printed {got!r}'); return out
    exact = '.' not in numeral.rstrip('.') and want < 2 ** 53
    import math
    tol = 0 if exact else 4 * math.ulp(want)
    if abs(g - want) > tol: bad('poetic-text:value', f'{text!r} printed {got}, the words spell {numeral}')
    return out


def h_says(vm, mir, n, pinned=()):
    """`X says <n symbolic characters>`: the literal is exactly those characters (then the next line is a statement of its own)"""
    from .lexcommon import sym_text, text_cex
    from ..progrun import parse_in_vm
    from ..std import conc
    from .C02 import Sig
    mid = sym_text(vm, n, name='p', pinned=pinned)
    for c in mid.buf.cps:
        if isinstance(c, int):
            if c in (10, 34, 40): raise Infeasible()             # line feed ends the literal; an open quote / parenthesis swallows lines (recorded finding, outside)
        else: vm.assume(z3.And(c != 10, c != 34, c != 40))
    pre, post = 'X says ', '\nsay 1\n'
    cps = [ord(c) for c in pre] + mid.buf.cps + [ord(c) for c in post]
    text = BStr(Buf(cps, [1] * len(pre) + mid.buf.widths + [1] * len(post)))
    d = text_cex(text); vm.describe = d
    out = []
    def bad(role, detail, prop=None):
        if prop is None: m = model_of(vm)
        else:
            v = vm.must_hold(prop, role); m = v.model if v is not None else None
        if m is not None: out.append(finding('violation', role, detail, d(m), vm.notes))
    vm.witness = {'says-done'}
    r = conc(vm, parse_in_vm(vm, mir, text))
    if r.variant == 1: bad('says:rejected', 'a poetic string assignment is rejected'); return out
    sg = Sig(vm, mir); st = sg.statements(r.fields[0])
    if [k for k, _ in st] != ['PoeticAssignment', 'Output']: bad('says:statements', f'parsed as {[k for k, _ in st]}'); return out
    pa = sg.d(st[0][1])
    if sg.var(pa) != 'String': bad('says:kind', 'not a poetic string assignment'); return out
    rhs = sg.f(sg.d(pa.fields[0]), 'rhs')
    e = str_eq(vm, rhs, mid)
    if e is False: bad('says:text', 'the literal is not the exact text after `says `')
    elif e is not True: bad('says:text', 'the literal is not the exact text after `says `', e)
    return out


EXPR_RHS = [('nothing', 'null'), ('nowhere', 'null'), ('nobody', 'null'), ('gone', 'null'), ('null', 'null'), ('true', 'true'), ('right', 'true'), ('yes', 'true'), ('ok', 'true'),
            ('false', 'false'), ('wrong', 'false'), ('no', 'false'), ('lies', 'false'), ('mysterious', 'mysterious'), ('empty', ''), ('silent', ''), ('silence', ''),
            ('-5', '-5'), ('-0.5', '-0.5'), ('- 5', '-5'), ('5', '5'), ('"a rock"', 'a rock'), ('nothing plus 2', '2'), ('true and false', 'false'), ('-5 minus 1', '-6'), ('NOTHING', 'null'), ('Right', 'true')]


def h_expr_rhs(vm, mir):
    """a right-hand side that starts with a literal word or a negative number is an ordinary expression"""
    from ..progrun import parse_in_vm, exec_in_vm
    from ..std import conc
    rhs, want = EXPR_RHS[vm.fork(len(EXPR_RHS), note='rhs')]
    verb = ['is', 'are', "'s"][vm.fork(3, note='verb')]
    src = (f"X's {rhs}\nsay X\n" if verb == "'s" else f'X {verb} {rhs}\nsay X\n')
    d = lambda m: {'program': src, 'expected_output': want}
    vm.describe = d
    out = []
    def bad(role, detail):
        m = model_of(vm)
        if m is not None: out.append(finding('violation', role, detail, d(m), vm.notes))
    vm.witness = {'rhs-done'}
    r = conc(vm, parse_in_vm(vm, mir, src))
    if r.variant == 1: bad('expression-rhs:rejected', 'rejected'); return out
    res, o, _ = exec_in_vm(vm, mir, r.fields[0])
    if conc(vm, res).variant == 1 or len(o['writes']) != 1: bad('expression-rhs:run', 'the program did not print one line'); return out
    w = o['writes'][0]; got = (w.concrete() if isinstance(w, BStr) else zstr(z3.simplify(to_sym(w))))
    if got != want + '\n': bad('expression-rhs:value', f'{src.splitlines()[0]!r} gives {got!r}, an ordinary expression gives {want!r}')
    return out


def jobs(ctx, tier):
    mir = ctx.mir('dev'); js = []
    from ..progen import chunks
    # quick: all 1-element texts and every 4th 2-element text (deterministic stride); thorough: all 2-element and every 8th 3-element text
    texts = (poetic_texts(1) + poetic_texts(2)[66::4]) if tier == 'quick' else (poetic_texts(2) + poetic_texts(3)[5214::8])
    for k, ch in enumerate(chunks(texts, 80)):
        js.append(Job(f'text/is/{k}', h_poetic_text, (mir, ch, 'is'), witness=['text-done'], str_mode='bounded', fuel=20_000_000, weight=20))
    for k, ch in enumerate(chunks(special_texts(), 36)):
        js.append(Job(f'text/special/{k}', h_poetic_text, (mir, ch, 'is'), witness=['text-done'], str_mode='bounded', fuel=20_000_000, weight=20))
    for k, ch in enumerate(chunks(long_texts(24 if tier == 'quick' else 40), 8)):
        js.append(Job(f'text/long/{k}', h_poetic_text, (mir, ch, 'is'), witness=['text-done'], str_mode='bounded', fuel=20_000_000, weight=20))
    for k, ch in enumerate(chunks(texts[::7], 80)):
        js.append(Job(f'text/like/{k}', h_poetic_text, (mir, ch, 'like'), witness=['text-done'], str_mode='bounded', fuel=20_000_000, weight=20))
    from .lexcommon import CLASS_NAMES
    import itertools
    for n in range(0, 4 if tier == 'thorough' else 3):
        if n < 2: js.append(Job(f'says/{n}', h_says, (mir, n), witness=['says-done'], str_mode='bounded', fuel=20_000_000, weight=10 ** n))
        else:
            for pin in itertools.product([c for c in CLASS_NAMES if c not in ('lf', 'quote', 'lparen')], repeat=n - 1):
                js.append(Job(f'says/{n}/' + '+'.join(pin), h_says, (mir, n, pin), witness=['says-done'], str_mode='bounded', fuel=20_000_000, weight=30))
    js.append(Job('expression-rhs', h_expr_rhs, (mir,), witness=['rhs-done'], str_mode='bounded', fuel=20_000_000, weight=20))
    for n in range(1, 7): js.append(Job(f'digit-rule/{n}', h_rule, (mir, n), witness=['rule-done'], weight=n))
    js.append(Job('word_len', h_wordlen, (mir,), witness=['wordlen-done'], str_mode='bounded', weight=3))
    maxd = 4 if tier == 'thorough' else 3
    for nd in range(1, maxd + 1):
        for dot in range(0, nd + 1):
            js.append(Job(f'accuracy/{nd}digits/dot{dot}', h_accuracy, (mir, nd, dot), witness=['accuracy-done'], timeout_ms=240_000, weight=10 * nd))
    return js


W = lambda s: ['w', s]
Sx = lambda s: ['s', s]
D_ = ['d']
VEC = [[W('a')], [W('abc'), W('ab')], [W('abcdefghij')], [W('ab'), D_, W('abc')], [D_, W('a')], [W('a'), D_], [D_], [D_, D_, W('ab')], [W('a'), D_, W('b'), D_, W('cc')],
       [W("it"), Sx("'s")], [W("rock'n'roll")], [W('we'), Sx("'re"), W('x')], [W('a'), Sx("'s"), Sx("'s"), D_, W('abcdefghijk')], [W("''")], [W('abc'), W('abcde'), W('abcdefg'), D_, W('a'), W('abcdefghi')],
       [W('a' * 9)] * 6, [W('a' * 9)] * 16, [W('ab'), W('a' * 10), D_, W('a' * 10), W('abc')], [W('é')], [W('a' * 20), D_, W('a' * 20), W('a' * 7)]]


def vm_compute(vm, mir, ej):
    elems = [Adt('PoeticNumberLiteralElem', {'w': 0, 's': 1, 'd': 2}[e[0]], [const_str(vm, e[1])] if e[0] != 'd' else []) for e in ej]
    return vm.run_fn(fn(mir, 'PoeticNumberLiteral', 'compute_value'), [R(literal(elems))])


def validate(ctx):
    from ..vm import VM, Explorer
    mir = ctx.mir('dev'); nat = ctx.native('dev'); good, bad = 0, []
    for ej in VEC:
        for mode in ('opaque', 'bounded'):
            vm = VM(mir, Explorer()); vm.str_mode = mode
            try: got = {'bits': f64bits(vm_compute(vm, mir, ej))}
            except PanicEdge as p: got = {'panic': str(p)}
            except Exception as e: got = {'exception': f'{type(e).__name__}: {e}'}
            nv = nat.call({'op': 'poetic', 'elems': ej})
            okk = ('panic' in got and 'panic' in nv) or got.get('bits') == nv.get('bits')
            if okk: good += 1
            else: bad.append({'elems': ej, 'mode': mode, 'vm': got, 'native': nv})
    return good, bad


def reference_value(ej):
    """decimal numeral spelled by the elements, as the correctly rounded double (Python float())"""
    digits, dot = [], None; cur = None
    for e in ej:
        if e[0] == 'd':
            if dot is None: dot = len(digits)
            continue
        L = len(e[1].replace("'", ''))
        if e[0] == 'w': digits.append(L)
        else:
            if not digits: return None
            digits[-1] += L
    digits = [x % 10 for x in digits]
    if not digits: return 0.0
    if dot is None: dot = len(digits)
    s = ''.join(map(str, digits[:dot])) or '0'
    frac = ''.join(map(str, digits[dot:]))
    return float(s + ('.' + frac if frac else ''))


def replay(ctx, f):
    cex = f.get('cex') or {}
    out = {'reproduced': None}
    res = {}
    if 'program' in cex or 'text' in cex:
        import math
        for prof in ('dev', 'release'):
            nat = ctx.native(prof)
            if 'program' in cex:
                nv = nat.call({'op': 'program', 'src': cex['program'], 'stdin': ''}, timeout=20)
                got = (nv.get('stdout') or '')
                out[prof + '_native'] = {k: nv.get(k) for k in ('parse', 'result', 'stdout')}
                if 'numeral' in cex:
                    try: g = float(got.strip()); want = float(cex['numeral']); res[prof] = abs(g - want) > 4 * math.ulp(want)
                    except ValueError: res[prof] = True
                else: res[prof] = got != cex.get('expected_output', '') + '\n'
            else:
                # `X says <text>`: run `X says <text>` + say X natively and compare with the text
                t = cex['text']; line = t.split('\n')[0]
                nv = nat.call({'op': 'program', 'src': line + '\nsay X\n', 'stdin': ''}, timeout=20)
                out[prof + '_native'] = {k: nv.get(k) for k in ('parse', 'result', 'stdout')}
                res[prof] = nv.get('stdout') != line[len('X says '):] + '\n'
        out.update(res); out['reproduced'] = any(res.values())
        return out
    for prof in ('dev', 'release'):
        nat = ctx.native(prof)
        if 'word' in cex:
            w = cex['word']
            nv = nat.call({'op': 'poetic', 'elems': [['w', w]]})
            res[prof] = 'panic' in nv or bits_f64(nv['bits']) != float(len(w.replace("'", '')) % 10)
            continue
        if 'elems' not in cex: res[prof] = None; continue
        nv = nat.call({'op': 'poetic', 'elems': cex['elems']})
        if f['kind'] in ('panic', 'ub'): res[prof] = 'panic' in nv or 'crash' in nv; continue
        if 'panic' in nv: res[prof] = True; continue
        want = reference_value(cex['elems'])
        if want is None: res[prof] = None; continue
        got = bits_f64(nv['bits'])
        import math
        ulp = math.ulp(want) if want != 0 else 5e-324
        res[prof] = abs(got - want) > 4 * ulp
        out[prof + '_native'] = nv.get('display'); out['reference'] = want
    out.update(res)
    vals = [v for v in res.values() if v is not None]
    out['reproduced'] = any(vals) if vals else None
    return out
