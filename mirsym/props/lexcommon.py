"""shared by C12 / C01 / C02: bounded symbolic source text and the real lexer run to exhaustion"""
import z3
from .common import *
from ..harness import Job, finding, model_of
from ..std import conc
from ..strings import BStr, Buf, utf8_len
from .. import chartab

R_BY_WIDTH = {2: [0xE9, 0xC9, 0xDF, 0x130, 0x661, 0xA0], 3: [0x212A, 0x2028, 0xFEFF], 4: [0x1F600]}


# character classes: a partition of ASCII ∪ R; every symbolic character forks over them (or is pinned to one by the
# job's shard).  `classes_cover()` discharges the coverage query once per run.
def _cls(c):
    r = chartab._rng
    return [
        ('lower', r(c, 97, 122)), ('upper', r(c, 65, 90)), ('digit', r(c, 48, 57)), ('lf', c == 10),
        ('space', z3.Or(c == 32, c == 9, r(c, 11, 13))), ('apos', c == 39), ('quote', c == 34), ('lparen', c == 40),
        ('dot', c == 46), ('underscore', c == 95), ('cmp', z3.Or(c == 60, c == 62, c == 61)),
        ('punct', z3.And(chartab.is_ascii_punctuation(c), c != 39, c != 34, c != 40, c != 46, c != 95, c != 60, c != 62, c != 61)),
        ('control', z3.Or(r(c, 0, 8), r(c, 14, 31), c == 127)),
        ('w2', z3.Or(*[c == m for m in R_BY_WIDTH[2]])), ('w3', z3.Or(*[c == m for m in R_BY_WIDTH[3]])), ('w4', c == R_BY_WIDTH[4][0]),
    ]


CLASS_NAMES = [n for n, _ in _cls(z3.BitVec('_c', 32))]
CLASS_WIDTH = {n: 1 for n in CLASS_NAMES}; CLASS_WIDTH.update({'w2': 2, 'w3': 3, 'w4': 4})


def classes_cover():
    """solver query: the classes cover exactly ASCII ∪ R and are pairwise disjoint"""
    c = z3.BitVec('_cc', 32); cl = [p for _, p in _cls(c)]
    dom = z3.Or(z3.ULT(c, 128), *[c == m for ms in R_BY_WIDTH.values() for m in ms])
    s = z3.Solver(); s.add(z3.Xor(dom, z3.Or(*cl)))
    if s.check() != z3.unsat: return False
    for i in range(len(cl)):
        for j in range(i + 1, len(cl)):
            s = z3.Solver(); s.add(cl[i], cl[j])
            if s.check() != z3.unsat: return False
    return True


def sym_text(vm, n, name='t', pinned=()):
    """n symbolic characters; pinned[i] (a class name) fixes the class of character i, the rest fork"""
    cps, ws = [], []
    if not hasattr(vm, 'cp_width'): vm.cp_width = {}
    for i in range(n):
        c = z3.BitVec(f'{name}.c{i}', 32)
        cl = _cls(c)
        k = CLASS_NAMES.index(pinned[i]) if i < len(pinned) and pinned[i] else vm.fork(len(cl), note=f'{name}.class{i}')
        cname, pred = cl[k]
        w = CLASS_WIDTH[cname]
        single = {'lf': 10, 'apos': 39, 'quote': 34, 'lparen': 40, 'dot': 46, 'underscore': 95, 'w4': R_BY_WIDTH[4][0]}.get(cname)
        if single is not None:
            cps.append(single); ws.append(w); continue
        vm.assume(pred)
        if w > 1: vm.domains[c.get_id()] = set(R_BY_WIDTH[w])
        vm.keep.append(c); vm.cp_width[c.get_id()] = w
        cps.append(c); ws.append(w)
    return BStr(Buf(cps, ws))


def run_lexer(vm, mir, text, max_tokens):
    lx = vm.run_fn(fn(mir, 'Lexer', 'new'), [text])
    cell = Cell(lx); nxt = fn(mir, 'Lexer', 'next', 'Iterator')
    toks = []
    while True:
        r = conc(vm, vm.run_fn(nxt, [Ref(cell)]))
        if r.variant == 0: break
        toks.append(r.fields[0])
        if len(toks) > max_tokens: raise PanicEdge('nonterm', f'the lexer produced more than {max_tokens} tokens from a {text.nbytes()}-byte text (no progress)', 'Lexer::next')
    return toks


def text_cex(text):
    def d(m):
        return {'text': ''.join(chr(c if isinstance(c, int) else m.eval(c, model_completion=True).as_long()) for c in text.chars())}
    return d


def truth(vm, b): return b if isinstance(b, bool) else vm.branch(b)


def check_tokens(vm, mir, text, toks, ck):
    """the consistency properties of the statement, on one path"""
    buf = text.buf; cps = buf.cps; offs = buf.offs; nbytes = buf.nbytes
    tt = mir.src.enums['TokenType']
    is_nl = [truth(vm, c == 10) for c in cps]
    # line / line-start of every byte offset
    line_at, start_at = {}, {}
    line, ls = 1, 0
    for i, c in enumerate(cps):
        line_at[offs[i]] = line; start_at[offs[i]] = ls
        if is_nl[i]: line += 1; ls = offs[i] + buf.widths[i]
    line_at[nbytes] = line; start_at[nbytes] = ls
    prev_end = 0; covered = [False] * len(cps); multiline_cover = [False] * len(cps)
    spans = []
    for k, t in enumerate(toks):
        idv = conc(vm, t.fields[0]); kind = tt[idv.variant]; sp = t.fields[1]; rng = t.fields[2]
        if not isinstance(sp, BStr) or sp.buf is not buf: ck.bad('spelling-not-a-slice', f'token {k} ({kind}) spelling is not a slice of the source'); return
        s, e = sp.start, sp.end
        if s < prev_end: ck.bad('tokens-overlap-or-out-of-order', f'token {k} ({kind}) starts at byte {s}, before the end {prev_end} of its predecessor'); return
        if e < s or e > nbytes: ck.bad('spelling-out-of-range', f'token {k} ({kind}) spans {s}..{e}'); return
        # gap must be ignorable
        for i in range(buf.cidx(prev_end), buf.cidx(s)):
            c = cps[i]
            ign = chartab._or(chartab._and(chartab.is_whitespace(c), c != 10), chartab._and(chartab.is_ascii_punctuation(c), c != 0x5F))
            ck.bad('gap-not-ignorable', f'character {i} between tokens is not ignorable', ign if not isinstance(ign, bool) else (ign or z3.BoolVal(False)))
        i0, i1 = buf.cidx(s), buf.cidx(e)
        for i in range(i0, i1):
            covered[i] = True
            if kind in ('StringLiteral', 'Comment', 'Error'): multiline_cover[i] = True
        spans.append((kind, s, e))
        # position: start = (1 + newlines before, byte column), end = one past the last byte on its line
        st, en = rng.fields[0], rng.fields[1]
        want_start = (line_at[s], s - start_at[s])
        got_start = (st.fields[0], st.fields[1])
        if got_start != want_start: ck.bad('token-start-position', f'token {k} ({kind}) at byte {s}: reported start {got_start}, true {want_start}')
        if kind == 'Newline':
            want_end = (line_at[s], s - start_at[s] + 1)
        else:
            want_end = (line_at[e] if e in line_at else line_at[s], e - (start_at[e] if e in start_at else start_at[s]))
            # a token whose last character is a line feed (multi-line string ending ...\n" cannot: it ends with the delimiter)
        got_end = (en.fields[0], en.fields[1])
        if got_end != want_end: ck.bad('token-end-position', f'token {k} ({kind}) bytes {s}..{e}: reported end {got_end}, true {want_end}')
        prev_end = e
    for i in range(buf.cidx(prev_end), len(cps)):
        c = cps[i]
        ign = chartab._or(chartab._and(chartab.is_whitespace(c), c != 10), chartab._and(chartab.is_ascii_punctuation(c), c != 0x5F))
        ck.bad('gap-not-ignorable', f'character {i} after the last token is not ignorable', ign if not isinstance(ign, bool) else (ign or z3.BoolVal(False)))
    for i, c in enumerate(cps):
        if is_nl[i] and not multiline_cover[i]:
            if not any(kind == 'Newline' and s == offs[i] for kind, s, e in spans): ck.bad('newline-not-a-token', f'the line feed at character {i} is outside strings / comments but is not a Newline token')


class Ck:
    def __init__(self, vm, d): self.vm, self.d, self.out = vm, d, []

    def bad(self, role, detail, prop=None):
        vm = self.vm
        if prop is None: m = model_of(vm)
        else:
            if isinstance(prop, bool):
                if prop: return
                m = model_of(vm)
            else:
                v = vm.must_hold(prop, role); m = v.model if v is not None else None
        if m is not None: self.out.append(finding('violation', role, detail, self.d(m), vm.notes))


