"""C08 — input and output happen once each, in program order, and I/O faults are errors (program level, faulting streams)."""
import z3
from .common import *
from .progcommon import *
from . import C03, C04

ID = 'C08'
PROFILES = ['dev']
T = {
 'say-listen-mix': ('say "a"\nListen to X\nsay X\nListen\nsay 9001\nListen to Y\nsay Y\nsay X\n', {'n1': {}}),
 'listen-into-subscript': ('Listen to Arr at 0\nsay Arr at 0\nListen to it at 1\nsay Arr at 1\nsay Arr\n', {}),
 'say-values': ('say 9001\nsay "§1"\nsay null\nsay mysterious\nsay true\nRock Arr with 1, 2\nsay Arr\n', {'n1': {}, 's1': {}}),
 'listen-in-loop': ('X is 0\nWhile X is less than 2\nBuild X up\nListen to L\nsay L\n\nsay "end"\n', {}),
 'error-between': ('say "a"\nListen to X\nsay Zed plus 9001\nsay "b"\nListen to Y\n', {'n1': {}}),
}
BOUNDS = {'generated programs': 'every sequence of <= 2 (thorough 3) I/O statements out of 20: {say constant, say X, Listen to X, Listen} x {bare, in a taken branch, in a 2-pass loop, in a function called as a statement, in a function called inside an expression}, then X is printed; input 0..=2 lines (opaque strings; and, for sequences of <= 1 (thorough 2; quick also the 2-statement sequences of bare statements), a bounded first line of 0..=2 symbolic characters incl. blanks, CR and multi-byte characters, further lines constant), a single line with / without terminator; one fault plan per path: output fails from call k on (returning an error, or accepting no more bytes: Ok(0)), or input fails from call k on, or no fault; the order of all stream calls is compared too',
          'programs': 'plus the %d templates of this file' % len(T), 'input': '0..=3 input lines of any text without line feed, the last with or without terminator (fewer lines than `listen`s: end of input)',
          'faults': 'the output stream fails from its k-th call on for every k (or never); likewise the input stream', 'observables': 'every write call and its text, every read call, the outcome'}
OUTSIDE = ['byte-level behaviour of BufReader / writeln! (std)', 'carriage returns', 'the CLI wiring (C20)']
ASSUMPTIONS = C04.ASSUMPTIONS + ['a stream that has failed keeps failing (fault plan: from call k on)']
RULE = 'state = feasible path end over (template, number / termination of input lines, fault indices, value branches); compares write records, read counts and outcome with the reference'


def h_io(vm, mir, name):
    text, spec = T[name]
    holes = C04.mk_holes(vm, spec)
    nlines = vm.fork(4, note='input-lines')
    stdin = []
    for i in range(nlines):
        term = True if i < nlines - 1 else (vm.fork(2, note='last-line-terminated') == 1)
        stdin.append((str_hole(vm, f'line{i}'), term))
    nsay = text.count('say ') + 2
    of = vm.fork(nsay + 1, note='output-fault-at') - 1
    inf = vm.fork(4, note='input-fault-at') - 1
    prog = instantiate(vm, mir, parsed_program(mir, text), holes)
    d0 = describe_holes(holes, stdin)
    vm.describe = lambda m: dict(d0(m), template=name, out_fail_at=(of if of >= 0 else None), in_fail_at=(inf if inf >= 0 else None))
    return run_both(vm, mir, prog, stdin, of if of >= 0 else None, inf if inf >= 0 else None, describe=vm.describe)


def sym_line(vm, n, name):
    """bounded line: n symbolic characters (no line feed), classes forked: ASCII non-blank / ASCII blank incl. CR / 2-, 3-, 4-byte members of R"""
    from .lexcommon import R_BY_WIDTH
    from ..strings import BStr, Buf
    from .. import chartab
    cps, ws = [], []
    for i in range(n):
        c = z3.BitVec(f'{name}.c{i}', 32); vm.keep.append(c)
        k = vm.fork(5, note=f'{name}.class{i}')
        if k == 0: vm.assume(z3.And(z3.ULT(c, 128), z3.Not(chartab.is_whitespace(c)))); w = 1
        elif k == 1: vm.assume(z3.And(chartab.is_ascii_whitespace(c), c != 10)); w = 1
        else:
            w = k; ms = R_BY_WIDTH[w]
            vm.assume(z3.Or(*[c == m for m in ms]) if len(ms) > 1 else c == ms[0]); vm.domains[c.get_id()] = set(ms)
        if not hasattr(vm, 'cp_width'): vm.cp_width = {}
        vm.cp_width[c.get_id()] = w
        cps.append(c); ws.append(w)
    return BStr(Buf(cps, ws))


def line_term(b):
    """z3 string term of a bounded line (for the reference side)"""
    parts = [z3.Unit(z3.CharFromBv(z3.Extract(17, 0, c) if not isinstance(c, int) else z3.BitVecVal(c, 18))) for c in b.chars()]
    if not parts: return zs('')
    return z3.Concat(*parts) if len(parts) > 1 else parts[0]


def h_ioshape(vm, mir, chunk, bounded):
    i = vm.fork(len(chunk), note='shape') if len(chunk) > 1 else 0
    text = chunk[i][0]
    prog = instantiate(vm, mir, program_of_shape(mir, chunk[i]), {})
    nlines = vm.fork(3, note='input-lines')
    stdin, real = [], []
    for k in range(nlines):
        term = True if (k < nlines - 1 or nlines == 2) else (vm.fork(2, note='last-line-terminated') == 1)
        if bounded:
            b = sym_line(vm, vm.fork(3, note=f'line{k}.len'), f'line{k}') if k == 0 else bstr_from_py('z')      # only the first line is symbolic (lines are independent)
            stdin.append((line_term(b), term))
            real.append(BStr(Buf(b.buf.cps + ([10] if term else []), b.buf.widths + ([1] if term else []))))
        else: stdin.append((str_hole(vm, f'line{k}'), term))
    max_out, max_in = chunk[i][1]['out_calls'], chunk[i][1]['in_calls']      # a fault at a later call index never happens
    plans = [(None, None, 'error')] + [(k, None, 'error') for k in range(max_out)] + [(k, None, 'zero') for k in range(max_out)] + [(None, k, 'error') for k in range(max_in)]
    of, inf, mode = plans[vm.fork(len(plans), note='fault-plan')]
    d0 = describe_holes({}, stdin)
    vm.describe = lambda m: dict(d0(m), program=text, out_fail_at=of, in_fail_at=inf, out_fail_mode=mode, in_first_chunk_bytes=getattr(vm, 'io_first_chunk_bytes', None))
    return run_both(vm, mir, prog, stdin, of, inf, describe=vm.describe, real_lines=(real if bounded else None), out_fail_mode=mode, chunked=(bounded and inf is None))      # a chunked delivery costs the reader an extra underlying read, which an input fault plan counted in reads would hit: the two are explored separately


def jobs(ctx, tier):
    from ..progen import io_shapes, chunks
    mir = ctx.mir('dev')
    js = [Job(f'io/{n}', h_io, (mir, n), witness=['run-done'], fuel=20_000_000, weight=5) for n in T]
    q = tier == 'quick'
    for k, ch in enumerate(chunks(preparse(ctx, io_shapes(2 if q else 3)), 6)):
        js.append(Job(f'io-shapes/{k}', h_ioshape, (mir, ch, False), witness=['run-done'], fuel=20_000_000, weight=20))
    for k, ch in enumerate(chunks(preparse(ctx, io_shapes(1 if q else 2)), 2)):
        js.append(Job(f'io-shapes-bounded-lines/{k}', h_ioshape, (mir, ch, True), witness=['run-done'], fuel=20_000_000, weight=20, str_mode='bounded'))
    if q:      # two-statement sequences on bounded (chunk-delivered) lines: bare statements only (thorough runs all 420 above)
        for k, ch in enumerate(chunks(preparse(ctx, io_shapes(2, wrappers=(0,), min_len=2)), 2)):
            js.append(Job(f'io-shapes-bounded-lines-2/{k}', h_ioshape, (mir, ch, True), witness=['run-done'], fuel=20_000_000, weight=20, str_mode='bounded'))
    return js


validate = C04.validate


def replay(ctx, f):
    cex = f.get('cex') or {}
    if 'program' in cex: return native_replay(ctx, cex['program'], f)
    name = cex.get('template')
    if name not in T: return {'reproduced': None}
    return native_replay(ctx, T[name][0], f)
