"""C08 — input and output happen once each, in program order, and I/O faults are errors (program level, faulting streams)."""
import z3
from .common import *
from .progcommon import *
from . import C03, C04

ID = 'C08'
PROFILES = ['dev']
T = {
 'say-listen-mix': ('say "a"\nListen to X\nsay X\nListen\nsay 9001\nListen to Y\nsay Y\nsay X\n', {'n1': {}}),
 'listen-into-subscript': ('Listen to Arr at 0\nsay Arr at 0\nListen to it at 1\nsay Arr at 1\nsay Arr\n', {}),
 'say-values': ('say 9001\nsay "§1"\nsay null\nsay mysterious\nsay true\nRock Arr with 1, 2\nsay Arr\n', {'n1': {}, 's1': {}}),
 'listen-in-loop': ('X is 0\nWhile X is less than 2\nBuild X up\nListen to L\nsay L\n\nsay "end"\n', {}),
 'error-between': ('say "a"\nListen to X\nsay Zed plus 9001\nsay "b"\nListen to Y\n', {'n1': {}}),
}
BOUNDS = {'programs': 'the %d templates of this file' % len(T), 'input': '0..=3 input lines of any text without line feed, the last with or without terminator (fewer lines than `listen`s: end of input)',
          'faults': 'the output stream fails from its k-th call on for every k (or never); likewise the input stream', 'observables': 'every write call and its text, every read call, the outcome'}
OUTSIDE = ['byte-level behaviour of BufReader / writeln! (std)', 'carriage returns', 'the CLI wiring (C20)']
ASSUMPTIONS = C04.ASSUMPTIONS + ['a stream that has failed keeps failing (fault plan: from call k on)']
RULE = 'state = feasible path end over (template, number / termination of input lines, fault indices, value branches); compares write records, read counts and outcome with the reference'


def h_io(vm, mir, name):
    text, spec = T[name]
    holes = C04.mk_holes(vm, spec)
    nlines = vm.fork(4, note='input-lines')
    stdin = []
    for i in range(nlines):
        term = True if i < nlines - 1 else (vm.fork(2, note='last-line-terminated') == 1)
        stdin.append((str_hole(vm, f'line{i}'), term))
    nsay = text.count('say ') + 2
    of = vm.fork(nsay + 1, note='output-fault-at') - 1
    inf = vm.fork(4, note='input-fault-at') - 1
    prog = instantiate(vm, mir, parsed_program(mir, text), holes)
    d0 = describe_holes(holes, stdin)
    vm.describe = lambda m: dict(d0(m), template=name, out_fail_at=(of if of >= 0 else None), in_fail_at=(inf if inf >= 0 else None))
    return run_both(vm, mir, prog, stdin, of if of >= 0 else None, inf if inf >= 0 else None, describe=vm.describe)


def jobs(ctx, tier):
    mir = ctx.mir('dev')
    return [Job(f'io/{n}', h_io, (mir, n), witness=['run-done'], fuel=20_000_000, weight=5) for n in T]


validate = C04.validate


def replay(ctx, f):
    name = (f.get('cex') or {}).get('template')
    if name not in T: return {'reproduced': None}
    return native_replay(ctx, T[name][0], f)
