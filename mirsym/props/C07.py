"""C07 — split, join, cast and rounding transform values exactly (kernel level; DESIGN.md §4, C07)."""
import z3
from .common import *
from ..harness import Job, finding, model_of
from ..std import conc
from ..strings import BStr, Buf, utf8_len, parse_ok, parse_val, radix_ok, radix_val, char_to_str
from . import C14

ID = 'C07'
PROFILES = ['dev']
ALPHA = [0x61, 0x62, 0xE9]          # a, b, é  (overlap + a multi-byte character)
BOUNDS = {'statement wiring': 'for Cut / Join / Cast on string / number / array operands x every parameter form x destinations {fresh variable, the operand itself, a subscript, a dictionary slot (thorough)}: the programs `OP X into D [with P]`, `OP X [with P]`, `OP <literal> into D [with P]` and `say X` run on the same symbolic literals (string of <= 1 (thorough 2) symbolic characters incl. multi-byte; radix / code point from a fixed list) and must agree: same outcome, X untouched by the into form, D holds what the in-place form leaves in X',
          'split': 'subject string <= 4 (quick 3) characters over {a, b, é}, delimiter absent / string <= 2 characters / any non-string kind',
          'join': 'array of <= 2 lazily symbolic elements + <= 1 dictionary entry (quick: elements null or a string <= 1 character; thorough: any scalar kind, strings <= 2 characters), delimiter absent / string <= 2 / non-string',
          'cast': 'subject of any kind (numbers: all doubles, strings: all strings, opaque), parameter absent or any value (all doubles as radix)',
          'rounding': 'all doubles, all kinds'}
OUTSIDE = ['the into-destination protocol of the statements (mutation_helper / visit_rounding; interpreter level)', 'longer strings / arrays',
           'digits of parse::<f64> and i64::from_str_radix (std; uninterpreted, with from_str_radix\'s documented radix precondition as a panic edge)']
ASSUMPTIONS = C14.ASSUMPTIONS + ['str::split / chars / Itertools::join are modelled per their std documentation', 'i64::from_str_radix panics iff radix is outside 2..=36 (std documentation)']
RULE = 'state = feasible path end over (operand kind, parameter presence/kind, string lengths, character comparisons); each compares the real result / error class with the reference definition and asserts that no panic or UB edge is reachable'

VALERR = None


def verr(mir, name): return mir.src.enums['ValError'].index(name)


def sym_bstr(vm, name, maxlen, minlen=0):
    n = minlen + vm.fork(maxlen - minlen + 1, note=f'{name}.len')
    cps, ws = [], []
    widths = sorted({utf8_len(c) for c in ALPHA})
    for i in range(n):
        w = widths[vm.fork(len(widths), note=f'{name}.w{i}')]
        members = [c for c in ALPHA if utf8_len(c) == w]
        if len(members) == 1: c = members[0]
        else:
            c = z3.BitVec(f'{name}.c{i}', 32)
            vm.assume(z3.Or(*[c == m for m in members])); vm.domains[c.get_id()] = set(members); vm.keep.append(c)
            if not hasattr(vm, 'cp_width'): vm.cp_width = {}
            vm.cp_width[c.get_id()] = w
        cps.append(c); ws.append(w)
    return BStr(Buf(cps, ws))


def mk_bounded(vm, name, smax, arr_max=0, kinds=None):
    return sym_val(vm, name, arr_max=arr_max, depth=1 if arr_max else 0, dict_max=1 if arr_max else 0, kinds=kinds,
                   str_factory=lambda vm_, nm: sym_bstr(vm_, nm, smax))


def opt_param(vm, name, mkf):
    """Option<Val>: None or Some(lazily symbolic)"""
    if vm.fork(2, note=f'{name}.present') == 0: return Adt('Option', 0, []), None
    v = mkf(vm, name)
    return Adt('Option', 1, [v]), v


def bstr_of(v):
    """BStr payload of a concrete-kind String Val"""
    return v.fields[0].box.cell.v


def cps_eq(vm, xs, ys):
    if len(xs) != len(ys): return False
    conds = []
    for x, y in zip(xs, ys):
        if isinstance(x, int) and isinstance(y, int):
            if x != y: return False
        else: conds.append(x == y)
    return True if not conds else (z3.And(*conds) if len(conds) > 1 else conds[0])


def ref_split(vm, cps, dcps):
    """std-documented split: non-overlapping matches, left to right; returns list of cp lists"""
    if not dcps: return [[c] for c in cps]
    out, cur, i, n, m = [], [], 0, len(cps), len(dcps)
    while i < n:
        hit = i + m <= n
        if hit:
            for k in range(m):
                c, d = cps[i + k], dcps[k]
                if not vm.branch(c == d if (is_sym(c) or is_sym(d)) else c == d): hit = False; break
        if hit: out.append(cur); cur = []; i += m
        else: cur.append(cps[i]); i += 1
    out.append(cur)
    return out


def describe_op(vm, fnname, a, param):
    def d(m):
        return {'fn': fnname, 'a': val_to_json(vm, a, m), 'b': None if param is None else val_to_json(vm, param, m)}
    return d


class Checker:
    def __init__(self, vm, d): self.vm, self.d, self.out = vm, d, []

    def bad(self, role, detail, prop=None):
        vm = self.vm
        if prop is None: m = model_of(vm)
        else:
            v = vm.must_hold(prop, role); m = v.model if v is not None else None
        if m is None: return
        cex = self.d(m)
        if not all(distinct_keys_ok(x) for x in (cex.get('a'), cex.get('b')) if isinstance(x, dict)): return
        self.out.append(finding('violation', role, detail, cex, vm.notes))

    def expect_err(self, r, mir, name, what):
        if r.variant != 1: self.bad(f'{what}-accepted', f'{what}: expected error {name}, got Ok'); return
        # which ValError is returned is not part of the property ("are runtime errors"): only Err vs Ok is judged


def h_split(vm, mir, ka):
    smax = 4 if getattr(vm, 'tier', 'quick') == 'thorough' else 3
    a = mk_bounded(vm, 'a', smax, arr_max=1 if ka == 5 else 0, kinds=[ka])
    popt, param = opt_param(vm, 'd', lambda vm_, nm: mk_bounded(vm_, nm, 2))
    ck = Checker(vm, describe_op(vm, 'split', a, param)); vm.describe = ck.d
    cell = Cell(vm.clone_val(a))
    r = vm.run_fn(fn(mir, 'Val', 'split'), [Ref(cell), popt])
    pk = None if param is None else conc(vm, param).variant
    if ka != 4: ck.expect_err(r, mir, 'InvalidOperationForType', 'split-non-string')
    elif pk is not None and pk != 4: ck.expect_err(r, mir, 'InvalidSplitDelimiter', 'split-bad-delimiter')
    else:
        s = bstr_of(conc(vm, a)); d = bstr_of(conc(vm, param)).chars() if param is not None else []
        want = [] if not s.chars() else ref_split(vm, s.chars(), d)
        if r.variant != 0: ck.bad('split-fails', 'split failed on a string with a valid delimiter')
        else:
            res = conc(vm, cell.v)
            if res.variant != 5: ck.bad('split-result-kind', 'split did not produce an array')
            else:
                arr = res.fields[0].box.cell.v
                items = arr.fields[0].fields[0].items
                if arr.fields[1].entries: ck.bad('split-dict', 'split produced dictionary entries')
                if len(items) != len(want): ck.bad('split-count', f'split produced {len(items)} pieces, reference {len(want)}')
                else:
                    conds = []
                    for it, w in zip(items, want):
                        it = conc(vm, it)
                        if it.variant != 4: ck.bad('split-piece-kind', 'split piece is not a string'); break
                        conds.append(cps_eq(vm, bstr_of(it).chars(), w))
                    else:
                        if any(c is False for c in conds): ck.bad('split-pieces', 'split pieces differ from the reference split')
                        else:
                            cs = [c for c in conds if c is not True]
                            if cs: ck.bad('split-pieces', 'split pieces differ from the reference split', z3.And(*cs) if len(cs) > 1 else cs[0])
    vm.witness = {'split-done'}
    return ck.out


def h_join(vm, mir, ka):
    if ka == 5:
        thorough = getattr(vm, 'tier', 'quick') == 'thorough'
        a = sym_val(vm, 'a', arr_max=2, depth=1, dict_max=1, kinds=[5], str_factory=lambda vm_, nm: sym_bstr(vm_, nm, 2 if thorough else 1),
                    elem_kinds=None if thorough else [1, 4])
    else: a = mk_bounded(vm, 'a', 2, kinds=[ka])
    popt, param = opt_param(vm, 'd', lambda vm_, nm: mk_bounded(vm_, nm, 2))
    ck = Checker(vm, describe_op(vm, 'join', a, param)); vm.describe = ck.d
    cell = Cell(vm.clone_val(a))
    r = vm.run_fn(fn(mir, 'Val', 'join'), [Ref(cell), popt])
    pk = None if param is None else conc(vm, param).variant
    if ka != 5: ck.expect_err(r, mir, 'InvalidOperationForType', 'join-non-array')
    elif pk is not None and pk != 4: ck.expect_err(r, mir, 'InvalidJoinDelimiter', 'join-bad-delimiter')
    else:
        arr = conc(vm, a).fields[0].box.cell.v
        elems = list(arr.fields[0].fields[0].items) + [e[1] for e in arr.fields[1].entries]
        kinds = [conc(vm, e).variant for e in elems]
        if any(k != 4 for k in kinds): ck.expect_err(r, mir, 'InvalidArrayElementForJoin', 'join-non-string-element')
        elif r.variant != 0: ck.bad('join-fails', 'join failed on an array of strings')
        else:
            d = bstr_of(conc(vm, param)).chars() if param is not None else []
            want = []
            for i, e in enumerate(elems):
                if i: want += d
                want += bstr_of(conc(vm, e)).chars()
            res = conc(vm, cell.v)
            if res.variant != 4: ck.bad('join-result-kind', 'join did not produce a string')
            else:
                c = cps_eq(vm, bstr_of(res).chars(), want)
                if c is False: ck.bad('join-text', 'joined text differs from the reference')
                elif c is not True: ck.bad('join-text', 'joined text differs from the reference', c)
    vm.witness = {'join-done'}
    return ck.out


def h_cast(vm, mir, ka):
    a = C14.mk(vm, 'a', [ka])
    popt, param = opt_param(vm, 'p', lambda vm_, nm: C14.mk(vm_, nm))
    ck = Checker(vm, describe_op(vm, 'cast', a, param)); vm.describe = ck.d
    cell = Cell(vm.clone_val(a))
    r = vm.run_fn(fn(mir, 'Val', 'cast'), [Ref(cell), popt])
    pk = None if param is None else conc(vm, param).variant
    if ka == 3:
        x = a.alt(3).fields[0]
        if pk is not None: ck.expect_err(r, mir, 'UnexpectedParameterToNumberToCharacterCast', 'cast-number-with-parameter')
        else:
            integral = z3.fpEQ(z3.fpRoundToIntegral(z3.RTZ(), x), x)
            inrange = z3.And(z3.fpGEQ(x, z3.FPVal(0.0, F64)), z3.fpLT(x, z3.FPVal(float(0x110000), F64)),
                             z3.Or(z3.fpLT(x, z3.FPVal(float(0xD800), F64)), z3.fpGEQ(x, z3.FPVal(float(0xE000), F64))))
            valid = z3.And(integral, inrange)
            if r.variant == 0:
                ck.bad('cast-number-accepts-invalid', 'number -> character accepted a non-integral or non-scalar code', valid)
                res = conc(vm, cell.v)
                if res.variant != 4: ck.bad('cast-number-result-kind', 'number -> character did not yield a string')
                else:
                    cp = z3.fpToUBV(z3.RTZ(), x, z3.BitVecSort(32))
                    ck.bad('cast-number-char', 'wrong character', z3.Implies(valid, res.fields[0].box.cell.v.term == char_to_str(cp)))
            else:
                ck.bad('cast-number-rejects-valid', 'number -> character rejected a valid code point', z3.Not(valid))
                ck.expect_err(r, mir, 'ConvertingNumberToCharacterFailed', 'cast-number-invalid')
    elif ka == 4:
        s = a.alt(4).fields[0].box.cell.v.term
        if pk is None:
            if r.variant == 0:
                ck.bad('cast-string-accepts-unparsable', 'string -> number accepted unparsable text', parse_ok(s))
                res = conc(vm, cell.v)
                if res.variant != 3: ck.bad('cast-string-result-kind', 'string -> number did not yield a number')
                else: ck.bad('cast-string-value', 'string -> number value is not parse(s)', vm.fp(res.fields[0]) == parse_val(s))
            else:
                ck.bad('cast-string-rejects-parsable', 'string -> number rejected parsable text', z3.Not(parse_ok(s)))
                ck.expect_err(r, mir, 'ParsingStringAsNumberFailed', 'cast-string-unparsable')
        elif pk != 3: ck.expect_err(r, mir, 'InvalidStringToIntegerRadix', 'cast-radix-not-a-number')
        else:
            p = conc(vm, param).fields[0]
            integral = z3.fpEQ(z3.fpRoundToIntegral(z3.RTZ(), p), p)
            radix_fits = z3.And(integral, z3.fpGEQ(p, z3.FPVal(2.0, F64)), z3.fpLEQ(p, z3.FPVal(36.0, F64)))
            rad = z3.fpToUBV(z3.RTZ(), p, z3.BitVecSort(32))
            good = z3.And(radix_fits, radix_ok(s, rad))
            if r.variant == 0:
                ck.bad('cast-radix-accepts-invalid', 'cast with radix accepted an invalid radix or unparsable digits', good)
                res = conc(vm, cell.v)
                if res.variant != 3: ck.bad('cast-radix-result-kind', 'cast with radix did not yield a number')
                else: ck.bad('cast-radix-value', 'cast with radix: value is not from_str_radix(s, radix) as f64',
                             z3.Implies(good, vm.fp(res.fields[0]) == z3.fpSignedToFP(RNE, radix_val(s, rad), F64)))
            else:
                ck.bad('cast-radix-rejects-valid', 'cast with radix rejected a valid radix and digits', z3.Not(good))
                ck.expect_err(r, mir, 'InvalidStringToIntegerRadix', 'cast-radix-invalid')
    else: ck.expect_err(r, mir, 'InvalidOperationForType', 'cast-wrong-kind')
    vm.witness = {'cast-done'}
    return ck.out


def h_round(vm, mir, ka):
    a = C14.mk(vm, 'a', [ka])
    which = vm.fork(3, note='direction'); name = ['round_up', 'round_down', 'round_nearest'][which]
    ck = Checker(vm, describe_op(vm, name, a, None)); vm.describe = ck.d
    cell = Cell(vm.clone_val(a))
    r = vm.run_fn(fn(mir, 'Val', name), [Ref(cell)])
    if ka != 3: ck.expect_err(r, mir, 'InvalidOperationForType', 'round-non-number')
    elif r.variant != 0: ck.bad('round-fails', 'rounding a number failed')
    else:
        x = a.alt(3).fields[0]
        want = z3.fpRoundToIntegral([z3.RTP(), z3.RTN(), z3.RNA()][which], x)
        res = conc(vm, cell.v)
        if res.variant != 3: ck.bad('round-result-kind', 'rounding changed the kind')
        else: ck.bad(f'{name}-value', 'rounded value differs from IEEE roundToIntegral', vm.fp(res.fields[0]) == want)
    vm.witness = {'round-done'}
    return ck.out


# ------------------------------------------------------------------ statement-level wiring (program level, metamorphic)
WIRING = {
 # name: (prelude lines, operand text, parameter texts)
 'cut': (['Put "§1" into X'], '"§1"', [None, '"§2"', '9003', 'mysterious']),
 'join': (['Rock X with "§1", "§2"'], None, [None, '"§2"', '9003']),
 'cast-string': (['Put "§1" into X'], '"§1"', [None, '9003', '"§2"']),
 'cast-number': (['Put 9001 into X'], '9001', [None, '9003']),
 'cut-number': (['Put 9001 into X'], '9001', [None]),
 'join-string': (['Put "§1" into X'], '"§1"', [None]),
 # operand and destination in the same variable, at different places
 'cut-element': (['Rock X with "§1", "b", "c"'], None, [None, '"§2"'], 'X at 0', ['X at 1', 'X at 0', 'X at 3', 'Y']),
 'cast-element': (['Rock X with "§1", "b", "c"'], None, [None, '9003'], 'X at 0', ['X at 2', 'X at "k"', 'Y']),
}
WIRING_KW = {'cut-element': 'Cut', 'cast-element': 'Cast', 'cut': 'Cut', 'join': 'Join', 'cast-string': 'Cast', 'cast-number': 'Cast', 'cut-number': 'Cut', 'join-string': 'Join'}
DESTS = ['Y', 'X', 'Y at 0', 'Z at "k"']


def h_wiring(vm, mir, name, pi, di):
    """`OP X into D [with P]` leaves X alone and stores in D exactly what `OP X [with P]` stores in X (and what `OP <literal> into D` stores);
    the four programs run on the same symbolic literals through the real parser (native pre-parse) and the real interpreter"""
    from .progcommon import instantiate, parsed_program, model_of as _m
    from ..progrun import exec_in_vm
    from .C09 import sym_short_string
    ent = WIRING[name]; pre, lit, params = ent[:3]; O = ent[3] if len(ent) > 3 else 'X'; dests = ent[4] if len(ent) > 4 else DESTS
    kw = WIRING_KW[name]; P = params[pi]; D = dests[di]
    w = f' with {P}' if P is not None else ''
    setup = ['Put 7 into Z at "k"', 'Rock Y with 8'] if ' at ' in D else []
    progs = {
        'into': pre + setup + [f'{kw} {O} into {D}{w}', f'say {O}', f'say {D}'],
        # a subscripted operand has no in-place form (the parser requires an identifier): the element is copied into T first
        'in-place': (pre + [f'{kw} {O}{w}', f'say {O}']) if O == 'X' else (pre + [f'Put {O} into T', f'{kw} T{w}', 'say T']),
        'plain': pre + [f'say {O}'],
    }
    if lit is not None and D != O: progs['literal'] = setup + [f'{kw} {lit} into {D}{w}', f'say {D}']
    holes = {}
    holes['s1'] = sym_short_string(vm, 's1', 1 if getattr(vm, 'tier', 'quick') == 'quick' else 2)
    holes['s2'] = bstr_from_py(['', ',', 'a'][vm.fork(3, note='s2')]) if ('§2' in (P or '') or name == 'join') else bstr_from_py('')
    x1 = [65.0, 1046.0, 128175.0, -1.0, 65.5, 55296.0, 12.0][vm.fork(7, note='n1')] if name in ('cast-number', 'cut-number') else 0.0
    holes['n1'] = x1
    holes['n3'] = [16.0, 2.0, 1.0, 36.0, 37.0, 2.5, -1.0, 0.0][vm.fork(8, note='n3')] if P == '9003' else 0.0
    def d(m):
        from .progcommon import describe_holes
        out = describe_holes({k: (SymStr(to_sym(h)) if isinstance(h, BStr) else h) for k, h in holes.items() if isinstance(h, (BStr, SymStr))})(m)
        out.update(n1=f64bits(holes['n1']), n3=f64bits(holes['n3']), programs={k: '\n'.join(v) + '\n' for k, v in progs.items()})
        return out
    vm.describe = d
    runs = {}
    for k, lines in progs.items():
        prog = instantiate(vm, mir, parsed_program(mir, '\n'.join(lines) + '\n'), holes)
        r, o, _ = exec_in_vm(vm, mir, prog)
        runs[k] = (conc(vm, r).variant == 1, o['writes'])
    out = []
    def bad(role, detail, prop=None):
        if prop is None: m = model_of(vm)
        else:
            v = vm.must_hold(prop, role); m = v.model if v is not None else None
        if m is not None: out.append(finding('violation', role, detail, d(m), vm.notes))
    def same(a, b):
        e = str_eq(vm, a, b) if isinstance(a, (BStr, SymStr)) and isinstance(b, (BStr, SymStr)) else None
        if e is None: e = z3.simplify(to_sym(a) == to_sym(b)); e = True if z3.is_true(e) else False if z3.is_false(e) else e
        return e
    err_into, w_into = runs['into']; err_ip, w_ip = runs['in-place']; _, w_plain = runs['plain']
    vm.witness = {'wiring-done'}
    if err_into != err_ip: bad('wiring:outcome', f'`{kw} X into {D}{w}` {"fails" if err_into else "succeeds"} but `{kw} X{w}` {"fails" if err_ip else "succeeds"}'); return out
    if 'literal' in runs and runs['literal'][0] != err_ip: bad('wiring:outcome-literal', f'`{kw} <literal> into {D}{w}` {"fails" if runs["literal"][0] else "succeeds"} but the variable form {"fails" if err_ip else "succeeds"}'); return out
    if err_ip: return out
    if len(w_into) != 2 or len(w_ip) != 1 or len(w_plain) != 1: bad('wiring:output-count', 'unexpected number of lines'); return out
    if D != O:
        e = same(w_into[0], w_plain[0])
        if e is False: bad('wiring:operand-clobbered', f'`{kw} X into {D}` changed X')
        elif e is not True: bad('wiring:operand-clobbered', f'`{kw} X into {D}` changed X', e)
    e = same(w_into[1], w_ip[0])
    if e is False: bad('wiring:destination-value', f'`{kw} X into {D}{w}` stored something else than `{kw} X{w}` leaves in X')
    elif e is not True: bad('wiring:destination-value', f'`{kw} X into {D}{w}` stored something else than `{kw} X{w}` leaves in X', e)
    if 'literal' in runs and len(runs['literal'][1]) == 1:
        e = same(runs['literal'][1][0], w_ip[0])
        if e is False: bad('wiring:literal-operand', f'`{kw} <literal> into {D}{w}` stored something else')
        elif e is not True: bad('wiring:literal-operand', f'`{kw} <literal> into {D}{w}` stored something else', e)
    return out


def jobs(ctx, tier):
    mir = ctx.mir('dev'); js = []
    for name, ent in WIRING.items():
        params = ent[2]; nd = len(ent[4]) if len(ent) > 4 else (len(DESTS) if tier != 'quick' else 3)
        for pi in range(len(params)):
            for di in range(nd):
                js.append(Job(f'wiring/{name}/{params[pi]}/{(ent[4] if len(ent) > 4 else DESTS)[di]}', h_wiring, (mir, name, pi, di), witness=['wiring-done'], str_mode='bounded', fuel=20_000_000, weight=6))
    for ka in range(6):
        js.append(Job(f'split/{KINDS[ka]}', h_split, (mir, ka), witness=['split-done'], str_mode='bounded', weight=8 if ka == 4 else 1))
        js.append(Job(f'join/{KINDS[ka]}', h_join, (mir, ka), witness=['join-done'], str_mode='bounded', weight=8 if ka == 5 else 1))
        js.append(Job(f'cast/{KINDS[ka]}', h_cast, (mir, ka), witness=['cast-done'], weight=2))
        js.append(Job(f'round/{KINDS[ka]}', h_round, (mir, ka), witness=['round-done']))
    return js


# ------------------------------------------------------------------ translator validation + replay
S_ = lambda s: {'kind': 'String', 'v': s}
N_ = lambda x: {'kind': 'Number', 'bits': f64bits(x)}
ARR = lambda *xs, **kw: {'kind': 'Array', 'arr': list(xs), 'dict': kw.get('dict', [])}
VEC = [('split', S_('a,b,,c'), S_(',')), ('split', S_('abc'), None), ('split', S_('abc'), S_('')), ('split', S_(''), None), ('split', S_(''), N_(1.0)), ('split', S_('aXXbXXXc'), S_('XX')),
       ('split', S_('éaé'), S_('a')), ('split', S_('ab'), N_(2.0)), ('split', N_(1.0), None), ('split', S_('aaa'), S_('aa')), ('split', S_('abab'), S_('ab')),
       ('join', ARR(S_('a'), S_('b')), None), ('join', ARR(S_('a'), S_('b')), S_(', ')), ('join', ARR(), None), ('join', ARR(), N_(1.0)), ('join', ARR(S_('a'), N_(1.0)), None),
       ('join', ARR(S_('x')), {'kind': 'Null'}), ('join', S_('a'), None), ('join', ARR(S_('a'), dict=[[{'kind': 'String', 'v': 'k'}, S_('v')]]), S_('-')),
       ('join', ARR(dict=[[{'kind': 'Null'}, N_(1.0)]]), None),
       ('cast', N_(65.0), None), ('cast', N_(1046.0), None), ('cast', N_(128175.0), None), ('cast', N_(65.5), None), ('cast', N_(-1.0), None), ('cast', N_(55296.0), None), ('cast', N_(1114112.0), None),
       ('cast', N_(float('nan')), None), ('cast', N_(float('inf')), None), ('cast', N_(65.0), N_(1.0)), ('cast', S_('123.45'), None), ('cast', S_('abc'), None), ('cast', S_(''), None),
       ('cast', S_('ff'), N_(16.0)), ('cast', S_('zz'), N_(36.0)), ('cast', S_('12'), N_(2.0)), ('cast', S_('12'), N_(2.5)), ('cast', S_('12'), S_('x')), ('cast', S_('-101'), N_(2.0)),
       ('cast', S_('12'), N_(4294967298.0)), ('cast', {'kind': 'Null'}, None), ('cast', S_('1e3'), None), ('cast', S_(' 1'), None), ('cast', S_('9223372036854775808'), N_(10.0)),
       ] + [(d, N_(x), None) for d in ('round_up', 'round_down', 'round_nearest') for x in (0.5, -0.5, 1.5, 2.5, -2.5, 0.49999999999999994, 4503599627370497.5, float('nan'), float('inf'), -0.0, 1e300)] + \
    [(d, S_('1'), None) for d in ('round_up', 'round_down', 'round_nearest')]


def vm_unit_op(vm, mir, name, aj, bj):
    cell = Cell(val_from_json(vm, aj))
    args = [Ref(cell)]
    if name in ('split', 'join', 'cast'): args.append(Adt('Option', 0, []) if bj is None else Adt('Option', 1, [val_from_json(vm, bj)]))
    r = vm.run_fn(fn(mir, 'Val', name), args)
    out = {'self': val_to_json(vm, cell.v)}
    if r.variant == 1: out['err'] = mir.src.enums['ValError'][conc(vm, r.fields[0]).variant]
    return out


def validate(ctx):
    from ..vm import VM, Explorer
    mir = ctx.mir('dev'); nat = ctx.native('dev'); good, bad = 0, []
    for name, aj, bj in VEC:
        for mode in (('bounded',) if name in ('split', 'join') else ('opaque', 'bounded')):
            vm = VM(mir, Explorer()); vm.str_mode = mode
            try: got = vm_unit_op(vm, mir, name, aj, bj)
            except PanicEdge as p: got = {'panic': str(p)}
            except Exception as e: got = {'exception': f'{type(e).__name__}: {e}'}
            nv = nat.call({'op': 'val', 'fn': name, 'a': aj, 'b': bj})
            if 'panic' in nv or 'panic' in got: okk = ('panic' in nv) == ('panic' in got)
            else: okk = 'exception' not in got and got.get('err') == nv.get('err') and same_val_json(got['self'], nv['self'])
            if okk: good += 1
            else: bad.append({'fn': name, 'a': aj, 'b': bj, 'mode': mode, 'vm': got, 'native': nv})
    return good, bad


def replay_wiring(ctx, f):
    """run the programs of a wiring counterexample natively and re-judge the relation on the printed lines"""
    from .progcommon import program_text
    cex = f['cex']; out = {'reproduced': None}; res = {}
    vals = {k: cex[k] for k in ('s1', 's2', 'n1', 'n3') if k in cex}
    srcs = {k: program_text(t, vals) for k, t in cex['programs'].items()}
    if any(v is None for v in srcs.values()): return out
    for prof in ('dev', 'release'):
        runs = {k: ctx.native(prof).call({'op': 'program', 'src': v, 'stdin': ''}, timeout=20) for k, v in srcs.items()}
        out[prof + '_native'] = {k: (r.get('result'), r.get('stdout')) for k, r in runs.items()}
        if any('panic' in r for r in runs.values()): res[prof] = True; continue
        err = {k: r.get('result') == 'err' for k, r in runs.items()}
        lines = {k: (r.get('stdout') or '').split('\n')[:-1] for k, r in runs.items()}
        bad = err['into'] != err['in-place'] or ('literal' in err and err['literal'] != err['in-place'])
        if not bad and not err['in-place']:
            bad = len(lines['into']) != 2 or len(lines['in-place']) != 1 or lines['into'][1] != lines['in-place'][0] or ('literal' in lines and lines['literal'][:1] != lines['in-place'][:1])
            if not bad and f['role'] == 'wiring:operand-clobbered': bad = lines['into'][0] != lines['plain'][0]
            if not bad and 'operand-clobbered' not in f['role'] and lines['into'][0] != lines['plain'][0] and 'into X\n' not in srcs['into'].replace(' with', '\n'): bad = True
        res[prof] = bool(bad)
    out.update(res); out['reproduced'] = any(res.values())
    return out


def replay(ctx, f):
    if 'programs' in (f.get('cex') or {}): return replay_wiring(ctx, f)
    """replay: the real build must show the same class of failure on the concrete counterexample.
    For value disagreements the reference definition is re-evaluated concretely by the VM's oracle path (Python) below."""
    cex = f.get('cex') or {}
    out = {'reproduced': None}
    if 'fn' not in cex: return out
    res = {}
    for prof in ('dev', 'release'):
        nat = ctx.native(prof)
        nv = nat.call({'op': 'val', 'fn': cex['fn'], 'a': cex['a'], 'b': cex.get('b')}, timeout=20)
        if f['kind'] in ('panic', 'ub'):
            res[prof] = bool('panic' in nv or 'crash' in nv or 'timeout' in nv)
            out[prof + '_native'] = {k: nv[k] for k in ('panic', 'crash', 'timeout') if k in nv}
            continue
        want = reference_concrete(cex)
        if want is None: res[prof] = None; continue
        if 'panic' in nv or 'crash' in nv: res[prof] = True; continue
        if 'err' in want: res[prof] = nv.get('err') != want['err']
        else: res[prof] = 'err' in nv or not same_val_json(nv['self'], want['self'])
        out[prof + '_native'] = {'err': nv.get('err'), 'self': nv.get('self', {}).get('display')}
        out['reference'] = want if 'err' in want else {'self': render_val(want['self'])}
    out.update(res)
    vals = [v for v in res.values() if v is not None]
    out['reproduced'] = any(vals) if vals else None
    return out


def reference_concrete(cex):
    """the reference definitions of this file on concrete values (plain Python)"""
    fnn, a, b = cex['fn'], cex['a'], cex.get('b')
    k = a['kind']
    if fnn == 'split':
        if k != 'String': return {'err': 'InvalidOperationForType'}
        if b is not None and b['kind'] != 'String': return {'err': 'InvalidSplitDelimiter'}
        s, d = a['v'], (b['v'] if b else '')
        parts = [] if not s else (list(s) if not d else s.split(d))
        return {'self': {'kind': 'Array', 'arr': [S_(p) for p in parts], 'dict': []}}
    if fnn == 'join':
        if k != 'Array': return {'err': 'InvalidOperationForType'}
        if b is not None and b['kind'] != 'String': return {'err': 'InvalidJoinDelimiter'}
        elems = a['arr'] + [v for _, v in a['dict']]
        if any(e['kind'] != 'String' for e in elems): return {'err': 'InvalidArrayElementForJoin'}
        if len(a['dict']) > 1: return None
        return {'self': S_((b['v'] if b else '').join(e['v'] for e in elems))}
    if fnn.startswith('round'):
        if k != 'Number': return {'err': 'InvalidOperationForType'}
        import math
        x = bits_f64(a['bits'])
        if x != x or math.isinf(x): return {'self': a}
        if fnn == 'round_up': r = float(math.ceil(x))
        elif fnn == 'round_down': r = float(math.floor(x))
        else:
            t = math.trunc(x); r = float(t + (math.copysign(1, x) if abs(x - t) >= 0.5 else 0))
        if r == 0: r = math.copysign(0.0, x)
        return {'self': N_(r)}
    if fnn == 'cast':
        if k == 'Number':
            if b is not None: return {'err': 'UnexpectedParameterToNumberToCharacterCast'}
            x = bits_f64(a['bits'])
            if x != x or x != int(x) if abs(x) < 1e18 else True: return {'err': 'ConvertingNumberToCharacterFailed'}
            i = int(x)
            if not (0 <= i < 0xD800 or 0xE000 <= i < 0x110000): return {'err': 'ConvertingNumberToCharacterFailed'}
            return {'self': S_(chr(i))}
        if k == 'String':
            if b is None: return None       # digits of parse are std's
            if b['kind'] != 'Number': return {'err': 'InvalidStringToIntegerRadix'}
            p = bits_f64(b['bits'])
            if p != p or abs(p) > 1e18 or p != int(p) or not 2 <= int(p) <= 36: return {'err': 'InvalidStringToIntegerRadix'}
            return None
        return {'err': 'InvalidOperationForType'}
    return None
