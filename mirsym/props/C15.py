"""C15 — renaming variables and re-casing names or keywords never changes behaviour (metamorphic, program level)."""
import re
import z3
from .common import *
from .progcommon import *
from . import C03, C04, C05

ID = 'C15'
PROFILES = ['dev']
# templates use @1 @2 @3 @4 for names and are written with lower-case keywords; every variant below is applied to all of them
BASE = {
 'vars-and-pronoun': 'Put 9001 into @1\nPut 9002 into @2\nsay @1 plus @2\nsay it\nPut @1 into @3\nBuild @3 up\nsay @3\nsay @1\n',
 'function': '@4 takes @1 and @2\nPut @1 minus @2 into @3\ngive back @3\n\nsay @4 taking 9001, 9002\nPut 1 into @3\nsay @3\n',
 'scopes': 'Put 9001 into @1\nif @1\nPut 2 into @2\nPut @2 into @1\n\nsay @1\nwhile @1 is greater than 9002\nknock @1 down\nsay @1\n\nsay @2\n',
 'arrays': 'rock @1 with 9001, 2\nlet @1 at "k" be 3\nroll @1 into @2\nsay @2\nsay @1 at "k"\nsay @1\nlet @3 be @1\nrock @3 with 5\nsay @3\nsay @1\n',
 'distinct-names': 'Put 1 into @1\nPut 2 into @2\nPut 3 into @3\nsay @1\nsay @2\nsay @3\n',
 'suffix-forms': "@1's 9001\nsay @1\nit's 9002\nsay it\nsay @1\n@2 is 1\n@3 is 2\nthey're 3\nsay @3\nsay @2\nif @1 ain't nothing\nsay \"x\"\n\nsay @1's 9001\n",
 'duplicate-parameter': '@4 takes @1 and @1\ngive back @1\n\nsay 1\nsay @4 taking 1, 2\nsay 2\n',
 'redefinition': '@4 takes @1\ngive back 1\n\nsay 1\n@4 takes @2\ngive back 2\n\nsay @4 taking 1\n',
 'function-name-written': '@4 takes @1\ngive back @1\n\nsay 1\nPut 5 into @4\nsay 2\n',
 'variable-then-function': 'Put 9001 into @4\nsay @4\n@4 takes @1\ngive back @1\n\nsay 2\n',
 'loop-locals': 'Put 0 into @1\nwhile @1 is less than 3\nbuild @1 up\nrock @2 with @1\nsay @2\n\nsay @1\n',
 'block-locals': 'if true\nPut 9001 into @2\nsay @2\n\nif true\nrock @2 with 5\nsay @2\n\nPut 1 into @3\nif @3\nPut 2 into @1\n\nif @3\nsay @1\n\n',
 'function-twice': '@4 takes @1 and @2\nPut @1 plus @2 into @3\ngive back @3\n\nsay @4 taking 1, 2\nsay @4 taking 9001, 4\nsay @4 taking 5, 6\n',
 'aliases': 'let @1 be 9001\nlet @2 be nothing\nshout @1 without @2\nwhisper @1 of 2\nscream @1 between 2\nif @1 is as great as @2\nsay "ge"\nelse\nsay "lt"\n\nuntil @2 is as strong as 2\nbuild @2 up\n\nsay @2\nburn @1 into @3\nsay @3\ngive back @1\n',
}
NAMES = {
 'simple-lower': ['alpha', 'beta', 'gamma', 'delta'],
 'simple-upper': ['ALPHA', 'BETA', 'GAMMA', 'DELTA'],
 'simple-mixed': ['aLpHa', 'Beta', 'gaMMa', 'DeLta'],
 'common': ['my alpha', 'your beta', 'the gamma', 'our delta'],
 'common-recased': ['MY Alpha', 'Your BETA', 'THE gamma', 'oUr DeLtA'],
 'proper': ['Tommy Alpha', 'Doctor Beta', 'Mister Gamma Ray', 'Delta Force'],
 'proper-recased': ['TOMMY ALPHA', 'DOCTOR BETA', 'MISTER GAMMA RAY', 'DELTA FORCE'],
 'mixed-kinds': ['alpha', 'my beta', 'Gamma Ray', 'the delta'],
 'other-names': ['xenon', 'yttrium', 'zinc', 'wolfram'],
 'simple-accented': ['élan', 'bäta', 'gamüa', 'жж'],
 'simple-accented-upper': ['ÉLAN', 'BÄTA', 'GAMÜA', 'ЖЖ'],
 'common-accented': ['my élan', 'your bäta', 'the gamü', 'our жж'],
 'common-accented-upper': ['MY ÉLAN', 'YOUR BÄTA', 'THE GAMÜ', 'OUR ЖЖ'],
 'proper-accented': ['Herr Müller', 'Élan Vital', 'Frau Ëlse Brühl', 'Doktor Bäcker'],
 'proper-accented-upper': ['HERR MÜLLER', 'ÉLAN VITAL', 'FRAU ËLSE BRÜHL', 'DOKTOR BÄCKER'],
 'near-names': ['elan', 'élan', 'elän', 'the elan'],
 'proper-prefixes': ['Johnny B', 'Johnny B Goode', 'Johnny Bravo', 'B Goode Johnny'],
 'proper-prefixes-upper': ['JOHNNY B', 'JOHNNY B GOODE', 'JOHNNY BRAVO', 'B GOODE JOHNNY'],
 'common-prefixes': ['my heart', 'my hearts', 'your heart', 'the heart'],
 # same letters, different word boundaries / kinds: distinct spellings are distinct variables
 'proper-boundaries': ['Jo Anna Lee', 'Joanna Lee', 'Jo Annalee', 'Joan Nalee'],
 'common-boundaries': ['a nt', 'an t', 'ant', 'the ant'],
 'kind-boundaries': ['my heart', 'myheart', 'Myhe Art', 'the myheart'],
}
BOUNDS = {'programs': '%d templates x %d naming schemes (every name kind, re-cased variants, fresh names) + per-mention re-casing + keyword re-casing (upper / capitalised / alternating)' % (len(BASE), len(NAMES)),
          'values': 'number placeholders are any double (loop bound in -1..=3)', 'observables': 'written lines and outcome of the transformed program equal those of the simple-lower original (z3, for all placeholder values)'}
OUTSIDE = ['programs outside the templates', 'letters whose case mapping is not one-to-one (ß, İ, Kelvin sign): whether STRASSE names the variable straße is not settled by the statement']
ASSUMPTIONS = C04.ASSUMPTIONS + ['metamorphic relation only: no reference interpreter is involved; both programs are parsed by the real parser']
RULE = 'state = feasible path end of running the original and the transformed program on the same symbolic placeholders; z3 compares the two output sequences and outcomes'
SPEC = {'n1': {'lo': -1, 'hi': 3}, 'n2': {'lo': -1, 'hi': 3}}


def render(base, names, mention_case=None, kw=None):
    txt = base
    if kw is not None:
        def recase(m):
            w = m.group(0)
            if w.startswith('@') or re.fullmatch(r'\d+', w): return w
            return kw(w)
        # only words outside string literals
        parts = re.split(r'("[^"]*")', txt)
        txt = ''.join(p if p.startswith('"') else re.sub(r'@?\w+', recase, p) for p in parts)
    count = {}
    def sub(m):
        i = int(m.group(1)) - 1; nme = names[i]
        if mention_case is not None:
            k = count.get(i, 0); count[i] = k + 1
            nme = mention_case(nme, k)
        return nme
    return re.sub(r'@(\d)', sub, txt)


def alt_case(name, k):
    if name[:1].isupper() and ' ' in name and not name.lower().startswith(('my ', 'your ', 'the ', 'our ', 'a ', 'an ')):
        return name.upper() if k % 2 else name          # proper names must stay capitalised words
    return name.upper() if k % 2 else name.lower() if k % 3 == 2 else name


def h_meta(vm, mir, base_name, variant):
    base = BASE[base_name]
    orig = render(base, NAMES['simple-lower'])
    kind, arg = variant
    if kind == 'names': other = render(base, NAMES[arg])
    elif kind == 'mentions': other = render(base, NAMES[arg], mention_case=alt_case)
    else: other = render(base, NAMES['simple-lower'], kw={'upper': str.upper, 'capital': str.capitalize, 'alternate': lambda w: ''.join(c.upper() if i % 2 else c.lower() for i, c in enumerate(w))}[arg])
    holes = C04.mk_holes(vm, SPEC)
    d0 = describe_holes(holes)
    vm.describe = lambda m: dict(d0(m), template=base_name, variant=list(variant), original=orig, transformed=other)
    p1 = instantiate(vm, mir, parsed_program(mir, orig), holes)
    try: p2 = instantiate(vm, mir, parsed_program(mir, other), holes)
    except Unmodelled as e:
        if 'does not parse' not in str(e): raise
        m = model_of(vm); vm.witness = {'meta-done'}
        return [finding('violation', 'renaming-rejected', 'the transformed program is rejected by the parser although the original is accepted', vm.describe(m), vm.notes)]
    r1, o1, _ = exec_in_vm(vm, mir, p1); r2, o2, _ = exec_in_vm(vm, mir, p2)
    r1, r2 = conc(vm, r1), conc(vm, r2)
    out = []
    def bad(role, detail, prop=None):
        if prop is None: m = model_of(vm)
        else:
            v = vm.must_hold(prop, role); m = v.model if v is not None else None
        if m is not None: out.append(finding('violation', role, detail, vm.describe(m), vm.notes))
    w1, w2 = [to_sym(w) for w in o1['writes']], [to_sym(w) for w in o2['writes']]
    if len(w1) != len(w2): bad('renaming-changes-output-count', f'{len(w1)} lines vs {len(w2)} after the transformation')
    else:
        for i, (a, b) in enumerate(zip(w1, w2)):
            e = z3.simplify(a == b)
            if z3.is_false(e): bad('renaming-changes-output', f'line {i} differs after the transformation'); break
            if not z3.is_true(e): bad('renaming-changes-output', f'line {i} differs after the transformation', e)
    if r1.variant != r2.variant: bad('renaming-changes-outcome', 'success / failure differs after the transformation')
    elif r1.variant == 1 and conc(vm, r1.fields[0]).variant != conc(vm, r2.fields[0]).variant: bad('renaming-changes-outcome', 'error class differs after the transformation')
    vm.witness = {'meta-done'}
    return out


def jobs(ctx, tier):
    mir = ctx.mir('dev'); js = []
    for b in BASE:
        for v in NAMES:
            if v != 'simple-lower': js.append(Job(f'{b}/names={v}', h_meta, (mir, b, ('names', v)), witness=['meta-done'], fuel=20_000_000, weight=3))
        for v in ('simple-lower', 'common', 'proper', 'simple-accented', 'common-accented', 'proper-accented'): js.append(Job(f'{b}/mentions-recased={v}', h_meta, (mir, b, ('mentions', v)), witness=['meta-done'], fuel=20_000_000, weight=3))
        for k in ('upper', 'capital', 'alternate'): js.append(Job(f'{b}/keywords={k}', h_meta, (mir, b, ('keywords', k)), witness=['meta-done'], fuel=20_000_000, weight=3))
    return js


validate = C04.validate


def replay(ctx, f):
    cex = f.get('cex') or {}
    out = {'reproduced': None}
    if 'original' not in cex: return out
    vals = {k: v for k, v in cex.items() if re.fullmatch(r'n\d', k)}
    a, b = program_text(cex['original'], vals), program_text(cex['transformed'], vals)
    if a is None or b is None: return out
    res = {}
    for prof in ('dev', 'release'):
        nat = ctx.native(prof)
        ra, rb = nat.call({'op': 'program', 'src': a, 'stdin': ''}, timeout=20), nat.call({'op': 'program', 'src': b, 'stdin': ''}, timeout=20)
        key = lambda r: (r.get('parse'), r.get('result'), r.get('stdout'), 'panic' in r)
        res[prof] = key(ra) != key(rb)
        out[prof + '_native'] = {'original': key(ra), 'transformed': key(rb)}
    out.update(res); out['reproduced'] = any(res.values())
    return out
