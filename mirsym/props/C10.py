"""C10 — same program and input give the same output every time (kernel level, symbolic hash order; DESIGN.md §4, C10)."""
import re, itertools, json
import z3
from .common import *
from ..harness import Job, finding, model_of
from ..std import conc
from . import C14, C07

ID = 'C10'
PROFILES = ['dev']
BOUNDS = {'programs': '%d programs (duplicate parameters, dictionaries printed / joined / compared, join errors, unknown names, redefinition, arrays of dictionaries) parsed once and executed twice with independent iteration orders of every hash container met; lines, outcome and rendered error compared' % 9,
          'linter': 'Linter::run executed twice on every two-assignment program of C19 (names / values symbolic, all line placements); any hash container iterated on the way forks over its permutations',
          'arrays': '0..=2 (quick 0..=1) sequence elements and 2..=3 dictionary entries (keys: the strings "m", "b" + null / any boolean / "z"; symbolic key strings make z3\'s sequence-order queries exceed the time limit: measured 288 s), values lazily symbolic of any scalar kind with opaque strings',
          'hash order': 'insertion order vs. any permutation of the dictionary (self-composition; equality with the insertion-order result for every order implies equality between any two orders)',
          'observables': 'Val::join result or error (incl. which element is blamed), Display of the array, equality verdict against a re-built copy, is-empty',
          'inventory': 'every HashMap iteration site in the MIR of the whole crate is listed; a site not analysed by a harness makes the check inconclusive'}
OUTSIDE = ['process-level repeatability', 'symbol tables (accessed only by key: asserted from the inventory)', 'dictionaries with more than 3 entries']
ASSUMPTIONS = C14.ASSUMPTIONS + ['iteration order of std::collections::HashMap is arbitrary (environment nondeterminism: any permutation)', 'keys of one map are pairwise distinct']
RULE = 'state = feasible path end over (array shape, key kinds, two iteration orders, value kinds, string comparisons); each asserts that the observable is identical under both orders'

KNOWN_SITES = {   # MIR function containing the iteration -> how it is analysed
    'val_iter': 'Array::val_iter (used by Val::join): harness join',
    'fmt': 'Display for Array (entries are sorted before rendering): harness display',
}


KEYS3 = ['m', 'M', 'b']       # insertion order differs from sorted order; two keys differ only in letter case


def iteration_sites(mir):
    """every place in the crate's MIR where a hash container is iterated"""
    sites = []
    pat = re.compile(r'(?:HashMap|HashSet)::<.*?>::(iter|values|keys|into_iter|drain|iter_mut|values_mut|into_values|into_keys|retain)\b|<&?(?:mut )?(?:std::collections::)?(?:HashMap|HashSet)<.*?> as IntoIterator>::into_iter')
    for f in mir.fns.values():
        for bb in f.blocks.values():
            for line in bb:
                if pat.search(line): sites.append((f.name, line[:160]))
    return sites


def build_array(vm, nseq, third, dict_kinds=(0, 1, 2, 3, 4)):
    """fresh object graph over *shared* symbolic terms (same names => same z3 terms)"""
    items = [sym_val(vm, f'e{i}', kinds=[0, 1, 2, 3, 4]) for i in range(nseq)]
    keys = [Adt('DictKey', 3, [SymStr(zs(KEYS3[0]))]), Adt('DictKey', 3, [SymStr(zs(KEYS3[1]))])]
    if third == 4:      # string keys spelled like the keyword keys they sit next to ("null" / null, "true" / true): equal when rendered without quotes
        keys = [Adt('DictKey', 3, [SymStr(zs('null'))]), Adt('DictKey', 1, []), Adt('DictKey', 3, [SymStr(zs('true'))])]
    elif third == 5:
        keys = [Adt('DictKey', 3, [SymStr(zs('true'))]), Adt('DictKey', 2, [True]), Adt('DictKey', 3, [SymStr(zs('mysterious'))])]
    elif third == 6:
        keys = [Adt('DictKey', 3, [SymStr(zs('mysterious'))]), Adt('DictKey', 0, []), Adt('DictKey', 2, [False])]
    if third == 1: keys.append(Adt('DictKey', 1, []))
    elif third == 2: keys.append(Adt('DictKey', 2, [z3.Bool('kb')]))
    elif third == 3: keys.append(Adt('DictKey', 3, [SymStr(zs(KEYS3[2]))]))
    ents = [[k, sym_val(vm, f'd{j}', kinds=list(dict_kinds))] for j, k in enumerate(keys)]
    return Adt('Val', 5, [rc(mk_array(items, ents, tag=vm.fresh('dict')))]), items, ents


def shape(vm, third):
    nseq = vm.fork(3 if getattr(vm, 'tier', 'quick') == 'thorough' else 2, note='nseq')
    n = 2 if third == 0 else 3
    perms = list(itertools.permutations(range(n)))
    # "identical under any two orders" follows from "identical to the insertion-order result under any order"
    p1 = perms[0]; p2 = perms[vm.fork(len(perms), note='order-2')]
    return nseq, third, p1, p2


def obs_eq(vm, r1, r2, c1, c2):
    """z3 Bool / bool: two Result<(), ValError> outcomes of join + resulting values are identical"""
    if r1.variant != r2.variant: return False
    if r1.variant == 1:
        e1, e2 = conc(vm, r1.fields[0]), conc(vm, r2.fields[0])
        if e1.variant != e2.variant: return False
        return vals_same(vm, e1.fields[0], e2.fields[0]) if e1.fields else True
    return vals_same(vm, c1.v, c2.v)


def vals_same(vm, x, y):
    x, y = conc(vm, x), conc(vm, y)
    if x.variant != y.variant: return False
    if x.variant in (0, 1): return True
    p, q = x.fields[0], y.fields[0]
    if x.variant == 2: return as_bool_term(p) == as_bool_term(q)
    if x.variant == 3: return vm.fp(p) == vm.fp(q)
    if x.variant == 4: return p.box.cell.v.term == q.box.cell.v.term
    return True


def h_join(vm, mir, third):
    nseq, third, p1, p2 = shape(vm, third)
    a1, items, ents = build_array(vm, nseq, third); a2, _, _ = build_array(vm, nseq, third)
    tags = {a1.fields[0].box.cell.v.fields[1].order_tag: p1, a2.fields[0].box.cell.v.fields[1].order_tag: p2}
    vm.hash_order = lambda vm_, hm: list(tags.get(hm.order_tag, range(len(hm.entries))))
    frozen = freeze_val(vm, a1)
    pres = vm.fork(2, note='delimiter')
    delim = Adt('Option', 0, []) if pres == 0 else Adt('Option', 1, [Adt('Val', 4, [rc(SymStr(z3.String('delim')))])])
    def d(m): return {'fn': 'join', 'a': frozen(m), 'b': None if pres == 0 else {'kind': 'String', 'v': zstr(m.eval(z3.String('delim'), model_completion=True))}, 'orders': [list(p1), list(p2)]}
    vm.describe = d
    c1, c2 = Cell(a1), Cell(a2)
    f = fn(mir, 'Val', 'join')
    r1 = vm.run_fn(f, [Ref(c1), vm.clone_val(delim)]); r2 = vm.run_fn(f, [Ref(c2), vm.clone_val(delim)])
    ck = C07.Checker(vm, d)
    e = obs_eq(vm, r1, r2, c1, c2)
    if e is False: ck.bad('join-depends-on-hash-order', 'join gives different outcomes under two dictionary iteration orders')
    elif e is not True: ck.bad('join-depends-on-hash-order', 'join gives different results under two dictionary iteration orders', e)
    vm.witness = {'join-done'}
    return ck.out


def h_display(vm, mir, third):
    nseq, third, p1, p2 = shape(vm, third)
    # dictionary values render as constant text here (mysterious / null): the rendered entries are then ordered by
    # constant strings, which keeps z3's sequence-order reasoning out of the feasibility checks (it answered unknown)
    a1, items, ents = build_array(vm, nseq, third, (0, 1)); a2, _, _ = build_array(vm, nseq, third, (0, 1))
    tags = {a1.fields[0].box.cell.v.fields[1].order_tag: p1, a2.fields[0].box.cell.v.fields[1].order_tag: p2}
    vm.hash_order = lambda vm_, hm: list(tags.get(hm.order_tag, range(len(hm.entries))))
    frozen = freeze_val(vm, a1)
    def d(m): return {'fn': 'display', 'a': frozen(m), 'orders': [list(p1), list(p2)]}
    vm.describe = d
    from ..std_fmt import display_to_string
    s1 = display_to_string(vm, 'Val', R(a1)); s2 = display_to_string(vm, 'Val', R(a2))
    ck = C07.Checker(vm, d)
    ck.bad('display-depends-on-hash-order', 'the rendered array differs under two dictionary iteration orders', to_sym(s1) == to_sym(s2))
    # equality verdict of the two builds (same content, different internal order) must be "equal"... unless a NaN is inside
    eq = vm.run_fn(fn(mir, 'Val', 'eq', 'PartialEq'), [R(a1), R(a2)])
    eq2 = vm.run_fn(fn(mir, 'Val', 'eq', 'PartialEq'), [R(a2), R(a1)])
    ck.bad('array-eq-depends-on-hash-order', 'array equality is not symmetric under different dictionary orders', as_bool_term(eq) == as_bool_term(eq2))
    # ... and the verdict must be the one obtained when both builds iterate in the same order
    a3, _, _ = build_array(vm, nseq, third, (0, 1)); tags[a3.fields[0].box.cell.v.fields[1].order_tag] = p1
    eq3 = vm.run_fn(fn(mir, 'Val', 'eq', 'PartialEq'), [R(a1), R(a3)])
    ck.bad('array-eq-depends-on-hash-order', 'the equality verdict of two arrays with the same content depends on their dictionary iteration orders', as_bool_term(eq) == as_bool_term(eq3))
    vm.witness = {'display-done'}
    return ck.out


def h_lint(vm, mir):
    """Linter::run twice on the same two-assignment program: every hash container iterated on the way forks over its
    permutations independently in the two runs, so any dependence of the report on hash order shows as a difference"""
    from . import C19
    from ..progrun import text_of
    adt, node, lines = C19.two_assignments(vm, mir)
    d = lambda m: {'tree': node.describe(), 'lines': lines, 'names': C19.names_of(node, m)}
    vm.describe = d
    outs = []
    for k in range(2):
        linter = vm.run_fn(free_fn(mir, 'standard_linter'), [])
        res = vm.run_fn(fn(mir, 'Linter', 'run'), [R(linter), R(adt)])
        outs.append([(x.fields[2], text_of(vm, x.fields[0])) for x in res.fields[0].fields[0].items])
    vm.witness = {'lint-done'}
    if outs[0] != outs[1]:
        m = model_of(vm)
        if m is not None: return [finding('violation', 'lint-report-depends-on-hash-order', f'two runs of the linter on the same program reported {outs[0]} and {outs[1]}', d(m), vm.notes)]
    return []


PROGRAMS = {
 'duplicate-parameters': 'Midnight takes X and Y and X and Y\ngive back 1\n\nsay "before"\nsay Midnight taking 1, 2, 3, 4\n',
 'duplicate-parameters-3': 'Midnight takes X, Y, Z, Z, Y, X\ngive back 1\n\nsay Midnight taking 1, 2, 3, 4, 5, 6\n',
 'dictionary-print': 'Let D at "b" be "1"\nLet D at "a" be "2"\nLet D at null be "3"\nsay D\n',
 'dictionary-join': 'Let D at "b" be "1"\nLet D at "a" be "2"\nJoin D into R\nsay R\n',
 'dictionary-compare': 'Let D at "b" be "1"\nLet D at "a" be "2"\nLet E at "a" be "2"\nLet E at "b" be "1"\nsay D is E\n',
 'dictionary-join-error': 'Let D at "b" be 1\nLet D at "a" be "x"\nLet D at true be 2\nJoin D\n',
 'unknown-names': 'say Ghost plus Phantom\n',
 'redefinition': 'F takes X\ngive back 1\n\nF takes Y\ngive back 2\n\nsay F taking 1\n',
 'array-in-array': 'Let D at "k" be 1\nLet D at "j" be 2\nRock L with D\nsay L\n',
}


def h_program(vm, mir, name):
    """the program is parsed once and executed twice; every hash container iterated on the way forks over its permutations independently
    in the two runs: written lines, outcome and the rendered error must be identical"""
    from ..progrun import parse_in_vm, exec_in_vm, text_of
    from ..std_fmt import display_to_string
    src = PROGRAMS[name]
    d = lambda m: {'program': src}
    vm.describe = d
    r = conc(vm, parse_in_vm(vm, mir, src))
    if r.variant == 1: raise Unmodelled(f'program does not parse: {src!r}')
    runs = []
    for k in range(2):
        res, o, _ = exec_in_vm(vm, mir, r.fields[0])
        res = conc(vm, res)
        err = text_of(vm, display_to_string(vm, 'RuntimeError', R(res.fields[0]))) if res.variant == 1 else None
        runs.append(([text_of(vm, w) for w in o['writes']], err))
    vm.witness = {'program-done'}
    if runs[0] != runs[1]:
        m = model_of(vm)
        if m is not None: return [finding('violation', 'program-depends-on-hash-order', f'two runs of the same program gave {runs[0]} and {runs[1]}', d(m), vm.notes)]
    return []


def h_inventory(vm, mir):
    sites = iteration_sites(mir)
    unknown = [s for s in sites if not any(s[0].endswith('::' + k) or s[0].split('::')[-1] == k for k in KNOWN_SITES)]
    vm.witness = {'inventory-done'}
    vm.notes.append(('hash-iteration-sites', len(sites)))
    if unknown: raise Unmodelled(f'unanalysed hash-container iteration site(s): {unknown[:3]}')
    return None


def jobs(ctx, tier):
    mir = ctx.mir('dev')
    js = [Job('inventory', h_inventory, (mir,), witness=['inventory-done']), Job('lint-report', h_lint, (mir,), witness=['lint-done'], str_mode='bounded', weight=10, fuel=12_000_000)]
    for name in PROGRAMS:
        js.append(Job(f'program/{name}', h_program, (mir, name), witness=['program-done'], str_mode='bounded', weight=8, fuel=20_000_000))
    for third in range(7):
        js.append(Job(f'join/third-key-{third}', h_join, (mir, third), witness=['join-done'], weight=5))
        js.append(Job(f'display/third-key-{third}', h_display, (mir, third), witness=['display-done'], weight=5))
    return js


def validate(ctx):
    return C07.validate(ctx)


def program_for(cex):
    """Rockstar program that builds the array and joins / prints it"""
    a = cex['a']
    lines = []
    def lit(v):
        k = v['kind']
        if k == 'Undefined': return 'mysterious'
        if k == 'Null': return 'null'
        if k == 'Boolean': return 'true' if v['v'] else 'false'
        if k == 'String': return None if ('"' in v['v'] or '\n' in v['v'] or '\r' in v['v']) else '"' + v['v'] + '"'
        if k == 'Number':
            x = bits_f64(v['bits'])
            from ..std_str import rust_fmt_f64
            if x != x or x in (float('inf'), -float('inf')) or x < 0: return None
            s = rust_fmt_f64(x); return s if len(s) < 30 else None
    for i, e in enumerate(a['arr']):
        l = lit(e)
        if l is None: return None
        lines.append(f'Let Arr at {i} be {l}')
    for k, v in a['dict']:
        lk, lv = lit(k), lit(v)
        if lk is None or lv is None: return None
        lines.append(f'Let Arr at {lk} be {lv}')
    if cex['fn'] == 'join':
        if cex.get('b') is not None:
            lb = lit(cex['b'])
            if lb is None: return None
            lines.append(f'Join Arr with {lb}')
        else: lines.append('Join Arr')
        lines.append('Say Arr')
    else:
        lines.append('Say Arr')
    return '\n'.join(lines) + '\n'


def replay(ctx, f):
    """run the generated program in many fresh processes (each has its own hash seed) until two outcomes differ"""
    cex = f.get('cex') or {}
    out = {'reproduced': None}
    if 'program' in cex and 'a' not in cex:
        from ..native import Native
        seen = set()
        for prof in ('dev', 'release'):
            for i in range(48):
                nat = Native(ctx.ws, prof); r = nat.call({'op': 'program', 'src': cex['program'], 'stdin': ''}); nat.close()
                seen.add(json.dumps({k: r.get(k) for k in ('stdout', 'result', 'error_display', 'panic')}, sort_keys=True))
                if len(seen) > 1: break
            if len(seen) > 1: break
        out['distinct_outcomes'] = sorted(seen)[:4]; out['reproduced'] = len(seen) > 1
        return out
    if 'a' not in cex: return out
    from ..native import Native
    seen = set()
    if f['role'].startswith('array-eq'):
        # two independent builds of the same content (each HashMap has its own seed), compared with `is`
        one = program_for(dict(cex, fn='display'))
        if one is None: return out
        body = one.rsplit('Say Arr', 1)[0]
        src = body + body.replace('Arr', 'Brr') + 'Say Arr is Brr\n'
        out['program'] = src
        req = {'op': 'program', 'src': src, 'stdin': ''}
    elif cex['fn'] == 'display':
        src = None; req = {'op': 'val', 'fn': 'build', 'a': cex['a']}      # rendering of the array by its Display impl
    else:
        src = program_for(cex)
        if src is None: return out
        out['program'] = src
        req = {'op': 'program', 'src': src, 'stdin': ''}
    for prof in ('dev', 'release'):
        for i in range(48):
            nat = Native(ctx.ws, prof)
            r = nat.call(req); nat.close()
            if 'val' in r: r = {'stdout': r['val'].get('display')}
            seen.add(json.dumps({k: r.get(k) for k in ('stdout', 'result', 'error_display', 'panic')}, sort_keys=True))
            if len(seen) > 1: break
        if len(seen) > 1: break
    out['distinct_outcomes'] = sorted(seen)[:4]
    out['reproduced'] = len(seen) > 1
    return out
