"""C02 — every spelling of a program parses to the same syntax tree (real lexer + parser from MIR).
(a) metamorphic: base programs covering every statement kind, re-spelled by every keyword alias / phrase alternative, three
    case styles, symbolic ignorable characters and comments at every token boundary, must give the base tree (positions erased);
(b) structural: for every ordered pair of binary operators (and unary / list / subscript / call variants) the parsed tree
    must be the one a reference precedence-climbing parser (written from the ladder in the property) assigns;
(c) block nesting: every control-flow shape of mirsym/progen.py parses to its own skeleton;
(d) literals: number literals denote Python's float of their text, string literals their exact (symbolic) characters."""
import re, itertools
import z3
from .common import *
from .lexcommon import *
from ..harness import Job, finding, model_of
from ..std import conc
from ..progrun import parse_in_vm
from ..astparse import same_tree
from .. import chartab

ID = 'C02'
PROFILES = ['dev']
# ---- the language's spelling table (from the Rockstar rules as this implementation documents them; NOT read from the code)
SLOTS = {
 'put': ['put'], 'into': ['into', 'in'], 'let': ['let'], 'be': ['be'],
 'say': ['say', 'shout', 'whisper', 'scream'],
 'plus': ['plus', 'with', '+'], 'minus': ['minus', 'without', '-'], 'times': ['times', 'of', '*'], 'over': ['over', 'between', '/'],
 'is': ['is', 'are', 'was', 'were', "'s", "'re"],
 'isnot': ['is not', "isn't", 'isnt', "ain't", 'aint', "aren't", 'arent', "wasn't", 'wasnt', "weren't", 'werent', 'are not', "'s not"],
 'gt': ['is greater than', 'is higher than', 'is bigger than', 'is stronger than', 'are greater than', "'s greater than", '>'],
 'lt': ['is less than', 'is lower than', 'is smaller than', 'is weaker than', 'was less than', '<'],
 'ge': ['is as great as', 'is as high as', 'is as big as', 'is as strong as', 'were as great as', '>='],
 'le': ['is as little as', 'is as low as', 'is as small as', 'is as weak as', "'s as little as", '<='],
 'and': ['and'], 'or': ['or'], 'nor': ['nor'], 'not': ['not'],
 'null': ['null', 'nothing', 'nowhere', 'nobody', 'gone'], 'true': ['true', 'right', 'yes', 'ok'], 'false': ['false', 'wrong', 'no', 'lies'],
 'empty': ['empty', 'silent', 'silence'], 'mysterious': ['mysterious'],
 'it': ['it', 'he', 'she', 'him', 'her', 'they', 'them', 'ze', 'hir', 'zie', 'zir', 'xe', 'xem', 've', 'ver'],
 'if': ['if'], 'else': ['else'], 'while': ['while'], 'until': ['until'],
 'break': ['break', 'break it down'], 'continue': ['continue', 'take it to the top'],
 'build': ['build'], 'up': ['up'], 'knock': ['knock'], 'down': ['down'],
 'listen': ['listen'], 'to': ['to'], 'cut': ['cut', 'split', 'shatter'], 'join': ['join', 'unite'], 'cast': ['cast', 'burn'],
 'turn': ['turn'], 'round': ['round', 'around'], 'rock': ['rock'], 'roll': ['roll'], 'like': ['like'], 'with': ['with'],
 'takes': ['takes', 'wants'], 'taking': ['taking'], 'return': ['give back', 'give', 'return', 'send'], 'retback': ['', 'back'], 'at': ['at'],
 'sep': [',', ', and', '&', "'n'", 'and'], 'lsep': [',', ', and'],
 'says': ['says', 'said'],
}
# ---- base programs: {slot} marks a keyword / phrase; everything else is literal text.  A '~' glues the next item to the previous one.
BASE = {
 'assignments': ['{put} 5 {into} X', '{let} Y {be} X {plus} 1', '{let} X {be} {times} 2', '{put} X {minus} 1 {into} my heart', '{let} X {at} 0 {be} Y', '{put} 1 {into} X {at} Y {at} 2', 'X {is} 5', 'X {is} a 57 true 43', 'Tommy {says} hello world', 'X {is} {null}', 'Y {is} {true}', 'Doctor Who {is} {false}', 'Z {is} {empty}', 'W {is} {mysterious}'],
 'output-input': ['{say} X', '{say} X {plus} Y {times} 2', '{listen}', '{listen} {to} X', '{listen} {to} X {at} 1', '{say} {it}'],
 'conditionals': ['{if} X {gt} Y', '{say} 1', '{else}', '{say} 2', '', '{if} X {isnot} 3 {and} Y {le} 2', '{say} 3', '', '{say} 4'],
 'loops': ['{while} X {lt} 10', '{build} X {up}', '{if} X {is} 5', '{break}', '', '{if} X {ge} 7', '{continue}', '', '', '{until} Y {is} {null} {or} {not} Y', '{knock} Y {down} , {down}', '', '{say} X'],
 'mutations': ['{cut} X', '{cut} X {into} Y', '{cut} X {into} Y {with} ","', '{join} Y {with} "-"', '{cast} X', '{cast} "65" {into} Z {with} 16', '{turn} {up} X', '{turn} X {down}', '{turn} {round} X', '{turn} {it} {round}'],
 'arrays': ['{rock} X', '{rock} X {with} 1 {lsep} 2 {lsep} 3', '{rock} X {like} a rolling stone', '{rock} X {like} a formula-1 racer', '{roll} X', '{roll} X {into} Y', '{say} {roll} X', '{let} Y {be} {roll} X', '{say} X {at} 0 {plus} X {at} "k"'],
 'functions': ['Midnight {takes} Hate {sep} Desire', '{say} Hate', '{return} Hate {plus} Desire', '', 'Echo {takes} X', '{return} X {retback}', '', '{say} Midnight {taking} 1 {sep} 2', 'Midnight {taking} X {sep} Y', '{put} Echo {taking} Midnight {taking} 1 {sep} 2 {into} Z'],
 'lists': ['{say} 1 {plus} 2 {lsep} 3 {lsep} 4', '{let} X {be} {minus} 1 {lsep} 2', '{say} X {times} 2 {lsep} 3 {plus} 4', '{say} X {and} Y {lsep} Z'],
 'names': ['{put} 1 {into} my heart', '{put} my heart {into} Your Soul', '{say} Doctor Feelgood {plus} the night', '{build} my heart {up}', '{knock} Doctor Feelgood {down}', '{let} Doctor Bad Wolf {be} the night {times} my heart'],
}
def units_of(base):
    """split a base program into independently parsed units (one statement, or one block up to its closing blank line)"""
    out, cur, depth = [], [], 0
    for line in base:
        cur.append(line)
        if re.match(r'\{(if|while|until)\}', line) or '{takes}' in line: depth += 1
        elif line == '': depth -= 1
        if depth <= 0:
            if any(l for l in cur): out.append(cur)
            cur, depth = [], 0
    if any(l for l in cur): out.append(cur)
    return out


CASES = {'upper': str.upper, 'capital': lambda w: w[:1].upper() + w[1:], 'alternate': lambda w: ''.join(c.upper() if i % 2 else c.lower() for i, c in enumerate(w))}
BOUNDS = {'metamorphic': '%d base programs (all 18 statement kinds, every expression form) x { every alternative of every keyword / phrase slot occurrence (%d slots), 3 case styles for all keywords, one symbolic ignorable character (any blank other than line feed; any ignorable punctuation that is not a token) or a comment or two adjacent comments at every token boundary; CR LF line ends; a symbolic blank before the first token and a symbolic ignorable character after the last token of every line }' % (len(BASE), len(SLOTS)),
          'precedence': 'X op1 Y op2 Z for all 13 x 13 ordered operator pairs (worded and symbolic spellings), plus unary / list / subscript / call variants, against a reference precedence-climbing parser',
          'blocks': 'every control-flow shape of <= 2 (thorough 3) statements incl. break / continue / until (mirsym/progen.py) and every structure-only shape (say / if / if-else / while, nesting <= 3, blocks <= 3 statements) of <= 4 (thorough 5) statements, parsed by the VM-executed parser: statement kinds and block nesting of the parsed tree equal the shape; structure-only shapes of 5 (thorough 6) statements additionally with the natively run parser (plain exhaustive enumeration, listed separately in the evidence)',
          'literals': 'number literals: all texts d, d.d, .d, dd, d.dd, dd.d over digits {0,1,5,9} -> Python float; string literals of 0..=2 symbolic characters (any code point of ASCII ∪ R except the quote) -> exactly those characters'}
OUTSIDE = ['a CR before the LF that ends a poetic string literal (kept in the literal by the implementation; C11 says `exact text up to the end of the line`)', 'chains mixing a worded `is` comparison with a symbolic comparison operator (the ladder of the statement does not settle them)', 'poetic literals beyond two base lines with digit-run chunks (C11)', 'identifier case (C15)', 'programs longer than the base programs']
ASSUMPTIONS = ['char predicates / case mapping exact on ASCII, table from the real std for R', 'str / CharIndices / Option / Vec / itertools models (DESIGN.md §2.4)', 'the spelling table SLOTS of this file is the reference for aliases and phrases']
RULE = 'state = feasible path end of parse() on one spelling; symbolic noise characters / string-literal characters make the lexer fork under the solver; trees are compared structurally with positions erased'
ERASE = ('SourceRange', 'SourceLocation')


# ----------------------------------------------------------------------------------------------------- rendering
def tokens_of(line):
    return line.split(' ') if line else []


def render(base, choice=None, case=None, insert=None):
    """base: list of lines.  choice: {(line, item index): alternative index}; case: function applied to keyword words;
    insert: (line, boundary index, text) adds text between two items.  Returns program text."""
    out = []
    for li, line in enumerate(base):
        items = tokens_of(line); parts = []
        for ii, it in enumerate(items):
            m = re.fullmatch(r'\{(\w+)\}', it)
            if m:
                alts = SLOTS[m.group(1)]
                w = alts[(choice or {}).get((li, ii), 0)]
                if case is not None: w = ' '.join(case(x) if re.fullmatch(r"[A-Za-z']+", x) else x for x in w.split(' '))
            else: w = it
            if insert is not None and insert[0] == li and insert[1] == ii and ii > 0: parts.append(insert[2])
            if w.startswith("'s") or w.startswith("'re"):
                parts.append('~' + w)
            else: parts.append(w)
        s = ''
        for p in parts:
            if p.startswith('~'): s += p[1:]
            elif isinstance(p, str) and p.startswith('\x00'): s += p[1:]        # raw insertion (already carries its own blanks)
            else: s += (' ' if s else '') + p
        out.append(s)
    return '\n'.join(out) + '\n'


def slot_sites(base):
    return [(li, ii, re.fullmatch(r'\{(\w+)\}', it).group(1)) for li, line in enumerate(base) for ii, it in enumerate(tokens_of(line)) if re.fullmatch(r'\{(\w+)\}', it)]


def boundaries(base):
    """(line, item index) positions between two items of a line where noise / comments may be inserted (not before a glued 's)"""
    out = []
    for li, line in enumerate(base):
        items = tokens_of(line); inlit = False
        for ii in range(1, len(items)):
            prev = items[ii - 1]
            if prev in ('{says}', '{like}') or (prev == '{is}' and not items[ii].startswith('{') and not re.fullmatch(r'[\d."]+.*', items[ii])): inlit = True     # poetic literal text follows
            if inlit: continue
            if items[ii] in ('{is}',) and False: continue
            out.append((li, ii))
    return out


_TREES = {}


def vm_parse(mir, text):
    """Program Adt (or None when rejected) of a concrete text, parsed by the real parser's MIR; cached per process"""
    key = (id(mir), text)
    if key not in _TREES:
        from ..vm import VM, Explorer
        sub = VM(mir, Explorer(), fuel=30_000_000); sub.str_mode = 'bounded'
        r = conc(sub, parse_in_vm(sub, mir, text))
        _TREES[key] = (sub, r.fields[0]) if r.variant == 0 else (sub, None)
    return _TREES[key]


def judge_same(vm, mir, base_text, text, describe, role):
    """parse `text` (BStr, possibly with symbolic characters) on this path and compare with the base tree"""
    vm.describe = describe
    sub, t0 = vm_parse(mir, base_text)
    if t0 is None:
        # the base programs are valid Rockstar (the per-run validation compares their parse with the native build; on the unchanged
        # tree they are all accepted): a rejected canonical spelling is itself a violation
        vm.witness = {'judged'}
        m = model_of(vm)
        return [finding('violation', 'base:rejected', 'the canonical spelling of a valid program is rejected', {'text': base_text}, vm.notes)] if m is not None else []
    r = conc(vm, parse_in_vm(vm, mir, text))
    out = []
    def bad(rl, detail):
        m = model_of(vm)
        if m is not None: out.append(finding('violation', rl, detail, describe(m), vm.notes))
    if r.variant == 1:
        from ..std_fmt import display_to_string
        try: msg = display_to_string(vm, 'ParseError', Ref(Cell(r.fields[0]))); msg = msg.concrete() if isinstance(msg, BStr) else str(msg)
        except Exception: msg = '?'
        bad(f'{role}:rejected', f'this spelling is rejected: {msg}')
    else:
        d = same_tree_erased(vm, sub, r.fields[0], t0)
        if d: bad(f'{role}:different-tree', f'tree differs from the canonical spelling at {d}')
    vm.witness = {'judged'}
    return out


def same_tree_erased(vm, sub, a, b, path='Program'):
    """a lives in vm, b in sub (the cached base tree); positions erased"""
    for _ in range(4):
        if isinstance(a, Ref): a = vm.ref_get(a)
        if isinstance(b, Ref): b = sub.ref_get(b)
    if isinstance(a, RcVal) and isinstance(b, RcVal): return same_tree_erased(vm, sub, a.box.cell.v, b.box.cell.v, path)
    if isinstance(a, Adt) and isinstance(b, Adt):
        if a.ty in ERASE and b.ty in ERASE: return None
        if a.ty == 'Box' and b.ty == 'Box': return same_tree_erased(vm, sub, vm.ref_get(vm.box_ptr(a)), sub.ref_get(sub.box_ptr(b)), path)
        if a.ty != b.ty or a.variant != b.variant or len(a.fields) != len(b.fields):
            va = vm.mir.src.enums.get(a.ty, [a.ty] * (a.variant + 1))[a.variant] if a.ty in vm.mir.src.enums else a.ty
            vb = vm.mir.src.enums.get(b.ty, [b.ty] * (b.variant + 1))[b.variant] if b.ty in vm.mir.src.enums else b.ty
            return f'{path}: {a.ty}::{va} vs {b.ty}::{vb}'
        for k, (x, y) in enumerate(zip(a.fields, b.fields)):
            r = same_tree_erased(vm, sub, x, y, f'{path}.{a.ty}.{k}')
            if r: return r
        return None
    if isinstance(a, HList) and isinstance(b, HList):
        if len(a.items) != len(b.items): return f'{path}: list lengths {len(a.items)} vs {len(b.items)}'
        for k, (x, y) in enumerate(zip(a.items, b.items)):
            r = same_tree_erased(vm, sub, x, y, f'{path}[{k}]')
            if r: return r
        return None
    if isinstance(a, BStr) and isinstance(b, BStr):
        ca, cb = a.concrete(), b.concrete()
        if ca is None or cb is None:
            e = str_eq(vm, a, b)
            if e is True: return None
            if e is False or not vm.branch(e): return f'{path}: string differs'
            return None
        return None if ca == cb else f'{path}: {ca!r} vs {cb!r}'
    if isinstance(a, float) and isinstance(b, float):
        import struct
        return None if struct.pack('<d', a) == struct.pack('<d', b) else f'{path}: {a!r} vs {b!r}'
    if type(a) == type(b) and a == b: return None
    if isinstance(a, (int, bool)) and isinstance(b, (int, bool)) and int(a) == int(b): return None
    return f'{path}: {a!r} vs {b!r}'


# ----------------------------------------------------------------------------------------------------- (a) metamorphic
def pick_unit(vm, name):
    us = units_of(BASE[name])
    return us[vm.fork(len(us), note='unit')] if len(us) > 1 else us[0]


def h_alias(vm, mir, name):
    base = pick_unit(vm, name); sites = slot_sites(base)
    opts = [(li, ii, k) for li, ii, s in sites for k in range(1, len(SLOTS[s]))]
    if not opts: raise Infeasible()
    li, ii, k = opts[vm.fork(len(opts), note='slot-alternative')] if len(opts) > 1 else opts[0]
    text = render(base, {(li, ii): k})
    return judge_same(vm, mir, render(base), bstr_from_py(text), lambda m: {'base': name, 'base_text': render(base), 'text': text, 'changed': f'line {li} item {ii} -> {SLOTS[tokens_of(base[li])[ii][1:-1]][k]!r}'}, 'alias')


def h_case(vm, mir, name):
    base = pick_unit(vm, name)
    style = list(CASES)[vm.fork(len(CASES), note='case-style')]
    # every slot alternative index 0 and, second pass, index 1 where it exists (so aliases are re-cased too)
    second = vm.fork(2, note='alias-set') == 1
    choice = {(li, ii): (1 if second and len(SLOTS[s]) > 1 else 0) for li, ii, s in slot_sites(base)}
    text = render(base, choice, case=CASES[style])
    return judge_same(vm, mir, render(base), bstr_from_py(text), lambda m: {'base': name, 'base_text': render(base), 'text': text, 'case': style}, 'case')


def noise_sym(vm, name):
    """one symbolic ignorable character: any white space of ASCII ∪ R other than LF (incl. VT, NBSP, U+2028), or any ignorable punctuation that is not a token"""
    c = z3.BitVec(name, 32); vm.keep.append(c)
    k = vm.fork(4, note=name + '.class')
    w = 1
    if k == 0: vm.assume(z3.And(chartab.is_whitespace(c), z3.ULT(c, 128), c != 10))
    elif k == 1:
        dom = [ord(x) for x in '!#$%:;?@[\\]^`{|}~']
        vm.assume(z3.Or(*[c == v for v in dom])); vm.domains[c.get_id()] = set(dom)
    elif k == 2: vm.assume(c == 0xA0); vm.domains[c.get_id()] = {0xA0}; w = 2
    else: vm.assume(c == 0x2028); vm.domains[c.get_id()] = {0x2028}; w = 3
    if not hasattr(vm, 'cp_width'): vm.cp_width = {}
    vm.cp_width[c.get_id()] = w
    return c


def h_layout(vm, mir, name, kind):
    """line-level layout: CR LF line ends, a symbolic blank (any ignorable white space) before the first token of a line, a symbolic
    ignorable character after its last token"""
    base = pick_unit(vm, name)
    text0 = render(base)
    if kind == 'crlf':
        # a poetic string literal is `the exact text up to the end of the line` (C11): whether the CR of a CR LF line end belongs to it is
        # not settled by the properties, so such lines keep their LF
        text = '\n'.join(l if ' says ' in l else l + '\r' for l in text0.split('\n')[:-1]) + '\n'
        text = text.replace('\r\n', '\r\n'); b = bstr_from_py(text)
        d = lambda m: {'base': name, 'base_text': text0, 'text': text, 'layout': 'CR LF line ends'}
    else:
        lines = text0.split('\n')
        cand = [i for i, l in enumerate(lines) if l and not any(w in l for w in (' says ', ' like '))]     # not inside poetic literal text
        if not cand: raise Infeasible()
        li = cand[vm.fork(len(cand), note='line')] if len(cand) > 1 else cand[0]
        c = noise_sym(vm, 'noise') if kind == 'trailing' else None
        if kind == 'indent':
            c = z3.BitVec('indent', 32); vm.keep.append(c); vm.assume(z3.And(chartab.is_ascii_whitespace(c), c != 10))
            if not hasattr(vm, 'cp_width'): vm.cp_width = {}
            vm.cp_width[c.get_id()] = 1
        cps = []
        for i, l in enumerate(lines):
            if i == li and kind == 'indent': cps.append(c)
            cps += [ord(ch) for ch in l]
            if i == li and kind == 'trailing': cps += [32, c]
            if i < len(lines) - 1: cps.append(10)
        b = BStr(Buf(cps, [vm.cp_width.get(x.get_id(), 1) if not isinstance(x, int) else utf8_len(x) for x in cps]))
        d = lambda m: {'base': name, 'base_text': text0, 'text': ''.join(chr(x if isinstance(x, int) else m.eval(x, model_completion=True).as_long()) for x in cps), 'layout': kind}
    return judge_same(vm, mir, text0, b, d, 'layout-' + kind)


def h_noise(vm, mir, name, kind):
    base = pick_unit(vm, name); bs = boundaries(base)
    if not bs: raise Infeasible()
    li, ii = bs[vm.fork(len(bs), note='boundary')] if len(bs) > 1 else bs[0]
    if kind in ('char', 'char-glued'):
        mark = '\x01'
        text = render(base, insert=(li, ii, mark))
        if kind == 'char-glued': text = text.replace(' \x01 ', '\x01')
        c = noise_sym(vm, 'noise')
        cps = [c if ch == mark else ord(ch) for ch in text]
        b = BStr(Buf(cps, [vm.cp_width.get(x.get_id(), 1) if not isinstance(x, int) else utf8_len(x) for x in cps]))
        d = lambda m: {'base': name, 'base_text': render(base), 'text': ''.join(chr(x if isinstance(x, int) else m.eval(x, model_completion=True).as_long()) for x in cps), 'inserted-at': [li, ii]}
    else:
        ins = {'comment': '(a comment)', 'two-comments': '(one) (two)', 'glued-comments': '(one)(two)', 'multi-line-comment': '(one\ntwo)'}[kind]
        text = render(base, insert=(li, ii, ins)); b = bstr_from_py(text)
        d = lambda m: {'base': name, 'base_text': render(base), 'text': text, 'inserted-at': [li, ii]}
    return judge_same(vm, mir, render(base), b, d, kind)


# ----------------------------------------------------------------------------------------------------- (b) structure
BIN = {  # operator name -> (level, [spellings])
 'And': (0, ['and']), 'Or': (0, ['or']), 'Nor': (0, ['nor']),
 'Eq': (1, ['is']), 'NotEq': (1, ['is not', "isn't"]), 'Greater': (1, ['is greater than', '>']), 'GreaterEq': (1, ['is as great as', '>=']), 'Less': (1, ['is less than', '<']), 'LessEq': (1, ['is as little as', '<=']),
 'Plus': (2, ['plus', 'with', '+']), 'Minus': (2, ['minus', '-']), 'Multiply': (3, ['times', '*']), 'Divide': (3, ['over', '/']),
}
WORDED_IS = lambda sp: sp == 'is' or sp.startswith('is ')          # `isn't` & co. are single tokens of the symbolic family


def ref_parse(toks):
    """reference precedence climbing over abstract tokens: ('op', name) ('un', name) ('id', text) ('at',) ('comma',) ; returns sig"""
    pos = [0]
    def peek(): return toks[pos[0]] if pos[0] < len(toks) else None
    def take(): pos[0] += 1; return toks[pos[0] - 1]
    inlist = [False]
    def lst(nextf):
        first = nextf(); rest = []
        if not inlist[0]:
            inlist[0] = True
            while peek() == ('comma',):
                take(); rest.append(nextf())
        inlist[0] = False
        return [first] + rest
    def level(k):
        if k == 4: return unary()
        e = level(k + 1)
        while peek() and peek()[0] == 'op' and BIN[peek()[1]][0] == k:
            op = take()[1]
            if k == 1 and worded_flags.pop(0): rhs = [level(2)]           # worded `is` comparisons take one term, no list
            else: rhs = lst(lambda: level(k + 1))
            e = ('bin', op, e, rhs)
        return e
    def unary():
        if peek() and peek()[0] == 'un': return ('un', take()[1], unary())
        return primary()
    def primary():
        t = take(); e = ('var', t[1])
        while peek() == ('at',):
            take(); s = take(); e = ('at', e, ('var', s[1]))
        return e
    worded_flags = []
    def run(worded):
        worded_flags[:] = list(worded)
        e = level(0)
        if pos[0] != len(toks): raise ValueError('reference parser did not consume everything')
        return e
    return run


class Sig:
    """signature of a parsed Expression Adt (field names from the current source)"""
    def __init__(self, vm, mir): self.vm, self.e, self.s = vm, mir.src.enums, mir.src.structs

    def d(self, v):
        vm = self.vm
        for _ in range(6):
            if isinstance(v, Ref): v = vm.ref_get(v)
            elif isinstance(v, RcVal): v = v.box.cell.v
            elif isinstance(v, Adt) and v.ty == 'Box': v = vm.ref_get(vm.box_ptr(v))
            else: break
        return v

    def f(self, adt, name): adt = self.d(adt); return self.d(adt.fields[self.s[adt.ty].index(name)])

    def var(self, adt): adt = self.d(adt); return self.e[adt.ty][adt.variant]

    def expr(self, x):
        x = self.d(x); k = self.var(x); p = self.d(x.fields[0])
        if k == 'PrimaryExpression': return self.primary(p)
        if k == 'BinaryExpression':
            rl = self.f(p, 'rhs')
            rhs = [self.expr(self.f(rl, 'first'))] + [self.expr(y) for y in self.d(self.f(rl, 'rest').fields[0]).items]
            return ('bin', self.var(self.f(p, 'operator')), self.expr(self.f(p, 'lhs')), rhs)
        if k == 'UnaryExpression': return ('un', self.var(self.f(p, 'operator')), self.expr(self.f(p, 'operand')))
        raise Unmodelled('expression kind ' + k)

    def primary(self, p):
        p = self.d(p); k = self.var(p); q = self.d(p.fields[0])
        if k == 'Identifier':
            i = self.d(q.fields[0])
            if self.var(i) == 'Pronoun': return ('pronoun',)
            return ('var', self.name(i.fields[0]))
        if k == 'Literal':
            l = self.d(q.fields[0]); lk = self.var(l)
            return ('lit', lk, l.fields[0] if l.fields else None)
        if k == 'ArraySubscript': return ('at', self.primary(self.f(q, 'array')), self.primary(self.f(q, 'subscript')))
        if k == 'FunctionCall': return ('call', self.name(self.d(self.f(q, 'name')).fields[0]), [self.expr(a) for a in self.d(self.f(q, 'args').fields[0]).items])
        if k == 'ArrayPop': return ('roll', self.primary(self.f(q, 'array')))
        raise Unmodelled('primary kind ' + k)

    def name(self, vn):
        vn = self.d(vn); k = self.var(vn); i = self.d(vn.fields[0])
        if k == 'Simple': return self.d(i.fields[0]).concrete()
        if k == 'Common': return self.d(i.fields[0]).concrete() + ' ' + self.d(i.fields[1]).concrete()
        return ' '.join(self.d(w).concrete() for w in self.d(i.fields[0].fields[0]).items)

    def statements(self, prog):
        """[(kind, adt)] of the top-level statements (all blocks concatenated)"""
        out = []
        for b in self.d(self.f(prog, 'code').fields[0]).items: out += self.block(b)
        return out

    def block(self, b):
        b = self.d(b)
        if self.var(b) == 'Empty': return []
        return [(self.var(s), self.d(self.d(s).fields[0])) for s in self.d(b.fields[0].fields[0]).items]


EXPR_FORMS = None


def expr_cases():
    """[(text, abstract tokens, worded flags of the comparison operators in order)]"""
    out = []
    ops = list(BIN)
    def mk(items):
        """items: 'X' | ('op', name, spelling) | ('un', name) | 'at' | ','  ->  (text, tokens, worded)"""
        words, toks, worded = [], [], []
        for it in items:
            if isinstance(it, tuple) and it[0] == 'op':
                words.append(it[2]); toks.append(('op', it[1]))
                if BIN[it[1]][0] == 1: worded.append(WORDED_IS(it[2]))
            elif isinstance(it, tuple): words.append({'Not': 'not', 'Minus': '-'}[it[1]]); toks.append(it)
            elif it == 'at': words.append('at'); toks.append(('at',))
            elif it in (',', ', and'): words[-1] += it; toks.append(('comma',))
            else: words.append(it); toks.append(('id', it))
        # a chain that mixes worded `is` comparisons with symbolic-family comparisons is outside
        return ('say ' + ' '.join(words), toks, worded)
    def mixed(case): return len(set(case[2])) > 1
    for o1 in ops:
        for o2 in ops:
            for s1 in BIN[o1][1]:
                for s2 in BIN[o2][1]:
                    if s1 != BIN[o1][1][0] and s2 != BIN[o2][1][0] and (o1, o2) not in (('Plus', 'Multiply'), ('Greater', 'Less')): continue     # alternate spellings one side at a time
                    c = mk(['X', ('op', o1, s1), 'Y', ('op', o2, s2), 'Z'])
                    if not mixed(c): out.append(c)
    for o1 in ops:
        for s1 in BIN[o1][1][:2]:
            op = ('op', o1, s1)
            cs = [mk([('un', 'Not'), 'X', op, 'Y'])] + ([] if s1 == 'is' else [mk(['X', op, ('un', 'Not'), 'Y'])]) + [ mk(['X', op, ('un', 'Minus'), 'Y']), mk(['X', 'at', 'Y', op, 'Z', 'at', 'W']), mk(['X', 'at', 'Y', 'at', 'Z', op, 'W'])]     # `X is not Y` is the NotEq phrase, not Eq applied to a negation
            if not (BIN[o1][0] == 1 and WORDED_IS(s1)):
                cs += [mk(['X', op, 'Y', ',', 'Z']), mk(['X', op, 'Y', ', and', 'Z', ',', 'W'])]
                for o2, s2 in (('Plus', 'plus'), ('Multiply', 'times'), ('And', 'and'), ('Less', '<'), ('Eq', 'is')):
                    cs += [mk(['X', op, 'Y', ('op', o2, s2), 'Z', ',', 'W']), mk(['X', op, 'Y', ',', 'Z', ('op', o2, s2), 'W'])]
            out += [c for c in cs if not mixed(c)]
    out.append(mk([('un', 'Not'), ('un', 'Not'), 'X']))
    out.append(mk([('un', 'Minus'), ('un', 'Minus'), 'X']))
    ok = []
    for c in out:
        try: ref_parse(c[1])(c[2]); ok.append(c)
        except ValueError: pass          # not a sentence of the reference grammar (a list after a worded comparison)
    return ok


def h_expr(vm, mir, cases):
    text, toks, worded = cases[vm.fork(len(cases), note='expression')] if len(cases) > 1 else cases[0]
    describe = lambda m: {'text': text}
    vm.describe = describe
    out = []
    def bad(rl, detail):
        m = model_of(vm)
        if m is not None: out.append(finding('violation', rl, detail, describe(m), vm.notes))
    try: want = ref_parse(toks)(worded)
    except Exception as e: raise Unmodelled(f'reference parser failed on {text!r}: {e}')
    r = conc(vm, parse_in_vm(vm, mir, text + '\n'))
    vm.witness = {'judged'}
    if r.variant == 1: bad('precedence:rejected', 'a well-formed expression is rejected'); return out
    sg = Sig(vm, mir); st = sg.statements(r.fields[0])
    if len(st) != 1 or st[0][0] != 'Output': bad('precedence:statement', f'expected one Output statement, got {[k for k, _ in st]}'); return out
    got = sg.expr(sg.f(st[0][1], 'value'))
    if got != want: bad('precedence:different-tree', f'parsed as {got}, the ladder assigns {want}')
    return out


# ----------------------------------------------------------------------------------------------------- (c) block nesting
def skeleton_of_shape(b):
    out = []
    for s in b:
        k = s[0]
        if k == 'say': out.append('Output')
        elif k == 'err': out.append('Output')
        elif k == 'break': out.append('Break')
        elif k == 'continue': out.append('Continue')
        elif k == 'if': out.append(('If', skeleton_of_shape(s[1]), None if s[2] is None else skeleton_of_shape(s[2])))
        elif k == 'fn': out.append(('Function', skeleton_of_shape(s[1]) + ['Return']))
        else: out += ['PoeticAssignment', ('While' if k == 'while' else 'Until', ['Inc'] + skeleton_of_shape(s[1]))]
    return out


def h_blocks(vm, mir, shapes):
    text, shape = shapes[vm.fork(len(shapes), note='shape')] if len(shapes) > 1 else shapes[0]
    describe = lambda m: {'text': text}
    vm.describe = describe
    out = []
    def bad(rl, detail):
        m = model_of(vm)
        if m is not None: out.append(finding('violation', rl, detail, describe(m), vm.notes))
    r = conc(vm, parse_in_vm(vm, mir, text))
    vm.witness = {'judged'}
    if r.variant == 1: bad('blocks:rejected', 'a well-formed block structure is rejected'); return out
    sg = Sig(vm, mir)
    def skel(stmts):
        o = []
        for k, a in stmts:
            if k == 'If':
                eb = sg.d(sg.f(a, 'else_block'))
                o.append(('If', skel(sg.block(sg.f(a, 'then_block'))), None if eb.variant == 0 else skel(sg.block(eb.fields[0]))))
            elif k in ('While', 'Until'): o.append((k, skel(sg.block(sg.f(a, 'block')))))
            elif k == 'Function': o.append((k, skel(sg.block(sg.f(sg.f(a, 'data'), 'body')))))
            else: o.append(k)
        return o
    got = skel(sg.statements(r.fields[0])); want = skeleton_of_shape(shape) + ['Output']
    if got != want: bad('blocks:different-nesting', f'parsed as {got}, the layout means {want}')
    return out


import functools


@functools.lru_cache(None)
def _st(n, depth):
    """structure-only statements of size n: say / if / if-else / while (no break / continue / error statements)"""
    out = []
    if n == 1: out += [('say',), ('if', (), None)]
    if depth <= 0: return tuple(out)
    for b in _bl(n - 1, depth - 1):
        if b: out += [('if', b, None), ('while', b)]
    for k in range(0, n):
        for t in _bl(k, depth - 1):
            for e in _bl(n - 1 - k, depth - 1):
                if t or e: out.append(('if', t, e))
    return tuple(out)


@functools.lru_cache(None)
def _bl(n, depth, maxlen=3):
    if n == 0: return ((),)
    res = []
    def rec(rem, acc):
        if rem == 0: res.append(tuple(acc)); return
        if len(acc) >= maxlen: return
        for k in range(1, rem + 1):
            for st in _st(k, depth):
                if acc and acc[-1] == ('say',) and st == ('say',): continue
                rec(rem - k, acc + [st])
    rec(n, [])
    return tuple(res)


def structure_shapes(lo, hi):
    """[(text, shape)] for every structure-only top-level block of size lo..=hi (nesting <= 3, block length <= 3)"""
    from .. import progen
    out = []
    for n in range(lo, hi + 1):
        for b in _bl(n, 3):
            r = progen._R()
            try: r.block(b, None)
            except OverflowError: continue
            r.lines.append(r.marker())
            out.append(('\n'.join(r.lines) + '\n', b))
    return out


def function_shapes(lo, hi):
    """every structure shape of size lo..=hi as the body of a function, followed by a return, the blank line that ends the body and
    more top-level code.  Shapes with an if-else directly in the body are left out: in this grammar that position ends the body."""
    from .. import progen
    out = []
    for n in range(lo, hi + 1):
        for b in _bl(n, 3):
            if any(st[0] == 'if' and st[2] is not None for st in b): continue
            r = progen._R()
            r.lines.append('Fn takes P')
            try: r.block(b, None)
            except OverflowError: continue
            r.lines += ['give back P', '', r.marker()]
            out.append(('\n'.join(r.lines) + '\n', (('fn', b),)))
    return out


def native_structure_check(ctx, lo, hi):
    """the same skeleton check on larger shapes with the real parser run natively (tree rebuilt by mirsym/astparse.py): exhaustive
    enumeration of concrete runs, reported separately from the solver-decided / VM-executed parts"""
    from ..vm import VM, Explorer
    from ..astparse import program_from_debug
    mir = ctx.mir('dev'); nat = ctx.native('dev'); bad = []; n = 0
    vm = VM(mir, Explorer()); vm.str_mode = 'bounded'
    sg = Sig(vm, mir)
    def skel(stmts):
        o = []
        for k, a in stmts:
            if k == 'If':
                eb = sg.d(sg.f(a, 'else_block'))
                o.append(('If', skel(sg.block(sg.f(a, 'then_block'))), None if eb.variant == 0 else skel(sg.block(eb.fields[0]))))
            elif k in ('While', 'Until'): o.append((k, skel(sg.block(sg.f(a, 'block')))))
            elif k == 'Function': o.append((k, skel(sg.block(sg.f(sg.f(a, 'data'), 'body')))))
            else: o.append(k)
        return o
    for text, shape in structure_shapes(lo, hi):
        n += 1
        r = nat.call({'op': 'parse', 'src': text}, timeout=20)
        want = skeleton_of_shape(shape) + ['Output']
        if not r.get('ok'): bad.append((text, 'rejected: ' + str(r.get('error'))[:80])); continue
        got = skel(sg.statements(program_from_debug(vm, mir, r['ast'])))
        if got != want: bad.append((text, f'parsed as {got}, the layout means {want}'))
    return n, bad


def block_shapes(size):
    from .. import progen
    progen.LOOPS, progen.ERR = ('while', 'until'), False
    out = []
    for n in range(1, size + 1):
        for b in progen._blocks(n, 3, False, 3):
            r = progen._R()
            try: r.block(b, None)
            except OverflowError: continue
            r.lines.append(r.marker())
            out.append(('\n'.join(r.lines) + '\n', b))
    return out


# ----------------------------------------------------------------------------------------------------- (d) literals
def number_texts():
    ds = '0159'; out = []
    for a in ds:
        out += [a, '.' + a, a + '.' + a]
        for b in ds: out += [a + b, a + '.' + a + b, a + b + '.' + a]
    # long numerals: the written value must be the correctly rounded double (beyond 15-17 significant digits a hand-rolled accumulator is not)
    out += ['9223372036854775807', '12345678901234567890', '99999999999999999999', '123456789012345678', '18014398509481985', '9007199254740993',
            '3.14159265358979323846', '123456789.123456789', '100000000000000000000000', '0.1', '1.50', '00012']
    return sorted(set(out))


def h_number(vm, mir, texts):
    t = texts[vm.fork(len(texts), note='number')]
    text = f'say {t}\nPut {t} into X\nsay 1 plus {t}\n'
    describe = lambda m: {'text': text}
    vm.describe = describe
    out = []
    def bad(rl, detail):
        m = model_of(vm)
        if m is not None: out.append(finding('violation', rl, detail, describe(m), vm.notes))
    r = conc(vm, parse_in_vm(vm, mir, text)); vm.witness = {'judged'}
    if r.variant == 1: bad('literal:rejected', f'number literal {t} is rejected'); return out
    sg = Sig(vm, mir); st = sg.statements(r.fields[0])
    got = sg.expr(sg.f(st[0][1], 'value')) if st and st[0][0] == 'Output' else None
    want = ('lit', 'Number', float(t))
    if got != want: bad('literal:number-value', f'{t} parsed as {got}')
    return out


def h_string(vm, mir, n):
    """say "<n symbolic characters>" : the literal's value must be exactly those characters"""
    mid = sym_text(vm, n, name='s')
    for c in mid.buf.cps:
        if not isinstance(c, int): vm.assume(c != 34)
        elif c == 34: raise Infeasible()
    pre, post = 'say "', '"\n'
    cps = [ord(c) for c in pre] + mid.buf.cps + [ord(c) for c in post]
    text = BStr(Buf(cps, [1] * len(pre) + mid.buf.widths + [1] * len(post)))
    describe = text_cex(text)
    vm.describe = describe
    out = []
    def bad(rl, detail, prop=None):
        if prop is None: m = model_of(vm)
        else:
            v = vm.must_hold(prop, rl); m = v.model if v is not None else None
        if m is not None: out.append(finding('violation', rl, detail, describe(m), vm.notes))
    r = conc(vm, parse_in_vm(vm, mir, text)); vm.witness = {'judged'}
    if r.variant == 1: bad('literal:rejected', 'a string literal is rejected'); return out
    sg = Sig(vm, mir); st = sg.statements(r.fields[0])
    got = sg.expr(sg.f(st[0][1], 'value')) if st and st[0][0] == 'Output' else None
    if not got or got[0] != 'lit' or got[1] != 'String': bad('literal:string-kind', f'parsed as {got}'); return out
    e = str_eq(vm, sg.d(got[2]), mid)
    if e is False: bad('literal:string-value', 'the literal does not denote its written characters')
    elif e is not True: bad('literal:string-value', 'the literal does not denote its written characters', e)
    return out


# ----------------------------------------------------------------------------------------------------- jobs
def jobs(ctx, tier):
    from ..progen import chunks
    mir = ctx.mir('dev'); js = []
    q = tier == 'quick'
    for name in BASE:
        js.append(Job(f'alias/{name}', h_alias, (mir, name), witness=['judged'], str_mode='bounded', fuel=30_000_000, weight=60))
        js.append(Job(f'case/{name}', h_case, (mir, name), witness=['judged'], str_mode='bounded', fuel=30_000_000, weight=20))
        for kind in ('char', 'char-glued', 'comment', 'two-comments') + (() if q else ('glued-comments', 'multi-line-comment')):
            js.append(Job(f'{kind}/{name}', h_noise, (mir, name, kind), witness=['judged'], str_mode='bounded', fuel=30_000_000, weight=60))
    for name in BASE:
        for kind in ('crlf', 'indent', 'trailing'):
            js.append(Job(f'layout-{kind}/{name}', h_layout, (mir, name, kind), witness=['judged'], str_mode='bounded', fuel=30_000_000, weight=30))
    for k, ch in enumerate(chunks(expr_cases(), 16)):
        js.append(Job(f'precedence/{k}', h_expr, (mir, ch), witness=['judged'], str_mode='bounded', fuel=30_000_000, weight=10))
    for k, ch in enumerate(chunks(block_shapes(2 if q else 3), 8)):
        js.append(Job(f'blocks/{k}', h_blocks, (mir, ch), witness=['judged'], str_mode='bounded', fuel=30_000_000, weight=10))
    for k, ch in enumerate(chunks(structure_shapes(1, 4 if q else 5), 12)):
        js.append(Job(f'structure/{k}', h_blocks, (mir, ch), witness=['judged'], str_mode='bounded', fuel=30_000_000, weight=12))
    for k, ch in enumerate(chunks(function_shapes(1, 4 if q else 5), 12)):
        js.append(Job(f'structure-in-function/{k}', h_blocks, (mir, ch), witness=['judged'], str_mode='bounded', fuel=30_000_000, weight=12))
    for k, ch in enumerate(chunks(number_texts(), 8)):
        js.append(Job(f'numbers/{k}', h_number, (mir, ch), witness=['judged'], str_mode='bounded', fuel=30_000_000, weight=5))
    for n in range(0, 3):
        js.append(Job(f'string-literal/{n}', h_string, (mir, n), witness=['judged'], str_mode='bounded', fuel=30_000_000, weight=30))
    return js


def post_check(ctx, results):
    n, bad = native_structure_check(ctx, 5, 5) if ctx.tier == 'quick' else native_structure_check(ctx, 6, 6)
    return {'native_structure_shapes': n, 'native_structure_mismatches': [list(b) for b in bad[:10]], 'violations': [{'role': 'blocks:different-nesting', 'detail': d, 'cex': {'text': t}} for t, d in bad[:5]]}


def validate(ctx):
    """VM parse == native parse (outcome and, via astparse, the whole tree incl. positions) on the base programs and a sample of spellings"""
    from ..vm import VM, Explorer
    from ..astparse import program_from_debug, same_tree
    mir = ctx.mir('dev'); nat = ctx.native('dev'); good, bad = 0, []
    texts = [render(b) for b in BASE.values()] + [render(b, {(li, ii): 1 for li, ii, s in slot_sites(b) if len(SLOTS[s]) > 1}) for b in BASE.values()] + [t + '\n' for t, _, _ in expr_cases()[::40]]
    for src in texts:
        nv = nat.call({'op': 'parse', 'src': src}, timeout=20)
        vm = VM(mir, Explorer(), fuel=30_000_000); vm.str_mode = 'bounded'
        try:
            r = conc(vm, parse_in_vm(vm, mir, src))
            if r.variant == 1: okk = not nv.get('ok')
            elif not nv.get('ok'): okk = False
            else: okk = same_tree(vm, r.fields[0], program_from_debug(vm, mir, nv['ast'])) is None
        except Exception as e: okk = False; nv = dict(nv, vm_exception=f'{type(e).__name__}: {e}')
        if okk: good += 1
        else: bad.append({'parse': src, 'native': {k: str(v)[:200] for k, v in nv.items()}})
    return good, bad


def replay(ctx, f):
    cex = f.get('cex') or {}
    out = {'reproduced': None}
    if f.get('native_found'): return {'reproduced': True, 'note': 'found by the natively executed parser'}
    if 'text' not in cex: return out
    erase = lambda s: re.sub(r'SourceRange \{ start: SourceLocation \{ line: \d+, column: \d+ \}, end: SourceLocation \{ line: \d+, column: \d+ \} \}|SourceLocation \{ line: \d+, column: \d+ \}', '_', s or '')
    res = {}
    for prof in ('dev', 'release'):
        nat = ctx.native(prof)
        nv = nat.call({'op': 'parse', 'src': cex['text']}, timeout=10)
        if f['role'].endswith(':rejected'): res[prof] = not nv.get('ok')
        elif 'base_text' in cex:
            nb = nat.call({'op': 'parse', 'src': cex['base_text']}, timeout=10)
            res[prof] = (not nv.get('ok')) or erase(nv.get('ast')) != erase(nb.get('ast'))
        else: res[prof] = None          # structural expectations are judged on the VM tree only
        out[prof + '_native'] = {'ok': nv.get('ok'), 'error': nv.get('error')}
    vals = [v for v in res.values() if v is not None]
    out.update(res); out['reproduced'] = any(vals) if vals else None
    return out
