"""Program values from the *native* parser: the helper parses the text with the compiled real parser and prints the tree
with its derived Debug; this module rebuilds the VM's value of that tree, type-directed by the struct / enum tables read
from the current source (the same tables astgen uses).  ~100x faster than executing the parser's MIR, which matters for
the program-level properties (their subject is the interpreter, not the parser).  The per-run translator validation
compares this construction with the tree the VM obtains by *executing* the parser on the repository's own test programs."""
from .mir import type_head
from .values import *
from .strings import *


class DebugSyntax(Exception): pass


class DebugParser:
    def __init__(self, vm, mir, text):
        self.vm, self.src, self.t, self.i = vm, mir.src, text, 0

    # ---- lexical helpers
    def ws(self):
        while self.i < len(self.t) and self.t[self.i] in ' \n': self.i += 1

    def peek(self, s):
        self.ws(); return self.t.startswith(s, self.i)

    def eat(self, s):
        self.ws()
        if not self.t.startswith(s, self.i): raise DebugSyntax(f'expected {s!r} at {self.i}: {self.t[self.i:self.i + 40]!r}')
        self.i += len(s)

    def ident(self):
        self.ws(); j = self.i
        while j < len(self.t) and (self.t[j].isalnum() or self.t[j] == '_'): j += 1
        if j == self.i: raise DebugSyntax(f'identifier expected at {self.i}: {self.t[self.i:self.i + 40]!r}')
        s = self.t[self.i:j]; self.i = j; return s

    def string(self):
        self.eat('"'); out = []
        t = self.t
        while True:
            c = t[self.i]
            if c == '"': self.i += 1; break
            if c == '\\':
                e = t[self.i + 1]
                if e == 'u':
                    j = t.index('}', self.i); out.append(chr(int(t[self.i + 3:j], 16))); self.i = j + 1; continue
                out.append({'n': '\n', 'r': '\r', 't': '\t', '0': '\0', '\\': '\\', '"': '"', "'": "'"}[e]); self.i += 2; continue
            out.append(c); self.i += 1
        return ''.join(out)

    def number(self):
        self.ws(); j = self.i
        while j < len(self.t) and (self.t[j].isalnum() or self.t[j] in '+-._'): j += 1
        s = self.t[self.i:j]; self.i = j; return s

    # ---- type-directed values
    def fields(self, spec):
        """spec = [(name | index, type)]; parses `{ a: v, b: v }` or `(v, v)` or nothing"""
        if not spec: return []
        vals = []
        named = isinstance(spec[0][0], str) and not str(spec[0][0]).isdigit()
        if named:
            self.eat('{')
            for k, (fname, fty) in enumerate(spec):
                if k: self.eat(',')
                got = self.ident()
                if got != fname: raise DebugSyntax(f'field {fname} expected, found {got}')
                self.eat(':'); vals.append(self.value(fty))
            self.eat('}')
        else:
            self.eat('(')
            for k, (_, fty) in enumerate(spec):
                if k: self.eat(',')
                vals.append(self.value(fty))
            self.eat(')')
        return vals

    def value(self, ty):
        vm = self.vm
        head, args = type_head(ty)
        if head == 'String' or ty == 'String': return bstr_from_py(self.string())
        if ty == 'f64': return float(self.number())
        if ty == 'bool':
            w = self.ident()
            if w not in ('true', 'false'): raise DebugSyntax('bool expected')
            return w == 'true'
        if ty in ('isize', 'usize', 'u32', 'i32', 'u64', 'i64', 'u8'): return int(self.number())
        if head == 'Box': return vm.new_box(self.value(args[0]))
        if head in ('Arc', 'Rc'): return RcVal(RcBox(self.value(args[0])), head)
        if head == 'Option':
            w = self.ident()
            if w == 'None': return Adt('Option', 0, [])
            if w != 'Some': raise DebugSyntax('Option expected')
            self.eat('('); v = self.value(args[0]); self.eat(')')
            return Adt('Option', 1, [v])
        if head == 'Vec':
            self.eat('['); items = []
            while not self.peek(']'):
                if items: self.eat(',')
                items.append(self.value(args[0]))
            self.eat(']')
            return Adt('Vec', 0, [HList(items)])
        if head in self.src.enums and (head, self.src.enums[head][0]) in self.src.variant_types:
            vname = self.ident()
            vs = self.src.enums[head]
            if vname not in vs: raise DebugSyntax(f'{vname} is not a variant of {head}')
            spec = self.subst(self.src.variant_types[(head, vname)], head, args)
            return Adt(head, vs.index(vname), self.fields(spec))
        if head in self.src.struct_types:
            name = self.ident()
            if name != head: raise DebugSyntax(f'struct {head} expected, found {name}')
            spec = self.subst(self.src.struct_types[head], head, args)
            return Adt(head, 0, self.fields(spec))
        raise Unmodelled(f'astparse: type {ty}')

    def subst(self, spec, head, args):
        gens = self.src.struct_generics.get(head) if hasattr(self.src, 'struct_generics') else None
        if not gens or not args: return spec
        m = dict(zip(gens, args))
        import re
        return [(n, re.sub(r'\b(' + '|'.join(map(re.escape, m)) + r')\b', lambda mo: m[mo.group(1)], t)) for n, t in spec]


def program_from_debug(vm, mir, text):
    p = DebugParser(vm, mir, text)
    v = p.value('Program'); p.ws()
    if p.i != len(text): raise DebugSyntax(f'trailing text at {p.i}')
    return v


def same_tree(vm, a, b, path='root'):
    """deep comparison of two VM values (None if equal, else the first differing path)"""
    for _ in range(4):
        if isinstance(a, Ref): a = vm.ref_get(a)
        if isinstance(b, Ref): b = vm.ref_get(b)
    if isinstance(a, RcVal) and isinstance(b, RcVal): return same_tree(vm, a.box.cell.v, b.box.cell.v, path)
    if isinstance(a, Adt) and isinstance(b, Adt):
        if a.ty == 'Box' and b.ty == 'Box': return same_tree(vm, vm.ref_get(vm.box_ptr(a)), vm.ref_get(vm.box_ptr(b)), path)
        if a.ty != b.ty or a.variant != b.variant or len(a.fields) != len(b.fields): return f'{path}: {a.ty}#{a.variant} vs {b.ty}#{b.variant}'
        for k, (x, y) in enumerate(zip(a.fields, b.fields)):
            r = same_tree(vm, x, y, f'{path}.{a.ty}.{k}')
            if r: return r
        return None
    if isinstance(a, HList) and isinstance(b, HList):
        if len(a.items) != len(b.items): return f'{path}: list lengths {len(a.items)} vs {len(b.items)}'
        for k, (x, y) in enumerate(zip(a.items, b.items)):
            r = same_tree(vm, x, y, f'{path}[{k}]')
            if r: return r
        return None
    if isinstance(a, BStr) and isinstance(b, BStr): return None if a.concrete() == b.concrete() else f'{path}: {a!r} vs {b!r}'
    if isinstance(a, float) and isinstance(b, float):
        import struct
        return None if struct.pack('<d', a) == struct.pack('<d', b) else f'{path}: {a!r} vs {b!r}'
    if type(a) == type(b) and a == b: return None
    if isinstance(a, (int, bool)) and isinstance(b, (int, bool)) and int(a) == int(b): return None
    return f'{path}: {a!r} vs {b!r}'
