"""Callee resolution: MIR call text (+ the frame's generic substitution) -> crate MIR function or std model."""
import re
from .mir import split_top, find_top, match_close, canon, type_head, unify
from .values import Unmodelled


class CallInfo:
    __slots__ = ('callee', 'selfty', 'trait', 'targs', 'method', 'fnargs', 'tyargs', 'subst', 'shape')

    def __repr__(self): return f'CallInfo({self.callee})'


def strip_generics(p):
    """remove turbofish / generic-argument groups but keep `<impl X>` segments"""
    out, i, n = '', 0, len(p)
    while i < n:
        c = p[i]
        if c == '<':
            e = match_close(p, i)
            if p.startswith('<impl ', i) and p.startswith('::', e + 1):
                out += re.sub(r'\s+', ' ', p[i:e + 1]); i = e + 1; continue
            if out.endswith('::'): out = out[:-2]
            i = e + 1; continue
        out += c; i += 1
    return out


def _assoc_names(vm):
    c = getattr(vm.mir, '_assoc_names', None)
    if c is None or c[0] != len(vm.mir.src.impls):
        d = {}
        for im in vm.mir.src.impls.values():
            for n in im.assoc: d.setdefault(n, set()).add(im.trait)
        c = vm.mir._assoc_names = (len(vm.mir.src.impls), d)
    return c[1]


def normalize_assoc(vm, t):
    """rewrite `<X as Trait>::Assoc` and the shorthand `X::Assoc` for crate traits with associated types"""
    names = _assoc_names(vm)
    guard = 0
    while guard < 20:
        guard += 1
        changed = False
        if ' as ' in t:
            for m in re.finditer(r' as (\w+)>::(\w+)', t):
                tr, name = m.group(1), m.group(2)
                if name not in names: continue
                close = m.end(1)
                depth, i = 0, close
                start = -1
                while i >= 0:
                    c = t[i]
                    if c == '>' and t[i - 1] not in '-=': depth += 1
                    elif c == '<':
                        depth -= 1
                        if depth == 0: start = i; break
                    i -= 1
                if start < 0: continue
                selfty = t[start + 1:m.start()]
                val = assoc_type(vm, selfty.strip(), tr, name)
                if val is not None:
                    t = t[:start] + val + t[m.end():]; changed = True; break
        if not changed:
            # shorthand  Type::Assoc  /  Type<..>::Assoc
            for m in re.finditer(r'::(' + '|'.join(map(re.escape, names)) + r')\b(?!::<|\()', t):
                end = m.start()
                # scan back over one type (identifier with optional generic args)
                i = end - 1
                if i < 0: continue
                if t[i] == '>':
                    depth = 0
                    while i >= 0:
                        if t[i] == '>' and t[i - 1] not in '-=': depth += 1
                        elif t[i] == '<':
                            depth -= 1
                            if depth == 0: break
                        i -= 1
                    i -= 1
                while i >= 0 and (t[i].isalnum() or t[i] == '_'): i -= 1
                selfty = t[i + 1:end]
                if not selfty or not selfty[0].isupper(): continue
                val = None
                for tr in names[m.group(1)]:
                    val = assoc_type(vm, selfty, tr, m.group(1))
                    if val is not None: break
                if val is not None:
                    t = t[:i + 1] + val + t[m.end():]; changed = True; break
        if not changed: break
    return t


def assoc_type(vm, selfty, tr, name):
    head = type_head(selfty)[0]
    if selfty.startswith('dyn '):
        # `trait Pass: VisitProgram<Output = X, Error = Y>`: bindings in the supertrait list of the object's trait
        t = selfty[4:].split('+')[0].strip()
        info = vm.mir.src.traits.get(t)
        if info:
            lines = vm.mir.src.files[info['file']]
            hdr = ' '.join(' '.join(lines[info['line'] - 1:info['line'] + 4]).split())
            m = re.search(r'\b' + re.escape(name) + r'\s*=\s*([^,>{]+(?:<[^<>]*>)?)', hdr.split('{')[0])
            if m:
                v = canon(m.group(1).strip())
                return vm.mir.src.aliases.get(v, v)
    for im in vm.mir.src.impls.values():
        if im.trait != tr or name not in im.assoc: continue
        out = {}
        if unify(im.self_ty, selfty, set(im.generics), out):
            v = im.assoc[name]
            if out: v = vm.subst_text(v, out)
            return v
    return None


def parse_callee(c):
    ci = CallInfo(); ci.callee = c; ci.selfty = ci.trait = None; ci.targs = []; ci.fnargs = []; ci.tyargs = []
    if c.startswith('<') and (not c.startswith('<impl ') or _find_as(c[1:match_close(c, 0)]) >= 0):
        e = match_close(c, 0)
        inner = c[1:e]; rest = c[e + 1:]
        k = _find_as(inner)
        if k >= 0:
            ci.selfty = inner[:k].strip(); tr = inner[k + 4:].strip()
            th, ta = type_head(tr); ci.trait = th.split('::')[-1]; ci.targs = ta
        else:
            ci.selfty = inner.strip()
        segs = _segments(rest)
        ci.method = segs[0] if segs else ''
        if len(segs) > 1 and segs[1].startswith('<'): ci.fnargs = split_top(segs[1][1:-1])
        if len(segs) > 2 or (len(segs) == 2 and not segs[1].startswith('<')):
            ci.method = '::'.join(s for s in segs if not s.startswith('<'))
        ci.shape = f'<{type_head(ci.selfty)[0] if not ci.selfty.startswith(("&", "(", "[")) else ci.selfty.split(" ")[0][:4]} as {ci.trait}>::{ci.method}'
        return ci
    segs = _segments(c)
    # trailing turbofish = fn generic args
    if segs and segs[-1].startswith('<'):          # a trailing <..> group is always a turbofish, even `::<impl Trait>`
        ci.fnargs = split_top(segs[-1][1:-1]); segs = segs[:-1]
    if not segs: raise Unmodelled('cannot parse callee: ' + repr(c))
    ci.method = segs[-1]
    pre = segs[:-1]
    if pre and pre[-1].startswith('<impl ') and pre[-1][6:7].isupper():      # inherent impl named through its type: <impl Type<..>>::method
        ty = pre[-1][6:-1]
        ci.selfty = ty; ci.tyargs = type_head(ty)[1]
        ci.shape = re.sub(r'^(?:[a-z_][a-z0-9_]*::)+(?=[A-Z<])', '', strip_generics(c))
        return ci
    if pre and pre[-1].startswith('<') and not pre[-1].startswith('<impl '):
        ci.tyargs = split_top(pre[-1][1:-1]); pre = pre[:-1]
    if pre:
        ci.selfty = pre[-1] + ('<' + ', '.join(ci.tyargs) + '>' if ci.tyargs else '')
    ci.shape = strip_generics(c)
    ci.shape = re.sub(r'^(?:[a-z_][a-z0-9_]*::)+(?=[A-Z<])', '', ci.shape)
    return ci


def _find_as(s):
    depth = 0
    for i, ch in enumerate(s):
        if ch in '<([{': depth += 1
        elif ch in ')]}' or (ch == '>' and s[i - 1] not in '-='): depth -= 1
        elif depth == 0 and s.startswith(' as ', i): return i
    return -1


def _segments(p):
    out, depth, start, i, n = [], 0, 0, 0, len(p)
    while i < n:
        c = p[i]
        if c in '<([{': depth += 1
        elif c in ')]}' or (c == '>' and p[i - 1] not in '-='): depth -= 1
        elif c == ':' and depth == 0 and p[i + 1:i + 2] == ':':
            if p[start:i]: out.append(p[start:i])
            start = i + 2; i += 1
        i += 1
    if p[start:]: out.append(p[start:])
    return out


def bind_fn_generics(vm, f, base, fnargs):
    gens = vm.mir.generics_of(f)
    s = dict(base)
    free = [g for g in gens if g not in s]
    for g, a in zip(free, fnargs): s[g] = a
    return s


def resolve(vm, callee, subst):
    mir = vm.mir
    c = canon(callee)
    if subst: c = vm.subst_text(c, subst)
    c = normalize_assoc(vm, c)
    if mir.src.aliases:
        c = _ALIAS_RX(mir).sub(lambda m: mir.src.aliases[m.group(1)], c)
    ci = parse_callee(c); ci.subst = subst
    hooks = vm.hooks
    if ci.trait is not None or (ci.selfty is not None and c.startswith('<') and not c.startswith('<impl ')):  # qualified path
        selfty = ci.selfty; head = type_head(selfty)[0]
        # user hook by shape
        cands = mir.by_impl.get((ci.trait, head, ci.method), [])
        # most specific first: impls whose trait arguments mention no impl generic (`From<Array> for Val` before `From<S> for Val`)
        cands = sorted(cands, key=lambda f: sum(1 for ta in f.impl.trait_args if any(re.search(r'\b' + re.escape(g) + r'\b', ta) for g in f.impl.generics)))
        # macro-generated `impl<T: Into<X>> From<T> for S` families: pick the instance whose bound T: Into<X> the argument meets
        if any(getattr(f.impl, 'bound_into', None) for f in cands) and ci.targs:
            arg = ci.targs[0]
            def meets(x, depth=0):
                if x == arg: return True
                if depth > 3: return False
                for g in mir.by_impl.get(('From', type_head(x)[0], 'from'), []):
                    gi = g.impl
                    if getattr(gi, 'bound_into', None):
                        if meets(gi.bound_into, depth + 1): return True
                    elif gi.trait_args and unify(gi.trait_args[0], arg, set(gi.generics), {}): return True
                return False
            exact = [f for f in cands if getattr(f.impl, 'bound_into', None) == arg]
            rest = [f for f in cands if getattr(f.impl, 'bound_into', None) and f not in exact and meets(f.impl.bound_into)]
            plain = [f for f in cands if not getattr(f.impl, 'bound_into', None)]
            cands = plain + exact + rest
        for f in cands:
            out = {}
            im = f.impl
            if unify(im.self_ty, selfty, set(im.generics), out) and _targs_ok(im, ci.targs, out):
                return ('mir', f, bind_fn_generics(vm, f, out, ci.fnargs))
            if selfty == head and len(cands) == 1:        # called from a model on a runtime value: type arguments unknown
                return ('mir', f, bind_fn_generics(vm, f, {}, ci.fnargs))
        # blanket impls (self type is a generic parameter of the impl)
        for (tr, h, meth), fs in mir.by_impl.items():
            if tr != ci.trait or meth != ci.method: continue
            for f in fs:
                im = f.impl
                if h in im.generics:
                    if not _blanket_ok(vm, im, selfty): continue
                    out = {}
                    if unify(im.self_ty, selfty, set(im.generics), out) and _targs_ok(im, ci.targs, out):
                        return ('mir', f, bind_fn_generics(vm, f, out, ci.fnargs))
        if ci.trait in mir.src.traits and (selfty.startswith(('dyn ', 'impl ')) or re.fullmatch(r'[A-Z]\w*', selfty) and selfty not in mir.src.structs and selfty not in mir.src.enums and not any(im.self_ty == selfty for im in mir.src.impls.values())):
            return ('dyn', ci)      # trait object / `impl Trait` argument / unbound generic: dispatch on the receiver's runtime type
        # trait default method defined in the crate
        for f in mir.by_name.get(ci.method, []):
            if f.name == f'{ci.trait}::{ci.method}' or f.name.endswith(f'::{ci.trait}::{ci.method}'):
                return ('mir', f, bind_fn_generics(vm, f, {'Self': selfty}, ci.fnargs))
        m = vm.models.lookup_trait(ci)
        if m is not None: return ('model', m[0], ci, m[1])
        raise Unmodelled(f'unmodelled callee: {c}   [shape {ci.shape}]')
    # plain path
    if ci.selfty is not None:
        head = type_head(ci.selfty)[0]
        vs = mir.src.enums.get(head)
        # a variant constructor used as a function: the crate may hold a constructor fn of the *same name for another enum*
        # (InputDest::Some vs Option::Some) -- only a MIR fn of this very enum may take precedence over the built-in constructor
        if vs is not None and ci.method in vs and not any(f.name.endswith(f'{head}::{ci.method}') for f in mir.by_name.get(ci.method, [])):
            idx = vs.index(ci.method)
            from .values import Adt
            return ('model', (lambda vm_, args, ci_, ty=head, idx=idx: Adt(ty, idx, list(args))), ci, f'{head}::{ci.method} (variant constructor)')
        for f in mir.by_impl.get((None, head, ci.method), []):
            out = {}
            im = f.impl
            if not ci.tyargs or unify(im.self_ty, ci.selfty, set(im.generics), out):
                return ('mir', f, bind_fn_generics(vm, f, out, ci.fnargs))
        # derive-generated inherent methods (derive_more::IsVariant etc.) are indexed under the derive's name
        for (tr, h, meth), fs in mir.by_impl.items():
            if h == head and meth == ci.method and tr is not None and fs[0].impl.derive and tr not in ('Clone', 'PartialEq', 'Debug', 'Default', 'Hash', 'PartialOrd', 'Ord', 'Eq'):
                return ('mir', fs[0], bind_fn_generics(vm, fs[0], {}, ci.fnargs))
    cands = mir.by_name.get(ci.method, [])
    if cands:
        segs = [s for s in _segments(strip_generics(c))]
        best = None
        for f in cands:
            fsegs = f.name.split('::')
            # the MIR name and the call path are both trimmed paths: match on the longest common suffix
            k = 0
            while k < min(len(fsegs), len(segs)) and fsegs[-1 - k] == segs[-1 - k]: k += 1
            if k == 0: continue
            if k < min(len(fsegs), len(segs)) and k < 2 and len(cands) > 1: continue
            if best is None or k > best[0]: best = (k, f)
        if best is not None:
            f = best[1]
            base = {}
            if len(f.name.split('::')) >= 2 and f.name.split('::')[-2] in mir.src.traits:
                raise Unmodelled('trait method called without self type: ' + c)
            return ('mir', f, bind_fn_generics(vm, f, base, ci.fnargs))
    m = vm.models.lookup_path(ci)
    if m is not None: return ('model', m[0], ci, m[1])
    raise Unmodelled(f'unmodelled callee: {c}   [shape {ci.shape}]')


def _ALIAS_RX(mir):
    rx = getattr(mir, '_alias_rx', None)
    if rx is None:
        rx = mir._alias_rx = re.compile(r'(?<![\w:])(' + '|'.join(map(re.escape, sorted(mir.src.aliases, key=len, reverse=True))) + r')(?![\w<])')
    return rx


def _targs_ok(im, targs, out):
    if not im.trait_args or not targs: return True
    if len(im.trait_args) != len(targs): return False
    return all(unify(a, b, set(im.generics), out) for a, b in zip(im.trait_args, targs))


_CLOSURE_TRAITS = ('Fn', 'FnMut', 'FnOnce')


def _blanket_ok(vm, im, selfty):
    """cheap check of the bound on a blanket impl's self type (`impl<F: Fn(&Token) -> bool> MatchesToken for F`)"""
    line = vm.mir.src.files[im.file][im.line - 1]
    m = re.search(r'impl<\s*(\w+)\s*:\s*([\w:]+)', line)
    if not m: return True
    bound = m.group(2).split('::')[-1]
    if bound in _CLOSURE_TRAITS: return selfty.lstrip('&').startswith(('{closure@', 'fn(', 'for<', 'unsafe fn('))
    if bound in vm.mir.src.traits:
        head = type_head(selfty)[0]
        return any(i2.trait == bound and type_head(i2.self_ty)[0] == head for i2 in vm.mir.src.impls.values())
    return True
