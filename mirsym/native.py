"""Client for the native helper (real rrss, built from the scratch copy in dev and release)."""
import os, subprocess, json, shutil, fcntl, select, time, sys

HERE = os.path.dirname(os.path.abspath(__file__))
CRATE = os.path.join(os.path.dirname(HERE), 'native')


def build(ws, profile):
    """build (once per tree hash and profile) and return the path of the helper binary"""
    import hashlib
    h = hashlib.sha1()
    for f in sorted(os.listdir(os.path.join(CRATE, 'src'))): h.update(open(os.path.join(CRATE, 'src', f), 'rb').read())
    d = os.path.join(ws.dir, 'native-' + h.hexdigest()[:8])
    binp = os.path.join(d, 'target', 'release' if profile == 'release' else 'debug', 'rrss-native-helper')
    lock = open(os.path.join(ws.dir, '.lock-native-' + profile), 'w')
    fcntl.flock(lock, fcntl.LOCK_EX)
    try:
        if os.path.exists(binp): return binp
        os.makedirs(os.path.join(d, 'src'), exist_ok=True)
        for f in os.listdir(os.path.join(CRATE, 'src')): shutil.copy(os.path.join(CRATE, 'src', f), os.path.join(d, 'src', f))
        toml = open(os.path.join(CRATE, 'Cargo.toml.in')).read().replace('@RRSS@', ws.src)
        with open(os.path.join(d, 'Cargo.toml'), 'w') as f: f.write(toml)
        if os.path.exists(os.path.join(ws.src, 'Cargo.lock')) and not os.path.exists(os.path.join(d, 'Cargo.lock')):
            shutil.copy(os.path.join(ws.src, 'Cargo.lock'), os.path.join(d, 'Cargo.lock'))
        env = dict(os.environ, CARGO_NET_OFFLINE='true')
        env.pop('RUSTFLAGS', None)
        cmd = ['cargo', 'build', '--offline'] + (['--release'] if profile == 'release' else [])
        r = subprocess.run(cmd, cwd=d, env=env, stdout=subprocess.PIPE, stderr=subprocess.PIPE)
        if r.returncode != 0:
            # a stale lock file copy can make --offline resolution fail: retry without it
            try: os.remove(os.path.join(d, 'Cargo.lock'))
            except OSError: pass
            r = subprocess.run(cmd, cwd=d, env=env, stdout=subprocess.PIPE, stderr=subprocess.PIPE)
        if r.returncode != 0:
            sys.stderr.write(r.stderr.decode(errors='replace')[-4000:])
            raise RuntimeError('native helper build failed')
        return binp
    finally:
        fcntl.flock(lock, fcntl.LOCK_UN)


class Native:
    def __init__(self, ws, profile='dev'):
        self.ws, self.profile = ws, profile
        self.bin = build(ws, profile)
        self.p = None
        self.calls = 0

    def _start(self):
        self.p = subprocess.Popen([self.bin], stdin=subprocess.PIPE, stdout=subprocess.PIPE, stderr=subprocess.DEVNULL)

    def call(self, req, timeout=10.0):
        """returns the response dict; {'timeout': True} if the real code did not return in time (process is killed);
        {'crash': rc} if the process died (abort / stack overflow / UB)"""
        if self.p is None or self.p.poll() is not None: self._start()
        self.calls += 1
        line = (json.dumps(req) + '\n').encode('utf-8')
        try:
            self.p.stdin.write(line); self.p.stdin.flush()
        except BrokenPipeError:
            self._start(); self.p.stdin.write(line); self.p.stdin.flush()
        r, _, _ = select.select([self.p.stdout], [], [], timeout)
        if not r:
            self.p.kill(); self.p.wait(); self.p = None
            return {'timeout': True}
        out = self.p.stdout.readline()
        if not out:
            rc = self.p.wait(); self.p = None
            return {'crash': rc}
        return json.loads(out.decode('utf-8'))

    def close(self):
        if self.p is not None:
            try: self.p.stdin.close(); self.p.wait(timeout=2)
            except Exception: self.p.kill()
            self.p = None
